#!/bin/bash
# usage: mkworktree.sh <name>   -> creates /tmp/mut/<name> as a detached worktree of /repo HEAD
set -e
d=/tmp/mut/$1
git -C /repo worktree add -q --detach "$d" HEAD
mkdir -p "$d/OUT"
echo "$d"
