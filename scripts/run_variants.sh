#!/bin/bash
# runs every variant spec (or those of the given properties) through xcheck -variant, 8 at a time
cd /verif
props=${@:-$(ls variants)}
for p in $props; do
  for f in variants/$p/*.json; do
    echo "$p $f"
  done
done | xargs -P 8 -L 1 bash -c 'out=$(${XCHECK:-/verif/bin/xcheck} -prop $0 -variant $1 2>&1 | grep -E "^(FIRED|MISSED|STALE|SILENT|FALSE-ALARM|CHECKER)" | tail -1); echo "$(basename $1 .json): ${out:-NO-OUTPUT}"' | sort
