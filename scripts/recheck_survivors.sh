#!/bin/bash
# usage: recheck_survivors.sh <campaign.tsv> <out.tsv>   — re-runs the quick checks on the mutants a campaign left SURVIVED
set -u
export GOFLAGS=-mod=mod GOPROXY=off GOSUMDB=off GOTOOLCHAIN=local GOWORK=off
in=$1; out=$2
work=$(mktemp -d /tmp/mcr.XXXXXX)
sv=$work/verif; mkdir -p $sv; cp /verif/known_findings.jsonl $sv/
for f in $(awk -F'\t' '$6=="SURVIVED"{print $2}' $in | sort -u); do
  b=$(echo "$f" | tr '/' '_' | sed 's/\.go$//')
  /verif/bin/mutgen /repo/$f $work/m_$b >/dev/null
done
one() {
  IFS=$'\t' read -r id f line op desc st fired <<< "$1"
  b=$(echo "$f" | tr '/' '_' | sed 's/\.go$//')
  d=$(mktemp -d $2/w.XXXXXX)
  rsync -a --exclude .git /repo/ $d/src/
  cp "$2/m_$b/$id.go.mut" "$d/src/$f"
  fired=$(${XCHECK:-/verif/bin/xcheck} -prop all -repo $d/src -verif $3 2>&1 | grep -E '^(VIOLATED|UNDECIDED|CHECKER)' | head -4 | sed 's/ at .*//' | tr '\n' ';')
  if [ -n "$(echo $fired | tr -d ' ;')" ]; then st=caught; else st=SURVIVED; fired=-; fi
  printf '%s\t%s\t%s\t%s\t%s\t%s\t%s\n' "$id" "$f" "$line" "$op" "$desc" "$st" "$fired"
  rm -rf $d
}
export -f one
awk -F'\t' '$6=="SURVIVED"' $in | xargs -P ${P:-6} -d '\n' -I{} bash -c 'one "$1" "$2" "$3"' _ {} $work $sv > $out
rm -rf $work
awk -F'\t' '{c[$6]++} END{for(k in c) print k, c[k]}' $out >&2
