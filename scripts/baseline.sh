#!/bin/bash
# Runs the repository's own pinned suite (guard off; static analysis needs no hooks)
# and compares the set of passing tests with /root/.vp/BASELINE.json.
set -u
export GOFLAGS=-mod=mod GOPROXY=off GOSUMDB=off
REPO=${1:-/repo}
out=$(mktemp)
for m in . ./cmd; do
  (cd "$REPO/$m" && go test -mod=mod -json -vet=off -count=1 -timeout 25m ./... 2>&1) >> "$out"
done
python3 - "$out" <<'PY'
import json,sys
passed=set(); failed=set()
for l in open(sys.argv[1]):
    try: e=json.loads(l)
    except Exception: continue
    if e.get('Test') and e.get('Action') in('pass','fail'):
        k=e['Package']+'::'+e['Test']
        (passed if e['Action']=='pass' else failed).add(k)
base=set(json.load(open('/root/.vp/BASELINE.json'))['stable_pass'])
missing=sorted(base-passed)
print(f"passed={len(passed)} failed={len(failed)} baseline={len(base)} baseline_missing={len(missing)}")
for m in missing: print("MISSING",m)
for f in sorted(failed): print("FAILED",f)
sys.exit(0 if not missing and not failed else 1)
PY
rc=$?
rm -f "$out"
exit $rc
