#!/bin/bash
# usage: check_benign.sh [name ...]   e.g. C14-b
# Each behaviour-preserving refactoring benign/<name>/refactorN.diff is applied to a scratch copy of /repo's sources
# (outside /repo and /verif, removed afterwards) and every quick check is run on the copy: silence is expected, any
# VIOLATION is a false alarm of the machinery (benign/KNOWN_LIMITS.json lists the stated limits). /repo is not touched.
set -u
export GOFLAGS=-mod=mod GOPROXY=off GOSUMDB=off GOTOOLCHAIN=local GOWORK=off
names=${*:-$(ls /verif/benign | grep -v KNOWN)}
rc=0
for name in $names; do
for d in /verif/benign/$name/refactor*.diff; do
  [ -f "$d" ] || continue
  echo "=== $d"
  scratch=$(mktemp -d /tmp/benign-run.XXXXXX)
  rsync -a --exclude .git /repo/ $scratch/src/
  mkdir -p $scratch/verif; cp /verif/known_findings.jsonl $scratch/verif/
  if ! (cd $scratch/src && patch -p1 -s --no-backup-if-mismatch -i "$d"); then echo "does not apply"; rm -rf $scratch; rc=1; continue; fi
  (cd $scratch/src && go build ./... ) || echo "BUILD FAILS"
  alarms=$(cd /verif && printf '%s\n' C01 C02 C03 C04 C05 C06 C07 C08 C09 C10 C11 C12 C13 C14 C15 C16 C17 C18 C19 C20 | xargs -P 10 -I{} sh -c \
    'out=$(./bin/xcheck -prop {} -repo '$scratch'/src -verif '$scratch'/verif 2>&1); if echo "$out" | grep -q "^VIOLATION\|^CHECKER"; then echo "{} ALARM: $(echo "$out" | grep -E "^(VIOLATED|UNDECIDED|CHECKER)" | head -4 | cut -c1-300)"; fi' | sort)
  [ -n "$alarms" ] && { echo "$alarms" | sed "s#$scratch/src/##g"; rc=1; }
  rm -rf $scratch
done
done
exit $rc
