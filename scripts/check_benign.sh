#!/bin/bash
# usage: check_benign.sh [name ...]   e.g. C14-b
# Each behaviour-preserving refactoring benign/<name>/refactorN.diff is applied to a scratch copy of /repo's sources
# (outside /repo and /verif, removed afterwards) and every quick check is run on the copy: silence is expected, any
# VIOLATION is a false alarm of the machinery (benign/KNOWN_LIMITS.json lists the stated limits). /repo is not touched.
set -u
export GOFLAGS=-mod=mod GOPROXY=off GOSUMDB=off GOTOOLCHAIN=local GOWORK=off
names=${*:-$(ls /verif/benign | grep -v KNOWN)}
rc=0
for name in $names; do
for d in /verif/benign/$name/refactor*.diff; do
  [ -f "$d" ] || continue
  echo "=== $d"
  scratch=$(mktemp -d /tmp/benign-run.XXXXXX)
  rsync -a --exclude .git /repo/ $scratch/src/
  mkdir -p $scratch/verif; cp /verif/known_findings.jsonl $scratch/verif/
  if ! (cd $scratch/src && patch -p1 -s --no-backup-if-mismatch -i "$d"); then echo "does not apply"; rm -rf $scratch; rc=1; continue; fi
  (cd $scratch/src && go build ./... ) || echo "BUILD FAILS"
  alarms=$(cd /verif && ${XCHECK:-/verif/bin/xcheck} -prop all -repo $scratch/src -verif $scratch/verif 2>&1 | grep -E "^(VIOLATED|UNDECIDED|CHECKER)" | cut -c1-320 | sed -E 's/^(VIOLATED|UNDECIDED) (C[0-9]+)/\2 ALARM: \1 \2/; s/^(CHECKER-[A-Z]+) property=(C[0-9]+)/\2 ALARM: \1 \2/' | sort)
  [ -n "$alarms" ] && { echo "$alarms" | sed "s#$scratch/src/##g"; rc=1; }
  rm -rf $scratch
done
done
exit $rc
