#!/bin/bash
# usage: check_benign.sh [name ...]   e.g. C14-b
# Applies each behaviour-preserving refactoring benign/<name>/refactorN.diff to /repo (temporarily), runs every
# quick check (expects silence: any VIOLATION is a false alarm of the machinery), reverts. Evidence goes to a scratch dir.
set -u
export GOFLAGS=-mod=mod GOPROXY=off GOSUMDB=off GOTOOLCHAIN=local GOWORK=off
names=${*:-$(ls /verif/benign)}
scratch=$(mktemp -d /tmp/benign-verif.XXXXXX)
cp /verif/known_findings.jsonl $scratch/; cp -r /verif/variants $scratch/ 2>/dev/null
rc=0
for name in $names; do
for d in /verif/benign/$name/refactor*.diff; do
  [ -f "$d" ] || continue
  echo "=== $d"
  git -C /repo apply "$d" || { echo "does not apply"; rc=1; continue; }
  (cd /repo && go build ./... ) || echo "BUILD FAILS"
  cd /verif
  printf '%s\n' C01 C02 C03 C04 C05 C06 C07 C08 C09 C10 C11 C12 C13 C14 C15 C16 C17 C18 C19 C20 | xargs -P 10 -I{} sh -c \
    'out=$(./bin/xcheck -prop {} -verif '$scratch' 2>&1); if echo "$out" | grep -q "^VIOLATION\|^CHECKER"; then echo "{} ALARM: $(echo "$out" | grep -E "^(VIOLATED|UNDECIDED|CHECKER)" | head -4 | cut -c1-300)"; fi' | sort | tee -a $scratch/alarms
  git -C /repo checkout -- . ; git -C /repo clean -fdq -- '*.go' 2>/dev/null
done
done
[ -s $scratch/alarms ] && rc=1
rm -rf $scratch
git -C /repo status --short | head
exit $rc
