#!/bin/bash
# usage: check_benign.sh <mutdir-name>  e.g. C14-b : applies each OUT/refactorN.diff to /repo, confirms the suite, runs every quick check (expects silence), reverts
set -u
name=$1
for d in /tmp/mut/$name/OUT/refactor*.diff; do
  [ -f "$d" ] || continue
  echo "=== $d"
  git -C /repo apply "$d" || { echo "does not apply"; continue; }
  (cd /repo && GOFLAGS=-mod=mod GOPROXY=off GOSUMDB=off go build ./... ) || echo "BUILD FAILS"
  suite=skipped
  cd /verif
  for p in C01 C02 C03 C04 C05 C06 C07 C08 C09 C10 C11 C12 C13 C14 C15 C16 C17 C18 C19 C20; do
    out=$(./bin/xcheck -prop $p -verif /tmp/mut/scratch-verif 2>&1)
    if echo "$out" | grep -q "^VIOLATION\|^CHECKER"; then
       echo "$p ALARM: $(echo "$out" | grep -E '^(VIOLATED|UNDECIDED|CHECKER)' | head -4 | cut -c1-260)"
    fi
  done
  git -C /repo checkout -- . ; git -C /repo clean -fdq -- '*.go' 2>/dev/null
done
git -C /repo status --short | head
