#!/bin/bash
# usage: confirm_benign.sh <set> ...   — each refactorN.diff of benign/<set> applies to a scratch copy of /repo, builds, and the
# repository's test suite passes on it (private network namespace: the suite uses fixed ports)
export GOFLAGS=-mod=mod GOPROXY=off GOSUMDB=off GOTOOLCHAIN=local GOWORK=off
for name in "$@"; do for d in /verif/benign/$name/refactor*.diff; do
  s=$(mktemp -d /tmp/benign-conf.XXXXXX); rsync -a --exclude .git /repo/ $s/src/
  if ! (cd $s/src && patch -p1 -s --no-backup-if-mismatch -i "$d"); then echo "$name/$(basename $d): DOES-NOT-APPLY"; rm -rf $s; continue; fi
  out=$(unshare -n sh -c "ip link set lo up; cd $s/src && go test -vet=off -count=1 ./... 2>&1" | tail -3 | tr '\n' ' ')
  if echo "$out" | grep -q "FAIL\|panic\|cannot"; then echo "$name/$(basename $d): TESTS-FAIL $out"; else echo "$name/$(basename $d): ok"; fi
  rm -rf $s
done; done
