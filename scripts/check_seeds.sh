#!/bin/bash
# applies every kept seeded patch to a scratch copy of /repo's sources and reports whether its property fires (quick
# tier); /repo is not touched
cd /verif
for d in seeded/*/; do
  n=$(basename $d)
  prop=$(python3 -c "import json;print(json.load(open('$d/meta.json'))['property'])")
  scratch=$(mktemp -d /tmp/seed-run.XXXXXX)
  rsync -a --exclude .git /repo/ $scratch/src/
  mkdir -p $scratch/verif; cp known_findings.jsonl $scratch/verif/
  if ! (cd $scratch/src && patch -p1 -s --no-backup-if-mismatch -i /verif/$d/patch.diff) 2>/dev/null; then echo "$n: PATCH-STALE"; rm -rf $scratch; continue; fi
  out=$(${XCHECK:-/verif/bin/xcheck} -prop $prop -repo $scratch/src -verif $scratch/verif 2>&1)
  if echo "$out" | grep -q "^VIOLATION"; then echo "$n: FIRES $(echo "$out" | grep -E '^(VIOLATED|UNDECIDED)' | head -2 | cut -c1-120 | tr '\n' ' ')"; else echo "$n: silent ($(echo "$out" | grep -c CHECKER) checker errors)"; fi
  rm -rf $scratch
done
