#!/bin/bash
# applies every kept seeded patch to /repo in turn and reports which properties fire (quick tier), then restores /repo
cd /verif
cp known_findings.jsonl /tmp/mut/scratch-verif/ 2>/dev/null || { mkdir -p /tmp/mut/scratch-verif; cp known_findings.jsonl /tmp/mut/scratch-verif/; }
for d in seeded/*/; do
  n=$(basename $d)
  prop=$(python3 -c "import json;print(json.load(open('$d/meta.json'))['property'])")
  git -C /repo apply /verif/$d/patch.diff 2>/dev/null || { echo "$n: PATCH-STALE"; continue; }
  out=$(./bin/xcheck -prop $prop -verif /tmp/mut/scratch-verif 2>&1)
  if echo "$out" | grep -q "^VIOLATION"; then echo "$n: FIRES $(echo "$out" | grep -E '^(VIOLATED|UNDECIDED)' | head -2 | cut -c1-120 | tr '\n' ' ')"; else echo "$n: silent ($(echo "$out" | grep -c CHECKER) checker errors)"; fi
  git -C /repo checkout -- .; git -C /repo clean -fdq -- '*.go'
done
