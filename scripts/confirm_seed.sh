#!/bin/bash
# usage: confirm_seed.sh <mutdir-name>   e.g. C03-1
# Confirms in a fresh scratch worktree: demo passes without the patch, fails with it, suite passes with it.
# Then applies the patch to a scratch copy of /repo's sources and runs every quick check on the copy.
set -u
export GOFLAGS=-mod=mod GOPROXY=off GOSUMDB=off
name=$1
src=/tmp/mut/$name/OUT
[ -f "$src/patch.diff" ] || { echo "no patch"; exit 2; }
demo=$(ls $src/*_test.go | head -1)
pkg=$(grep -m1 '^package ' "$demo" | awk '{print $2}')
sub="."; [ "$pkg" = "stanza" ] && sub="stanza"; [ "$pkg" = "stanza_test" ] && sub="stanza"
wt=/tmp/mut/confirm-$name
git -C /repo worktree add -q --detach "$wt" HEAD || exit 2
cp "$demo" "$wt/$sub/"
dn=$(basename "$demo")
tests=$(grep -o '^func Test[A-Za-z0-9_]*' "$demo" | sed 's/func //' | paste -sd'|')
echo "== demo tests: $tests (package $pkg in $sub)"
( cd "$wt/$sub" && unshare -n sh -c "ip link set lo up 2>/dev/null; go test -vet=off -count=1 -run '^($tests)\$' ." 2>&1 | tail -3 ) > /tmp/mut/confirm-$name.nopatch.log
np=$(grep -c "^ok" /tmp/mut/confirm-$name.nopatch.log)
( cd "$wt" && git apply "$src/patch.diff" ) || { echo "PATCH DOES NOT APPLY"; git -C /repo worktree remove --force "$wt"; exit 2; }
( cd "$wt/$sub" && unshare -n sh -c "ip link set lo up 2>/dev/null; go test -vet=off -count=1 -run '^($tests)\$' ." 2>&1 | tail -15 ) > /tmp/mut/confirm-$name.patch.log
wp=$(grep -c "^FAIL\|^--- FAIL\|panic:" /tmp/mut/confirm-$name.patch.log)
rm "$wt/$sub/$dn"
suite=$(unshare -n sh -c "ip link set lo up 2>/dev/null; /verif/scripts/baseline.sh $wt" | head -1)
echo "without patch: $( [ $np -ge 1 ] && echo PASS || echo NOT-PASS ); with patch: $( [ $wp -ge 1 ] && echo FAIL-as-expected || echo NOT-FAILING ); suite with patch: $suite"
git -C /repo worktree remove --force "$wt"
# now the checks, on a scratch copy of /repo's sources with the patch applied (/repo itself is not touched)
scratch=$(mktemp -d /tmp/seed-run.XXXXXX)
rsync -a --exclude .git /repo/ $scratch/src/
mkdir -p $scratch/verif; cp /verif/known_findings.jsonl $scratch/verif/
( cd $scratch/src && patch -p1 -s --no-backup-if-mismatch -i "$src/patch.diff" ) || { echo "cannot apply to the scratch copy"; rm -rf $scratch; exit 2; }
cd /verif
GOTOOLCHAIN=local GOWORK=off ${XCHECK:-/verif/bin/xcheck} -prop all -repo $scratch/src -verif $scratch/verif 2>&1 | grep -E '^(VIOLATED|UNDECIDED|CHECKER)' | cut -c1-240 | sed -E 's/^(VIOLATED|UNDECIDED) (C[0-9]+)/\2 FIRES: \1 \2/' | sed "s#$scratch/src/##g"
rm -rf $scratch
