#!/bin/bash
# usage: confirm_seed.sh <mutdir-name>   e.g. C03-1
# Confirms in a fresh scratch worktree: demo passes without the patch, fails with it, suite passes with it.
# Then applies the patch to /repo, runs every quick check, and restores /repo.
set -u
export GOFLAGS=-mod=mod GOPROXY=off GOSUMDB=off
name=$1
src=/tmp/mut/$name/OUT
[ -f "$src/patch.diff" ] || { echo "no patch"; exit 2; }
demo=$(ls $src/*_test.go | head -1)
pkg=$(grep -m1 '^package ' "$demo" | awk '{print $2}')
sub="."; [ "$pkg" = "stanza" ] && sub="stanza"; [ "$pkg" = "stanza_test" ] && sub="stanza"
wt=/tmp/mut/confirm-$name
git -C /repo worktree add -q --detach "$wt" HEAD || exit 2
cp "$demo" "$wt/$sub/"
dn=$(basename "$demo")
tests=$(grep -o '^func Test[A-Za-z0-9_]*' "$demo" | sed 's/func //' | paste -sd'|')
echo "== demo tests: $tests (package $pkg in $sub)"
( cd "$wt/$sub" && unshare -n sh -c "ip link set lo up 2>/dev/null; go test -vet=off -count=1 -run '^($tests)\$' ." 2>&1 | tail -3 ) > /tmp/mut/confirm-$name.nopatch.log
np=$(grep -c "^ok" /tmp/mut/confirm-$name.nopatch.log)
( cd "$wt" && git apply "$src/patch.diff" ) || { echo "PATCH DOES NOT APPLY"; git -C /repo worktree remove --force "$wt"; exit 2; }
( cd "$wt/$sub" && unshare -n sh -c "ip link set lo up 2>/dev/null; go test -vet=off -count=1 -run '^($tests)\$' ." 2>&1 | tail -15 ) > /tmp/mut/confirm-$name.patch.log
wp=$(grep -c "^FAIL\|^--- FAIL\|panic:" /tmp/mut/confirm-$name.patch.log)
rm "$wt/$sub/$dn"
suite=$(unshare -n sh -c "ip link set lo up 2>/dev/null; /verif/scripts/baseline.sh $wt" | head -1)
echo "without patch: $( [ $np -ge 1 ] && echo PASS || echo NOT-PASS ); with patch: $( [ $wp -ge 1 ] && echo FAIL-as-expected || echo NOT-FAILING ); suite with patch: $suite"
git -C /repo worktree remove --force "$wt"
# now the checks
git -C /repo apply "$src/patch.diff" || { echo "cannot apply to /repo"; exit 2; }
cd /verif
for p in C01 C02 C03 C04 C05 C06 C07 C08 C09 C10 C11 C12 C13 C14 C15 C16 C17 C18 C19 C20; do
  out=$(./bin/xcheck -prop $p -verif /tmp/mut/scratch-verif 2>&1)
  if echo "$out" | grep -q "^VIOLATION\|^CHECKER"; then
     echo "$p FIRES: $(echo "$out" | grep -E '^(VIOLATED|UNDECIDED|CHECKER)' | head -3 | cut -c1-220)"
  fi
done
git -C /repo checkout -- . && git -C /repo status --short | head -3
