#!/bin/bash
# Development tool (not a registered check): single-edit mutants of the given source files (relative to /repo);
# for each one that compiles and passes the repository's test suite, which quick checks fire?
# usage: mutation_campaign.sh <outfile.tsv> <file.go> [file.go ...]      (env P=workers, default 6;
#        MUTGEN_EXTRA=1 adds the TAG and STR operators, OPS="TAG STR" keeps only the listed operators)
set -u
export GOFLAGS=-mod=mod GOPROXY=off GOSUMDB=off GOTOOLCHAIN=local GOWORK=off
out=$1; shift
work=$(mktemp -d /tmp/mc.XXXXXX)
sv=$work/verif; mkdir -p $sv; cp /verif/known_findings.jsonl $sv/
: > $work/jobs
for f in "$@"; do
  b=$(echo "$f" | tr '/' '_' | sed 's/\.go$//')
  /verif/bin/mutgen /repo/$f $work/m_$b >/dev/null
  while IFS=$'\t' read -r id line op desc; do
    if [ -n "${OPS:-}" ] && ! echo " $OPS " | grep -q " $op "; then continue; fi
    printf '%s\t%s\t%s\t%s\t%s\t%s\n' "$f" "$work/m_$b/$id.go.mut" "$id" "$line" "$op" "$desc" >> $work/jobs
  done < $work/m_$b/index.tsv
done
echo "$(wc -l < $work/jobs) mutants" >&2
one() {
  IFS=$'\t' read -r f mut id line op desc <<< "$1"
  d=$(mktemp -d $2/w.XXXXXX)
  rsync -a --exclude .git /repo/ $d/src/
  cp "$mut" "$d/src/$f"
  cd $d/src
  if ! go build ./... >/dev/null 2>&1; then
    printf '%s\t%s\t%s\t%s\t%s\tnocompile\t-\n' "$id" "$f" "$line" "$op" "$desc"; cd /; rm -rf $d; return
  fi
  if ! timeout 240 unshare -n sh -c 'ip link set lo up; go test -vet=off -count=1 ./... >/dev/null 2>&1'; then
    printf '%s\t%s\t%s\t%s\t%s\tkilled-by-tests\t-\n' "$id" "$f" "$line" "$op" "$desc"; cd /; rm -rf $d; return
  fi
  fired=$(${XCHECK:-/verif/bin/xcheck} -prop all -repo $d/src -verif $3 2>&1 | grep -E '^(VIOLATED|UNDECIDED|CHECKER)' | head -4 | sed 's/ at .*//' | tr '\n' ';')
  if [ -n "$(echo $fired | tr -d ' ;')" ]; then st=caught; else st=SURVIVED; fired=-; fi
  printf '%s\t%s\t%s\t%s\t%s\t%s\t%s\n' "$id" "$f" "$line" "$op" "$desc" "$st" "$fired"
  cd /; rm -rf $d
}
export -f one
cat $work/jobs | xargs -P ${P:-6} -d '\n' -I{} bash -c 'one "$1" "$2" "$3"' _ {} $work $sv > $out
rm -rf $work
awk -F'\t' '{c[$6]++} END{for(k in c) print k, c[k]}' $out >&2
