#!/bin/bash
# usage: ingest_benign.sh <set-letter> <ids…>   — copies /tmp/mut/<id>-<set>/OUT/refactor*.diff and README.md to /verif/benign/<id>-<set>/
set -e
s=$1; shift
for id in "$@"; do
  src=/tmp/mut/$id-$s/OUT; dst=/verif/benign/$id-$s
  ls $src/refactor*.diff >/dev/null 2>&1 || { echo "$id-$s: nothing yet"; continue; }
  mkdir -p $dst; cp $src/refactor*.diff $dst/; [ -f $src/README.md ] && cp $src/README.md $dst/README.md
  echo "$id-$s: $(ls $dst/refactor*.diff | wc -l) diff(s)"
done
