#!/usr/bin/env python3
# usage: save_seed.py <mutdir-name> <property> <caught: rule list or 'none'> <needs...>
import sys, os, shutil, json, glob, subprocess
name, prop, caught = sys.argv[1], sys.argv[2], sys.argv[3]
needs = " ".join(sys.argv[4:])
src=f"/tmp/mut/{name}/OUT"; dst=f"/verif/seeded/{name}"
os.makedirs(dst, exist_ok=True)
shutil.copy(f"{src}/patch.diff", f"{dst}/patch.diff")
demos=[]
for f in glob.glob(f"{src}/*_test.go"):
    b=os.path.basename(f)
    shutil.copy(f, f"{dst}/{b}.txt")   # .txt so that no Go tool ever compiles it here
    demos.append(b)
if os.path.exists(f"{src}/README.md"): shutil.copy(f"{src}/README.md", f"{dst}/README.agent.md")
head=subprocess.check_output(['git','-C','/repo','log','--format=%h','-1']).decode().strip()
meta={"id":name,"property":prop,"origin":"independent sub-agent given only the property text and a scratch worktree",
 "breaks":"see README.agent.md","needs_to_manifest":needs,
 "demonstration":demos,"demo_package_dir":"stanza" if any(open(f"{src}/{d}").read().split('package ')[1].split()[0].startswith('stanza') for d in demos) else ".",
 "confirmed_by_me":{"how":"scripts/confirm_seed.sh "+name+": fresh scratch worktree of /repo HEAD; demo passes without the patch, fails with it; the 171-test suite passes with the patch; worktree removed afterwards","repo_head_when_confirmed":head},
 "checks_run":"patch applied to /repo (git apply), all 20 quick checks run, patch reverted (git checkout -- .)",
 "caught_by":caught}
json.dump(meta,open(f"{dst}/meta.json","w"),indent=1)
print("saved",dst)
