#!/bin/bash
# validates MANIFEST.json and every evidence file against the given schemas
python3-vt - <<'PY'
import json, jsonschema, glob, sys
ok=True
try:
    jsonschema.validate(json.load(open('/verif/MANIFEST.json')), json.load(open('/root/.vp/MANIFEST.schema.json')))
    print("MANIFEST ok")
except Exception as e:
    ok=False; print("MANIFEST INVALID", e)
sch=json.load(open('/root/.vp/EVIDENCE.schema.json'))
for f in sorted(glob.glob('/verif/evidence/C*.json')):
    try:
        jsonschema.validate(json.load(open(f)), sch)
    except Exception as e:
        ok=False; print("INVALID", f, str(e)[:300])
print("evidence files:", len(glob.glob('/verif/evidence/C*.json')))
sys.exit(0 if ok else 1)
PY
