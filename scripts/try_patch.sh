#!/bin/bash
# usage: try_patch.sh <patch file (relative to /verif or absolute)> <prop> [prop...]
# applies the patch to a scratch copy of /repo's sources and runs the quick checks on the copy; /repo is not touched
p=$1; shift
case $p in /*) ;; *) p=/verif/$p;; esac
scratch=$(mktemp -d /tmp/try-patch.XXXXXX)
rsync -a --exclude .git /repo/ $scratch/src/
mkdir -p $scratch/verif; cp /verif/known_findings.jsonl $scratch/verif/
(cd $scratch/src && patch -p1 -s --no-backup-if-mismatch -i "$p") || { rm -rf $scratch; exit 3; }
for x in "$@"; do (cd /verif && ${XCHECK:-/verif/bin/xcheck} -prop $x -repo $scratch/src -verif $scratch/verif 2>&1 | grep -E "^(VIOLATED|UNDECIDED|CHECKER|C[0-9]+ tier)" | sed "s#$scratch/src/##g" | cut -c1-${W:-330}); done
rm -rf $scratch
