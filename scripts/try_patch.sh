#!/bin/bash
# usage: try_patch.sh <patch file (relative to /verif or absolute)> <prop> [prop...]  — apply to /repo temporarily, run quick checks, revert
p=$1; shift
case $p in /*) ;; *) p=/verif/$p;; esac
sv=$(mktemp -d /tmp/sv.XXXXXX); cp /verif/known_findings.jsonl $sv/
git -C /repo apply "$p" || exit 3
for x in "$@"; do (cd /verif && ./bin/xcheck -prop $x -verif $sv 2>&1 | grep -E "^(VIOLATED|UNDECIDED|CHECKER|C[0-9]+ tier)" | cut -c1-${W:-330}); done
git -C /repo checkout -- . ; git -C /repo clean -fdq -- '*.go'
rm -rf $sv
