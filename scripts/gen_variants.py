#!/usr/bin/env python3
# Design variants ("checking the checker"): small edits of the current /repo sources that break a property.
# Written as search/replace specs; the thorough tier applies them in memory (go/packages overlay).
import json, os
V=[]
def v(pid, vid, file, search, replace, expect, note, benign=False, edits=None):
    V.append(dict(id=f"{pid}-{vid}", property=pid, file=file, search=search, replace=replace, expect_rules=expect, note=note, origin="design", tests_pass_when_authored=None, benign=benign, **({"edits":edits} if edits else {})))

# ---------------- C04
v("C04","gate-dropped","session.go","""	if !c.transport.IsSecure() && !c.config.Insecure {
		err := fmt.Errorf("failed to negotiate TLS session : %s", s.err)
		return nil, NewConnError(err, true)
	}
""","""	if !c.transport.IsSecure() && !c.config.Insecure && s.err != nil {
		err := fmt.Errorf("failed to negotiate TLS session : %s", s.err)
		return nil, NewConnError(err, true)
	}
""",["O1"],"gate only fires when an error was recorded: a server that does not offer STARTTLS with a transport quirk passes")
v("C04","secure-before-verify","xmpp_transport.go","""	t.isSecure = false
	t.conn = tlsConn""","""	t.isSecure = true
	t.conn = tlsConn""",["O3"],"flag set before VerifyHostname: a wrong-host certificate leaves isSecure true")
v("C04","verify-servername","xmpp_transport.go","tlsConn.VerifyHostname(t.Config.Domain)","tlsConn.VerifyHostname(t.TLSConfig.ServerName)",["O3"],"verifies the name the application put into ServerName, not the configured domain")
v("C04","connect-keeps-flag","xmpp_transport.go","""	// A new connection is never secure until StartTLS has succeeded on it.
	t.isSecure = false
""","",["O4"],"the original defect: flag survives reconnect")
v("C04","skipverify-default","xmpp_transport.go","""		t.TLSConfig = &tls.Config{}""","""		t.TLSConfig = &tls.Config{InsecureSkipVerify: true}""",["O5"],"library disables verification when no TLS config is given")
v("C04","ws-secure-any","websocket_transport.go",'return strings.HasPrefix(t.Config.Address, "wss:")','return strings.HasPrefix(t.Config.Address, "ws")',["O6"],"ws: counted as secure")
v("C04","auth-in-starttls","session.go","""	// If we do not allow cleartext serverConnections, make it explicit that server do not support starttls
	if !o.Insecure {""","""	// If we do not allow cleartext serverConnections, make it explicit that server do not support starttls
	if o.Credential.secret != "" && o.Lang == "debug" {
		fmt.Fprintf(s.transport, "<auth>%s</auth>", o.Credential.secret)
	}
	if !o.Insecure {""",["O2"],"credential written before the gate")
v("C04","benign-rename","session.go","""	if !c.transport.IsSecure() && !c.config.Insecure {
		err := fmt.Errorf("failed to negotiate TLS session : %s", s.err)""","""	secure := c.transport.IsSecure()
	if !secure && !c.config.Insecure {
		err := fmt.Errorf("failed to negotiate TLS session : %s", s.err)""",[],"extracted local: behaviour unchanged",benign=True)

# ---------------- C09
v("C09","count-r","client.go","""			}, H: c.Session.SMState.Inbound}
			err = c.Send(answer)""","""			}, H: c.Session.SMState.Inbound}
			c.Session.SMState.Inbound++
			err = c.Send(answer)""",["O1"],"<r/> counted")
v("C09","h-plus-one","client.go","}, H: c.Session.SMState.Inbound}","}, H: c.Session.SMState.Inbound + 1}",["O3"],"reports one too many")
v("C09","default-counts","client.go","		case stanza.Message, stanza.Presence, *stanza.IQ:\n","		default:\n",["O1"],"the original defect")
v("C09","zero-on-resume","session.go","""				return false
			}
			return true""","""				return false
			}
			s.SMState.Inbound = 0
			return true""",["O2"],"counter zeroed on the resumed path")
v("C09","count-in-route","router.go","""	iq, isIq := p.(*stanza.IQ)
	if isIq {""","""	if c, ok := s.(*Client); ok && c.Session != nil {
		c.Session.SMState.Inbound++
	}
	iq, isIq := p.(*stanza.IQ)
	if isIq {""",["O2"],"counted again (concurrently) in route")

# ---------------- C11
v("C11","no-reset","session.go","""			s.err = errors.New("unexpected reply to SM resume")
		}
	}
	s.SMState = SMState{}
	return false""","""			s.err = errors.New("unexpected reply to SM resume")
		}
	}
	return false""",["R3"],"stale state kept after refusal")
v("C11","previd-nonempty","session.go",'if p.PrevId != s.SMState.Id {','if p.PrevId == "" {',["R3"],"accepts any id")
v("C11","failed-true","session.go","		case stanza.SMFailed:\n		default:","		case stanza.SMFailed:\n			return true\n		default:",["R3","R5"],"<failed/> treated as resumed")
v("C11","previd-streamid","session.go","		PrevId: s.SMState.Id,","		PrevId: s.StreamId,",["R2"],"wrong id presented")
v("C11","resume-without-id","session.go",'	if s.SMState.Id == "" {\n		return false\n	}\n','',["R1"],"resume attempted without an id")

# ---------------- C07
v("C07","split-claim","router.go","""		r.IQResultRouteLock.Lock()
		route, ok := r.IQResultRoutes[iq.Id]
		if ok {
			delete(r.IQResultRoutes, iq.Id)
		}
		r.IQResultRouteLock.Unlock()""","""		r.IQResultRouteLock.Lock()
		route, ok := r.IQResultRoutes[iq.Id]
		r.IQResultRouteLock.Unlock()
		if ok {
			r.IQResultRouteLock.Lock()
			delete(r.IQResultRoutes, iq.Id)
			r.IQResultRouteLock.Unlock()
		}""",["R1"],"claim split over two critical sections")
v("C07","unbuffered","router.go","result:  make(chan stanza.IQ, 1),","result:  make(chan stanza.IQ),",["R2"],"unbuffered again")
v("C07","close-before-send","router.go","			route.result <- *iq\n			close(route.result)","			close(route.result)\n			route.result <- *iq",["R4"],"close before send: panic")
v("C07","fallthrough","router.go","			route.result <- *iq\n			close(route.result)\n			return","			route.result <- *iq\n			close(route.result)",["R4"],"response also routed to ordinary handlers")
v("C07","send-first","client.go","""	result := c.router.NewIQResultRoute(ctx, iq.Attrs.Id)
	if err := c.Send(iq); err != nil {
		c.router.removeIQResultRoute(iq.Attrs.Id, result)
		return nil, err
	}
	return result, nil""","""	if err := c.Send(iq); err != nil {
		return nil, err
	}
	result := c.router.NewIQResultRoute(ctx, iq.Attrs.Id)
	return result, nil""",["R3"],"request written before registration")
v("C07","unguarded-cleanup","router.go","		if r.IQResultRoutes[id] == route {\n			delete(r.IQResultRoutes, id)\n		}","		delete(r.IQResultRoutes, id)",["R5"],"watcher deletes any entry")
v("C07","unlocked-register","router.go","	r.IQResultRouteLock.Lock()\n	r.IQResultRoutes[id] = route\n	r.IQResultRouteLock.Unlock()","	r.IQResultRoutes[id] = route",["R6"],"map written without the lock")

# ---------------- C12
v("C12","double-event","client.go","""			c.ErrorHandler(err)
			c.disconnected(c.Session.SMState)
			return
		}

		// Handle stream errors""","""			c.ErrorHandler(err)
			c.disconnected(c.Session.SMState)
			c.disconnected(c.Session.SMState)
			return
		}

		// Handle stream errors""",["R1"],"two events")
v("C12","no-return","client.go","""			c.ErrorHandler(err)
			c.disconnected(c.Session.SMState)
			return
		}

		// Handle stream errors""","""			c.ErrorHandler(err)
			c.disconnected(c.Session.SMState)
			continue
		}

		// Handle stream errors""",["R1"],"loop keeps reading after an error: events repeat")
v("C12","no-defer","client.go","	defer close(keepaliveQuit)\n","",["R2"],"quit never closed")
v("C12","ignore-quit","client.go","		case <-quit:\n			ticker.Stop()\n			return","		case <-quit:\n			ticker.Stop()\n			quit = nil",["R3"],"keepalive ignores quit")
v("C12","empty-state","client.go","""			c.ErrorHandler(err)
			c.disconnected(c.Session.SMState)
			return
		}

		// Handle stream errors""","""			c.ErrorHandler(err)
			c.disconnected(SMState{})
			return
		}

		// Handle stream errors""",["R1"],"event does not carry the SM state")
v("C12","new-goroutine","client.go","""			c.ErrorHandler(err)
			c.disconnected(c.Session.SMState)
			return
		}

		// Handle stream errors""","""			go c.ErrorHandler(err)
			c.disconnected(c.Session.SMState)
			return
		}

		// Handle stream errors""",["R1","R4"],"callback from a new goroutine")

# ---------------- C13
v("C13","resume-no-recv","client.go","""	// Start the keepalive go routine
	keepaliveQuit := make(chan struct{})
	go keepalive(c.transport, c.config.KeepaliveInterval, keepaliveQuit)
	// Start the receiver go routine
	go c.recv(keepaliveQuit)
	return err
}

// Disconnect""","""	if c.PostResumeHook != nil {
		// Start the keepalive go routine
		keepaliveQuit := make(chan struct{})
		go keepalive(c.transport, c.config.KeepaliveInterval, keepaliveQuit)
		// Start the receiver go routine
		go c.recv(keepaliveQuit)
	}
	return err
}

// Disconnect""",["R1"],"recv only started when a hook is set")
v("C13","dial-permanent","xmpp_transport.go","""		// A refused or timed out connection is not a permanent error: the server may be back later.
		return "", NewConnError(err, false)""","""		return "", NewConnError(err, true)""",["R3"],"the original defect")
v("C13","sasl-transient","auth.go","""		err := errors.New("auth failure: " + v.Any.Local)
		return NewConnError(err, true)""","""		err := errors.New("auth failure: " + v.Any.Local)
		return NewConnError(err, false)""",["R3"],"rejected credentials retried forever")
v("C13","break-any-error","stream_manager.go","""				if actualErr.Permanent {
					return xerrors.Errorf("unrecoverable connect error %#v", actualErr)
				}""","""				return xerrors.Errorf("unrecoverable connect error %#v", actualErr)""",["R5"],"gives up on any ConnError")
v("C13","postconnect-in-loop","stream_manager.go","			backoff.wait()\n		} else {","			backoff.wait()\n			if sm.PostConnect != nil {\n				sm.PostConnect(sm.client)\n			}\n		} else {",["R5"],"PostConnect per attempt")
v("C13","no-backoff","stream_manager.go","			backoff.wait()\n","			_ = backoff\n",["R5"],"hammering reconnect")
v("C13","permanent-resumes","stream_manager.go","		case StatePermanentError:\n			// Do not attempt to reconnect","		case StatePermanentError:\n			return sm.resume()",["R4"],"reconnects after a permanent error")
v("C13","drain-event","client.go","					c.CurrentState.setState(StateDisconnected)\n","					c.disconnected(state)\n",["R7"],"the original defect: event from the drain goroutine")
v("C13","stop-order","stream_manager.go","	sm.client.SetHandler(nil)\n	sm.client.Disconnect()\n	sm.wg.Done()","	sm.client.Disconnect()\n	sm.client.SetHandler(nil)\n	sm.wg.Done()",["R6"],"disconnect before removing the handler: Stop triggers a reconnect")

# ---------------- C18
v("C18","fixed-ticker","client.go","	ticker := time.NewTicker(interval)","	ticker := time.NewTicker(30 * time.Second)",["R1"],"interval ignored")
v("C18","ignore-ping-error","client.go","""			if err := transport.Ping(); err != nil {
				// When keepalive fails, we force close the transport. In all cases, the recv will also fail.
				ticker.Stop()
				_ = transport.Close()
				return
			}""","""			_ = transport.Ping()""",["R2"],"dead connection never closed")
v("C18","two-newlines","xmpp_transport.go",'n, err := t.conn.Write([]byte("\\n"))','n, err := t.conn.Write([]byte("\\n\\n"))',["R4"],"payload changed (and n != 1 now always an error)")
v("C18","no-close","client.go","				ticker.Stop()\n				_ = transport.Close()\n				return","				ticker.Stop()\n				return",["R2"],"failed ping does not close")
v("C18","short-write-ok","xmpp_transport.go","	if n != 1 {\n		return errors.New(\"could not write ping\")\n	}\n","	if n < 0 {\n		return errors.New(\"could not write ping\")\n	}\n",["R4"],"short write ignored")

# ---------------- C05
v("C05","continue-after-r","client.go","""			if err != nil {
				c.ErrorHandler(err)
				c.disconnected(c.Session.SMState)
				return
			}
		case stanza.StreamClosePacket:""","""			if err != nil {
				c.ErrorHandler(err)
				c.disconnected(c.Session.SMState)
				return
			}
			continue
		case stanza.StreamClosePacket:""",["R3"],"<r/> no longer routed (benign for stanzas) — but detects loss of routing for a non-stanza")
v("C05","presence-return","client.go","		case stanza.Message, stanza.Presence, *stanza.IQ:\n","		case stanza.Presence:\n			if c.Session == nil {\n				return\n			}\n			c.Session.SMState.Inbound++\n		case stanza.Message, *stanza.IQ:\n",["R1"],"a presence can end the loop")
v("C05","route-in-case","client.go","""			c.Session.SMState.Inbound++
		}
		// Do normal route processing in a go-routine so we can immediately
		// start receiving other stanzas. This also allows route handlers to
		// send and receive more stanzas.
		go c.router.route(c, val)""","""			c.Session.SMState.Inbound++
			go c.router.route(c, val)
		}
		// Do normal route processing in a go-routine so we can immediately
		// start receiving other stanzas. This also allows route handlers to
		// send and receive more stanzas.
		go c.router.route(c, val)""",["R1"],"stanzas routed twice")
v("C05","component-go","component.go","		c.router.route(c, val)\n	}\n}","		go c.router.route(c, val)\n	}\n}",["R1"],"component loses arrival order")
v("C05","nil-queue","router.go","""	if uaq == nil {
		// Stream management was never enabled on this session: nothing is held.
		return nil
	}
""","",["R4"],"the original defect")
v("C05","sync-route","client.go","		go c.router.route(c, val)\n	}\n}","		c.router.route(c, val)\n	}\n}",["R1"],"client routes synchronously")

# ---------------- C10
v("C10","push-after-write","client.go","""		switch packet.(type) {
		case stanza.SMRequest, stanza.SMAnswer:
			// Acknowledgement requests and answers are not stanzas: they are never held nor counted.
		default:
			toStore := stanza.UnAckedStz{Stz: string(data)}
			c.Session.SMState.UnAckQueue.Push(&toStore)
		}
	}

	return c.sendWithWriter(c.transport, data)""","""		switch packet.(type) {
		case stanza.SMRequest, stanza.SMAnswer:
			// Acknowledgement requests and answers are not stanzas: they are never held nor counted.
		default:
			err := c.sendWithWriter(c.transport, data)
			toStore := stanza.UnAckedStz{Stz: string(data)}
			c.Session.SMState.UnAckQueue.Push(&toStore)
			return err
		}
	}

	return c.sendWithWriter(c.transport, data)""",["R1"],"held after the write")
v("C10","hold-requests","client.go","		case stanza.SMRequest, stanza.SMAnswer:","		case stanza.SMAnswer:",["R2"],"<r/> held")
v("C10","resend-via-send","router.go","			err := s.SendRaw(eltStz.Stz)","			err := s.Send(stanza.Message{Body: eltStz.Stz})",["R5"],"retransmission re-marshals")
v("C10","no-final-unlock","router.go","		s.Send(stanza.SMRequest{})\n	}\n	uaq.RWMutex.Unlock()\n	return nil","		s.Send(stanza.SMRequest{})\n	}\n	return nil",["R6"],"lock leaked")
v("C10","h-plus","router.go","			lastAcked := a.H\n","			lastAcked := a.H + 1\n",["R3"],"h modified on the way")
v("C10","two-requests","router.go","		s.Send(stanza.SMRequest{})\n	}","		s.Send(stanza.SMRequest{})\n		s.Send(stanza.SMRequest{})\n	}",["R5"],"two ack requests")
v("C10","queue-reset","session.go","	// attempt resumption\n	if s.resume(c.config) {","	// attempt resumption\n	s.SMState.UnAckQueue = stanza.NewUnAckQueue()\n	if s.resume(c.config) {",["R8"],"held stanzas dropped before resumption")

# ---------------- C08
v("C08","two-writes","client.go","	_, err = writer.Write(packet)\n	return err\n}\n\n// ====","	if len(packet) > 1024 {\n		if _, err = writer.Write(packet[:1024]); err != nil {\n			return err\n		}\n		packet = packet[1024:]\n	}\n	_, err = writer.Write(packet)\n	return err\n}\n\n// ====",["R1"],"large stanzas written in two pieces: interleaving possible")
v("C08","drop-error","component.go","	if err := c.sendWithWriter(transport, data); err != nil {\n		return errors.New(\"cannot send packet \" + err.Error())\n	}\n	return nil","	c.sendWithWriter(transport, data)\n	return nil",["R3"],"write error dropped")
v("C08","log-first","stream_logger.go","[]io.Writer{sl.socket, sl.logFile}","[]io.Writer{sl.logFile, sl.socket}",["R2"],"log before socket")
v("C08","short-write-ok","stream_logger.go","		if n != len(p) {\n			err = io.ErrShortWrite\n			return\n		}\n","",["R2"],"short write accepted")
v("C08","trim","client.go","	return c.sendWithWriter(c.transport, []byte(packet))","	return c.sendWithWriter(c.transport, []byte(packet+\"\\n\"))",["R1"],"raw string altered")

# ---------------- C03
v("C03","auth-before-gate","session.go","""	if !c.transport.IsSecure() && !c.config.Insecure {
		err := fmt.Errorf("failed to negotiate TLS session : %s", s.err)
		return nil, NewConnError(err, true)
	}

	if s.TlsEnabled {
		s.reset()
	}

	// auth
	s.auth(c.config)""","""	s.auth(c.config)
	if !c.transport.IsSecure() && !c.config.Insecure {
		err := fmt.Errorf("failed to negotiate TLS session : %s", s.err)
		return nil, NewConnError(err, true)
	}

	if s.TlsEnabled {
		s.reset()
	}
""",["R1"],"auth before the gate and before the TLS restart")
v("C03","bind-no-guard","session.go","func (s *Session) bind(o *Config) {\n	if s.err != nil {\n		return\n	}\n","func (s *Session) bind(o *Config) {\n",["R2"],"bind runs after a failed step")
v("C14","auth-default-ok","auth.go","	default:\n		return errors.New(\"expected SASL success or failure, got \" + v.Name())\n	}","	default:\n	}",["O5"],"any reply counts as authenticated")
v("C03","bind-no-type","session.go","""	if iq.Type != stanza.IQTypeResult {
		s.err = errors.New("iq bind failed: server replied with an iq of type '" + string(iq.Type) + "'")
		return
	}
""","",["R3"],"the original defect")
v("C03","no-postauth-reset","session.go","""	s.reset()
	if s.err != nil {
		return s, s.err
	}

	// attempt resumption""","""	// attempt resumption""",["R1"],"no stream restart after auth")
v("C03","session-always","session.go","	if !s.Features.Session.IsOptional() {","	if s.Features.Session.IsOptional() {",["R1b"],"optional/mandatory inverted")
v("C03","established-early","client.go","""	if c.Session, err = NewSession(c, state); err != nil {""","""	c.updateState(StateSessionEstablished)
	if c.Session, err = NewSession(c, state); err != nil {""",["R4"],"announced before negotiation")
v("C03","tls-flag-stale","session.go","		// TLS has not been negotiated on the new connection yet.\n		s.TlsEnabled = false\n","",["R2"],"the original defect")
v("C03","enable-any-reply","session.go","		default:\n			s.err = errors.New(\"unexpected reply to SM enable\")\n		}","		default:\n		}",["R3"],"unexpected reply to <enable/> accepted")

# ---------------- C14
v("C14","swap","auth.go",'raw := "\\x00" + user + "\\x00" + secret','raw := "\\x00" + secret + "\\x00" + user',["O4"],"user and secret swapped")
v("C14","missing-nul","auth.go",'raw := "\\x00" + user + "\\x00" + secret','raw := "\\x00" + user + secret',["O4"],"separator missing")
v("C14","urlenc","auth.go","	enc := make([]byte, base64.StdEncoding.EncodedLen(len(raw)))\n	base64.StdEncoding.Encode(enc, []byte(raw))","	enc := make([]byte, base64.URLEncoding.EncodedLen(len(raw)))\n	base64.URLEncoding.Encode(enc, []byte(raw))",["O4"],"URL alphabet")
v("C14","first-server-mech","auth.go","""	for _, mech := range credential.mechanisms {
		if isSupportedMech(mech, f.Mechanisms.Mechanism) {
			matchingMech = mech
			break
		}
	}""","""	for _, mech := range f.Mechanisms.Mechanism {
		if isSupportedMech(mech, []string{"PLAIN", "X-OAUTH2"}) {
			matchingMech = mech
			break
		}
	}""",["O1"],"takes the server's first known mechanism whatever the credential supports")
v("C14","failure-falls-through","auth.go","""		err := errors.New("auth failure: " + v.Any.Local)
		return NewConnError(err, true)""","""		_ = v""",["O5"],"<failure/> treated as success")
v("C14","benign-encodetostring","auth.go","""	enc := make([]byte, base64.StdEncoding.EncodedLen(len(raw)))
	base64.StdEncoding.Encode(enc, []byte(raw))

	a := stanza.SASLAuth{
		Mechanism: mech,
		Value:     string(enc),
	}""","""	enc := base64.StdEncoding.EncodeToString([]byte(raw))

	a := stanza.SASLAuth{
		Mechanism: mech,
		Value:     enc,
	}""",[],"equivalent idiom",benign=True)

# ---------------- C16
v("C16","secret-first","component.go","concatStr := streamId + c.Secret","concatStr := c.Secret + streamId",["O1"],"order swapped")
v("C16","sha256","component.go","	h := sha1.New()","	h := sha256.New()",["O1"],"wrong hash",edits=[{"file":"component.go","search":'	"crypto/sha1"\n',"replace":'	"crypto/sha1"\n	"crypto/sha256"\n'},{"file":"component.go","search":"// handshake generates an authentication token","replace":"var _ = sha1.New\n\n// handshake generates an authentication token"}])
v("C16","recv-before-reply","component.go","""	// Check server response for authentication
	val, err := stanza.NextPacket(c.transport.GetDecoder())""","""	go c.recv()
	// Check server response for authentication
	val, err := stanza.NextPacket(c.transport.GetDecoder())""",["O4"],"receive loop started before the reply")
v("C16","default-ok","component.go","""	default:
		c.updateState(StatePermanentError)
		return NewConnError(errors.New("expecting handshake result, got "+v.Name()), true)""","""	default:
		c.updateState(StateSessionEstablished)
		go c.recv()
		return nil""",["O4"],"any reply accepted")
v("C16","benign-sum","component.go","""	h := sha1.New()
	h.Write([]byte(concatStr))
	hash := h.Sum(nil)

	// 3. Ensure that the hash output is in hexadecimal format, not binary or base64.
	// 4. Convert the hash output to all lowercase characters.
	encodedStr := hex.EncodeToString(hash)""","""	hash := sha1.Sum([]byte(concatStr))

	// 3. Ensure that the hash output is in hexadecimal format, not binary or base64.
	// 4. Convert the hash output to all lowercase characters.
	encodedStr := hex.EncodeToString(hash[:])""",[],"equivalent idiom",benign=True)

# ---------------- C15
v("C15","no-domain-check","stanza/jid.go","""	if !isDomainValid(jid.Domain) {
		return jid, fmt.Errorf("invalid domain in Jid '%s'", sjid)
	}
""","",["R1"],"domain not validated")
v("C15","splitn3","stanza/jid.go",'s2 := strings.SplitN(jid.Domain, "/", 2)','s2 := strings.SplitN(jid.Domain, "/", 3)',["R2"],"resource truncated at its first '/'")
v("C15","split-at-last","stanza/jid.go",'s1 := strings.SplitN(sjid, "@", 2)','s1 := strings.Split(sjid, "@")',["R2"],"'@' in the resource breaks parsing")
v("C15","full-node","stanza/jid.go",'		return j.Domain + "/" + j.Resource','		return j.Node + "/" + j.Resource',["R4"],"the original defect")
v("C15","slash-allowed","stanza/jid.go","	invalidRunes := []rune{'@', '/'}\n	return strings.IndexFunc(domain","	invalidRunes := []rune{'@'}\n	return strings.IndexFunc(domain",["R3"],"'/' accepted in a domain")
v("C15","space-allowed","stanza/jid.go","		if unicode.IsSpace(c) {\n			return true\n		}\n","		if unicode.IsSpace(c) && c == 0 {\n			return true\n		}\n",["R3"],"whitespace accepted")

# ---------------- C17
v("C17","off-by-one","stanza/stream_management.go","	uaq.Uslice = uaq.Uslice[len(r):]","	uaq.Uslice = uaq.Uslice[len(r)+1:]",["R4"],"drops one too many")
v("C17","peek-pops","stanza/stream_management.go","	r := uaq.Uslice[0]\n	return r","	r := uaq.Uslice[0]\n	uaq.Uslice = uaq.Uslice[1:]\n	return r",["R1","R2"],"peek removes")
v("C17","id-len","stanza/stream_management.go","		pushIdx = uaq.Uslice[len(uaq.Uslice)-1].Id + 1","		pushIdx = len(uaq.Uslice) + 1",["R3"],"ids repeat after a pop")
v("C17","n-lt-0","stanza/stream_management.go","	if n <= 0 {\n		return nil\n	}","	if n < 0 {\n		return nil\n	}",["R5"],"n == 0 handled wrongly")
v("C17","no-clamp","stanza/stream_management.go","	if len(uaq.Uslice) < n {\n		n = len(uaq.Uslice)\n	}\n","",["R5"],"index out of range")
v("C17","pop-unguarded","stanza/stream_management.go","	r := uaq.Peek()\n	if r != nil {\n		uaq.Uslice = uaq.Uslice[1:]\n	}\n	return r","	r := uaq.Peek()\n	uaq.Uslice = uaq.Uslice[1:]\n	return r",["R4"],"pop on empty panics")

# ---------------- C19
v("C19","no-min","backoff.go","expBackoff := math.Min(float64(b.Cap), float64(b.Base)*math.Pow(float64(b.Factor), float64(attempt)))","expBackoff := float64(b.Base) * math.Pow(float64(b.Factor), float64(attempt))",["R2"],"cap dropped")
v("C19","jitter-adds","backoff.go","		d = rand.Intn(d)","		d = rand.Intn(d) + d",["R2"],"jitter can exceed the cap")
v("C19","pow-swapped","backoff.go","math.Pow(float64(b.Factor), float64(attempt))","math.Pow(float64(attempt), float64(b.Factor))",["R2","R3"],"attempt^factor")
v("C19","field-attempt","backoff.go","math.Pow(float64(b.Factor), float64(attempt))","math.Pow(float64(b.Factor), float64(b.attempt))",["R1"],"the original defect")
v("C19","inc-first","backoff.go","	d := b.durationForAttempt(b.attempt)\n	b.attempt++\n	return d","	b.attempt++\n	d := b.durationForAttempt(b.attempt)\n	return d",["R1"],"first delay is base*factor")
v("C19","jitter-inverted","backoff.go","	if !b.NoJitter {","	if b.NoJitter {",["R2"],"NoJitter gives jitter")

# ---------------- C20
v("C20","port-5223","transport.go","""	config.Address = ensurePort(config.Address, 5222)
	return &XMPPTransport{
		Config:        config,
		openStatement: clientStreamOpen,""","""	config.Address = ensurePort(config.Address, 5223)
	return &XMPPTransport{
		Config:        config,
		openStatement: clientStreamOpen,""",["R1"],"wrong default port")
v("C20","component-ws-only","transport.go","""	if strings.HasPrefix(config.Address, "ws:") || strings.HasPrefix(config.Address, "wss:") {
		return nil, fmt.Errorf""","""	if strings.HasPrefix(config.Address, "ws:") {
		return nil, fmt.Errorf""",["R3"],"wss: accepted for components")
v("C20","no-brackets","network.go",'		return "[" + addr + "]:" + strconv.Itoa(port)','		return addr + ":" + strconv.Itoa(port)',["R2","R4"],"bare IPv6 gets host:port without brackets")
v("C20","dial-domain","xmpp_transport.go",'net.DialTimeout("tcp", t.Config.Address,','net.DialTimeout("tcp", t.Config.Domain,',["R1"],"dials the domain")
v("C20","swap-cases","network.go","	case 1:\n		// This is IPV6 with port\n		return addr","	case 2:\n		// This is IPV6 with port\n		return addr",["R4"],"case constant changed")
v("C20","copy-before-normalise","transport.go","""	config.Address = ensurePort(config.Address, 5222)
	return &XMPPTransport{
		Config:        config,
		openStatement: componentStreamOpen,
	}, nil""","""	t := &XMPPTransport{
		Config:        config,
		openStatement: componentStreamOpen,
	}
	config.Address = ensurePort(config.Address, 5222)
	return t, nil""",["R1"],"normalised address never reaches the transport")

# ---------------- C06
v("C06","continue-match","router.go","		if route.Match(p, match) {\n			return true\n		}\n	}\n	return false","		if route.Match(p, match) {\n			matched = true\n		}\n	}\n	return matched",["R1"],"last match wins",edits=[{"file":"router.go","search":"func (r *Router) Match(p stanza.Packet, match *RouteMatch) bool {\n","replace":"func (r *Router) Match(p stanza.Packet, match *RouteMatch) bool {\n	matched := false\n"}])
v("C06","any-matcher","router.go","		if matched := m.Match(p, match); !matched {\n			return false\n		}","		if matched := m.Match(p, match); matched {\n			match.Route = r\n			match.Handler = r.handler\n			return true\n		}",["R2"],"disjunction")
v("C06","drop-set","router.go","	if isIq && (iq.Type == stanza.IQTypeGet || iq.Type == stanza.IQTypeSet) {","	if isIq && (iq.Type == stanza.IQTypeGet) {",["R5"],"set requests get no reply")
v("C06","swap-only-from","stanza/iq.go","	iq.From = to\n	iq.To = from","	iq.From = to\n	_ = from",["R5"],"to not swapped")
v("C06","reply-result","router.go","	if isIq && (iq.Type == stanza.IQTypeGet || iq.Type == stanza.IQTypeSet) {","	if isIq && iq.Type != stanza.IQTypeError {",["R5"],"results answered too")
v("C06","empty-name-matches","router.go",'	if name == string(n) {\n		return true\n	}\n	return false','	if name == string(n) || name == "" {\n		return true\n	}\n	return false',["R4"],"non-stanzas match every name route")
v("C06","normal-missing","router.go",'			stanzaType = "normal"','			stanzaType = "chat"',["R4"],"untyped message treated as chat")
v("C06","handler-twice","router.go","		match.Handler.HandlePacket(s, p)\n		return","		match.Handler.HandlePacket(s, p)\n		match.Handler.HandlePacket(s, p)\n		return",["R3"],"handler invoked twice")

# ---------------- C02
v("C02","iq-double-consume","stanza/iq.go","				iq.Error = &xmppError\n				continue","				iq.Error = &xmppError",["R3"],"error child decoded, then decoded again as payload")
v("C02","leaf-no-decode","stanza/stream_management.go","	var packet SMAnswer\n	err := p.DecodeElement(&packet, &se)\n	return packet, err","	var packet SMAnswer\n	var err error\n	return packet, err",["R2"],"<a/> not consumed")
v("C02","default-nil","stanza/parser.go","""	default:
		return nil, errors.New("unexpected XMPP packet " +
			se.Name.Space + " <" + se.Name.Local + "/>")
	}
}

// decodeClient""","""	default:
		return nil, nil
	}
}

// decodeClient""",["R1"],"unknown SASL element yields (nil, nil)")
v("C02","swap-rows","stanza/parser.go","""	case "message":
		return message.decode(p, se)
	case "presence":
		return presence.decode(p, se)
	case "iq":
		return iq.decode(p, se)
	default:
		return nil, errors.New("unexpected XMPP packet " +
			se.Name.Space + " <" + se.Name.Local + "/>")
	}
}

// decodeComponent""","""	case "message":
		return presence.decode(p, se)
	case "presence":
		return message.decode(p, se)
	case "iq":
		return iq.decode(p, se)
	default:
		return nil, errors.New("unexpected XMPP packet " +
			se.Name.Space + " <" + se.Name.Local + "/>")
	}
}

// decodeComponent""",["R1"],"rows swapped")
v("C02","message-no-skip","stanza/message.go","				default:\n					// Unknown child: skip it entirely, so that its content is not mistaken for children of the message\n					err = d.Skip()\n","",["R3"],"the original defect")
v("C02","eof-nil","stanza/parser.go","""		if err == io.EOF {
			return xml.StartElement{}, errors.New("connection closed")
		}
		if err != nil {
			return xml.StartElement{}, fmt.Errorf("NextStart %s", err)
		}
		switch t := t.(type) {
		case xml.StartElement:
			return t, nil
		case xml.EndElement:""","""		if err == io.EOF {
			continue
		}
		if err != nil {
			return xml.StartElement{}, fmt.Errorf("NextStart %s", err)
		}
		switch t := t.(type) {
		case xml.StartElement:
			return t, nil
		case xml.EndElement:""",["R4"],"spins at end of stream")
v("C02","unchecked-assert","stanza/parser.go","""	// If not an end element, then must be a start
	se, ok := t.(xml.StartElement)
	if !ok {
		return nil, errors.New("unknown token ")
	}""","""	// If not an end element, then must be a start
	se := t.(xml.StartElement)""",["R5"],"panic-capable assertion on the parse path")

# ---------------- C01
v("C01","presence-no-to","stanza/presence.go",'		if attr.Name.Local == "to" {\n			pres.To = attr.Value\n		}\n','',["R4"],"to dropped on presence")
v("C01","attrs-from-tag","stanza/packet.go",'`xml:"from,attr,omitempty"`','`xml:"form,attr,omitempty"`',["R4"],"tag typo")
v("C01","version-ns","stanza/iq_version.go",'xml.Name{Space: "jabber:iq:version", Local: "query"}, Version{})','xml.Name{Space: "jabber:iq:versio", Local: "query"}, Version{})',["R1"],"registry row typo")
v("C01","body-innerxml","stanza/message.go",'`xml:"body,omitempty"`','`xml:",innerxml"`',["R7","R5"],"body written raw")
v("C01","history-swap","stanza/pres_muc.go","""			Name:  xml.Name{Local: "maxchars"},
			Value: strconv.Itoa(mc),""","""			Name:  xml.Name{Local: "maxstanzas"},
			Value: strconv.Itoa(mc),""",["R4"],"attribute names swapped in MarshalXML")
v("C01","smfailed-case","stanza/stream_management.go",'			case "host-gone":','			case "host-gon":',["R5"],"case string typo")
v("C01","lang-to-id","stanza/message.go",'		if attr.Name.Local == "lang" {\n			msg.Lang = attr.Value\n		}','		if attr.Name.Local == "lang" {\n			msg.Id = attr.Value\n		}',["R4"],"lang stored into id")
v("C01","err-text-raw","stanza/error.go","		err = e.EncodeToken(xml.CharData(x.Text))","		err = e.EncodeToken(xml.Comment(x.Text))",["R5"],"text written as a comment")


v("C05","read-len","websocket_transport.go","""		n := copy(p, data)
		t.readBuf = data[n:]
		return n, nil""","""		copy(p, data)
		return len(data), nil""",["R5"],"the original defect: n > len(p)")
v("C01","node-trimspace","stanza/node.go",'	if n.Content != "" {','	if len(n.Content) > 0 && n.Content[0] != 32 {',["R9"],"content starting with a space dropped")


v("C09","enabled-keeps-count","session.go","			s.SMState = SMState{Id: p.Id, preferredReconAddr: p.Location}","			s.SMState.Id = p.Id\n			s.SMState.preferredReconAddr = p.Location",["O2"],"counter not reset on <enabled/> (from seeded C09-1)")
v("C10","answer-pointer","client.go","			answer := stanza.SMAnswer{XMLName: xml.Name{","			answer := &stanza.SMAnswer{XMLName: xml.Name{",["R2"],"<a/> sent as a pointer, which Send does not exempt (from seeded C10-1)")
v("C12","report-and-continue","client.go","""				c.ErrorHandler(err)
				c.disconnected(c.Session.SMState)
				return
			}
		case stanza.StreamClosePacket:""","""				c.ErrorHandler(err)
			}
		case stanza.StreamClosePacket:""",["R1"],"failed answer reported, loop continues: loss reported twice (from seeded C12-1)")
v("C13","as-pointer","stream_manager.go","			var actualErr ConnError","			var actualErr *ConnError",["R5"],"xerrors.As target never matches (from seeded C13-1)")
v("C14","decode-in-place","session.go","	if s.err = s.transport.GetDecoder().Decode(&f); s.err != nil {","	f = s.Features\n	if s.err = s.transport.GetDecoder().Decode(&f); s.err != nil {",["O1"],"features decoded over the previous value: mechanisms accumulate")

os.makedirs('/verif/variants', exist_ok=True)
import glob
for f in glob.glob('/verif/variants/*/*.json'):
    if json.load(open(f)).get('origin')=='design':
        os.remove(f)
for x in V:
    d=f"/verif/variants/{x['property']}"
    os.makedirs(d, exist_ok=True)
    json.dump(x, open(f"{d}/{x['id']}.json",'w'), indent=1, ensure_ascii=False)
print(len(V),"variants written")
