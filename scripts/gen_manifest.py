#!/usr/bin/env python3
# Generates MANIFEST.json from the per-property table below (kept in one place so the manifest stays valid).
import json, sys
ENV = "GOFLAGS=-mod=mod GOPROXY=off GOSUMDB=off GOTOOLCHAIN=local GOWORK=off"
checks = json.load(open('/verif/scripts/checks.json'))
na = json.load(open('/verif/scripts/not_applicable.json'))
claimed = {c["property_id"] for c in checks}
listed = {n["property_id"] for n in na}
for l in open('/verif/properties.jsonl'):
    pid = json.loads(l)["id"]
    if pid not in claimed and pid not in listed:
        na.append({"property_id": pid, "reason": "check not built yet in this round (planned in DESIGN.md section 3); nothing is claimed for it"})
m = {
 "version": 1,
 "setup_cmd": f"cd /verif/checker && {ENV} go build -o /verif/bin/xcheck .",
 "hooks": {
  "guard": "verif",
  "enable": "none needed: the checks are static analyses of /repo's source; no instrumentation is compiled into the repository",
  "baseline_off_cmd": "/verif/scripts/baseline.sh /repo",
  "source_commits": [],
  "add_only": True
 },
 "engines": [
  {"name": "xcheck", "path": "/verif/checker", "serves_properties": [c["property_id"] for c in checks],
   "kind_free_text": "repository-specific static analyser over go/packages + go/ssa (x/tools v0.29.0): CFG path queries with edge deletion (gates), dynamic-type refinement of type switches, field access inventories, lock regions, codec tables from struct tags and hand-written (Un)MarshalXML, expression normal forms, module-local call graph"}
 ],
 "checks": [],
 "not_applicable": na,
 "notes": "Static analysis only: every check type-checks /repo's current working tree and decides from syntax, types and SSA; nothing in /repo is executed. Exit 0 = all obligations discharged (known findings aside), 1 = VIOLATION (violated or undecided obligation), 2 = checker could not do its job. Known findings: /verif/known_findings.jsonl. Seeded variants (checking the checker, thorough tier): /verif/variants/<id>/*.json; independently written breaking changes: /verif/seeded/<id>/ (80 in four rounds; all but the one that became benign after a repair fire under the rules of their own property); independently written behaviour-preserving refactorings: /verif/benign/<id>/ (241; the thorough tier requires silence on all but the 21 stated in benign/KNOWN_LIMITS.json, see DESIGN.md 7.3)."
}
for c in checks:
    pid = c["property_id"]
    m["checks"].append({
        "property_id": pid,
        "quick_cmd": f"./bin/xcheck -prop {pid} -tier quick",
        "thorough_cmd": f"./bin/xcheck -prop {pid} -tier thorough",
        "evidence_file": f"/verif/evidence/{pid}.json",
        "replay_cmd_template": "./bin/xcheck -explain {path}",
        "engine": "xcheck",
        "level_claimed": {"category": c["level"], "text": c["text"], "design_ref": c.get("design_ref", "DESIGN.md section 3, "+pid)},
        "level_note": c["note"],
        "technique": c["technique"],
    })
json.dump(m, open('/verif/MANIFEST.json', 'w'), indent=1)
print("wrote MANIFEST.json with", len(checks), "checks,", len(na), "not_applicable")
