// mutgen writes single-edit mutants of one Go source file (development tool for testing the checks; not a check).
//
//	mutgen <file.go> <outdir>
//
// Each mutant is the whole file with one syntactic edit; outdir/index.tsv lists id, line, operator, description.
package main

import (
	"bytes"
	"fmt"
	"go/ast"
	"go/parser"
	"go/printer"
	"go/token"
	"os"
	"path/filepath"
	"strconv"
	"strings"
)

type mutation struct {
	line int
	op   string
	desc string
	do   func() (undo func())
}

func main() {
	if len(os.Args) != 3 {
		fmt.Fprintln(os.Stderr, "usage: mutgen file.go outdir")
		os.Exit(2)
	}
	path, out := os.Args[1], os.Args[2]
	fset := token.NewFileSet()
	f, err := parser.ParseFile(fset, path, nil, parser.ParseComments)
	if err != nil {
		panic(err)
	}
	os.MkdirAll(out, 0o755)
	var muts []mutation
	src := func(n ast.Node) string {
		var b bytes.Buffer
		printer.Fprint(&b, fset, n)
		s := strings.Join(strings.Fields(b.String()), " ")
		if len(s) > 70 {
			s = s[:70] + "…"
		}
		return s
	}
	line := func(n ast.Node) int { return fset.Position(n.Pos()).Line }
	swap := map[token.Token]token.Token{token.EQL: token.NEQ, token.NEQ: token.EQL, token.LSS: token.LEQ, token.LEQ: token.LSS, token.GTR: token.GEQ, token.GEQ: token.GTR, token.LAND: token.LOR, token.LOR: token.LAND}
	// statement lists, for deletions
	var visitList func(list *[]ast.Stmt)
	visitList = func(list *[]ast.Stmt) {
		for i := range *list {
			i := i
			st := (*list)[i]
			deletable := false
			switch s := st.(type) {
			case *ast.ExprStmt:
				deletable = true
			case *ast.IncDecStmt:
				deletable = true
			case *ast.AssignStmt:
				deletable = s.Tok != token.DEFINE
			case *ast.DeferStmt, *ast.GoStmt:
				deletable = true
			case *ast.BranchStmt:
				if s.Tok == token.BREAK || s.Tok == token.CONTINUE {
					s := s
					other := token.CONTINUE
					if s.Tok == token.CONTINUE {
						other = token.BREAK
					}
					if s.Label == nil {
						muts = append(muts, mutation{line(s), "BRANCH", s.Tok.String() + " → " + other.String(), func() func() {
							old := s.Tok
							s.Tok = other
							return func() { s.Tok = old }
						}})
					}
				}
			}
			if deletable {
				muts = append(muts, mutation{line(st), "STMT-DEL", "delete: " + src(st), func() func() {
					old := (*list)[i]
					(*list)[i] = &ast.EmptyStmt{Semicolon: old.Pos(), Implicit: false}
					return func() { (*list)[i] = old }
				}})
			}
		}
	}
	ast.Inspect(f, func(n ast.Node) bool {
		switch x := n.(type) {
		case *ast.BlockStmt:
			visitList(&x.List)
		case *ast.CaseClause:
			visitList(&x.Body)
		case *ast.CommClause:
			visitList(&x.Body)
		case *ast.IfStmt:
			x2 := x
			muts = append(muts, mutation{line(x), "COND-NEG", "if " + src(x.Cond) + " → negated", func() func() {
				old := x2.Cond
				x2.Cond = &ast.UnaryExpr{Op: token.NOT, X: &ast.ParenExpr{X: old}}
				return func() { x2.Cond = old }
			}})
			if x.Else != nil {
				muts = append(muts, mutation{line(x), "ELSE-DEL", "drop else of if " + src(x.Cond), func() func() {
					old := x2.Else
					x2.Else = nil
					return func() { x2.Else = old }
				}})
			}
		case *ast.BinaryExpr:
			if to, ok := swap[x.Op]; ok {
				x2 := x
				muts = append(muts, mutation{line(x), "BINOP", src(x) + " : " + x.Op.String() + " → " + to.String(), func() func() {
					old := x2.Op
					x2.Op = to
					return func() { x2.Op = old }
				}})
			}
		case *ast.Ident:
			if x.Name == "true" || x.Name == "false" {
				x2 := x
				to := "false"
				if x.Name == "false" {
					to = "true"
				}
				muts = append(muts, mutation{line(x), "BOOL", x.Name + " → " + to, func() func() {
					old := x2.Name
					x2.Name = to
					return func() { x2.Name = old }
				}})
			}
		case *ast.BasicLit:
			if x.Kind == token.INT {
				if v, err := strconv.Atoi(x.Value); err == nil && v >= 0 && v < 10000 {
					x2 := x
					muts = append(muts, mutation{line(x), "INT", x.Value + " → " + strconv.Itoa(v+1), func() func() {
						old := x2.Value
						x2.Value = strconv.Itoa(v + 1)
						return func() { x2.Value = old }
					}})
				}
			}
		case *ast.ReturnStmt:
			// drop an error: `return …, err` → `return …, nil`
			if n := len(x.Results); n >= 1 {
				if id, ok := x.Results[n-1].(*ast.Ident); ok && (id.Name == "err" || strings.HasSuffix(id.Name, "Err")) {
					x2 := x
					muts = append(muts, mutation{line(x), "ERR-DROP", "return …, " + id.Name + " → nil", func() func() {
						old := x2.Results[n-1]
						x2.Results[n-1] = ast.NewIdent("nil")
						return func() { x2.Results[n-1] = old }
					}})
				}
			}
		}
		return true
	})
	// optional operators (MUTGEN_EXTRA=1; appended after the others so that the ids of the default set do not move):
	// TAG — rename the element/attribute an `xml:"…"` struct tag names, or toggle its ,attr flag;
	// STR — change a string constant that is compared with == / != or listed in a case clause
	if os.Getenv("MUTGEN_EXTRA") != "" {
		ast.Inspect(f, func(n ast.Node) bool {
			switch x := n.(type) {
			case *ast.Field:
				if x.Tag == nil {
					return true
				}
				raw, err := strconv.Unquote(x.Tag.Value)
				if err != nil {
					return true
				}
				i := strings.Index(raw, `xml:"`)
				if i < 0 {
					return true
				}
				j := strings.Index(raw[i+5:], `"`)
				if j < 0 {
					return true
				}
				val := raw[i+5 : i+5+j]
				parts := strings.Split(val, ",")
				name := parts[0]
				set := func(nv string) func() func() {
					return func() func() {
						old := x.Tag.Value
						x.Tag.Value = "`" + raw[:i+5] + nv + raw[i+5+j:] + "`"
						return func() { x.Tag.Value = old }
					}
				}
				if name != "" && name != "-" {
					nv := strings.Join(append([]string{name + "x"}, parts[1:]...), ",")
					muts = append(muts, mutation{line(x), "TAG", "xml:\"" + val + "\" → \"" + nv + "\"", set(nv)})
				}
				hasAttr := false
				var rest []string
				for _, p := range parts[1:] {
					if p == "attr" {
						hasAttr = true
					} else {
						rest = append(rest, p)
					}
				}
				if hasAttr {
					nv := strings.Join(append([]string{name}, rest...), ",")
					muts = append(muts, mutation{line(x), "TAG", "xml:\"" + val + "\" → \"" + nv + "\" (attribute becomes element)", set(nv)})
				}
			case *ast.BinaryExpr:
				if x.Op == token.EQL || x.Op == token.NEQ {
					for _, e := range []ast.Expr{x.X, x.Y} {
						if bl, ok := e.(*ast.BasicLit); ok && bl.Kind == token.STRING && len(bl.Value) > 2 {
							bl2 := bl
							muts = append(muts, mutation{line(bl), "STR", bl.Value + " → altered", func() func() {
								old := bl2.Value
								bl2.Value = old[:len(old)-1] + "x" + old[len(old)-1:]
								return func() { bl2.Value = old }
							}})
						}
					}
				}
			case *ast.CaseClause:
				for _, e := range x.List {
					if bl, ok := e.(*ast.BasicLit); ok && bl.Kind == token.STRING && len(bl.Value) > 2 {
						bl2 := bl
						muts = append(muts, mutation{line(bl), "STR", "case " + bl.Value + " → altered", func() func() {
							old := bl2.Value
							bl2.Value = old[:len(old)-1] + "x" + old[len(old)-1:]
							return func() { bl2.Value = old }
						}})
					}
				}
			}
			return true
		})
	}
	idx, _ := os.Create(filepath.Join(out, "index.tsv"))
	defer idx.Close()
	base := strings.TrimSuffix(filepath.Base(path), ".go")
	for i, m := range muts {
		undo := m.do()
		var b bytes.Buffer
		if err := printer.Fprint(&b, fset, f); err != nil {
			undo()
			continue
		}
		undo()
		id := fmt.Sprintf("%s-%04d", base, i)
		os.WriteFile(filepath.Join(out, id+".go.mut"), b.Bytes(), 0o644)
		fmt.Fprintf(idx, "%s\t%d\t%s\t%s\n", id, m.line, m.op, m.desc)
	}
	fmt.Printf("%d mutants of %s\n", len(muts), path)
}
