package main

// C14 — SASL: only an advertised, supported mechanism is used; PLAIN payload is exact.

import (
	"fmt"
	"go/token"
	"sort"
	"strings"

	"golang.org/x/tools/go/ssa"
)

func init() {
	register(&propDef{
		id: "C14", level: "proof", run: runC14,
		trusted: []string{"encoding/base64.StdEncoding.Encode/EncodeToString implement RFC 4648 base64 of exactly the given bytes", "[]byte(s) and string(b) are exact", "encoding/xml writes SASLAuth.Mechanism as the mechanism attribute and the innerxml Value verbatim (base64 alphabet needs no escaping)"},
		explain: "Payload construction, mechanism choice and reply handling are straight-line pure code over trusted library calls, so the whole statement reduces to obligations decided for all inputs at once: (O1) the mechanism named is, on every path, an element of the credential's list reached only through the true edge of isSupportedMech(elem, advertised list), and isSupportedMech returns true only from a string equality with an element of that list; (O2) the constants of the dispatch switch equal the credential constructors' constants; (O3) without a match nothing is written and a permanent ConnError is returned; (O4) the bytes handed to base64.StdEncoding have the normal form [\"\\x00\", user, \"\\x00\", secret] with user = Config.parsedJid.Node and secret = Credential.secret, the element carries that encoding and the chosen mechanism, and exactly one write of the marshalled element occurs; (O5) nil is returned only through the ok-edge of the SASLSuccess assertion, <failure/> gives a permanent ConnError, anything else a non-nil error.",
	})
}

func runC14(w *World, r *Report, tier string) {
	wireRule(w, r, "W1", "<auth mechanism=…>payload</auth>", wireSASLAuth)
	r.Rule("O1", "choice: authPlain's mech argument is a range element of credential.mechanisms selected only through the true edge of isSupportedMech(elem, f.Mechanisms.Mechanism); isSupportedMech returns true only from equality with an element of its list")
	r.Rule("O2", "capability table: the case constants leading to authPlain are exactly the mechanism constants of Password and OAuthToken")
	r.Rule("O3", "no match ⇒ nothing sent: paths of authSASL that do not call authPlain perform no write and return NewConnError(_, true)")
	r.Rule("O4", "payload: base64.StdEncoding over the bytes of \"\\x00\"+user+\"\\x00\"+secret; SASLAuth{Mechanism: mech, Value: that}; one write of the marshalled element; at the call sites user is Config.parsedJid.Node and secret is Credential.secret")
	r.Rule("O5", "reply: a nil return of authPlain is dominated by the ok-edge of typeassert SASLSuccess; SASLFailure returns NewConnError(_, true); every other path returns a non-nil error")

	sasl := w.Func("xmpp.authSASL")
	plain := w.Func("xmpp.authPlain")
	supp := w.FuncOpt("xmpp.isSupportedMech") // may have been inlined: the choice is then judged by the equality test itself
	r.Anchor("xmpp.authSASL")
	r.Anchor("xmpp.authPlain")

	calls := w.callsInH(sasl, "xmpp.authPlain")
	if len(calls) != 1 {
		r.Undecided("O1", "xmpp.authSASL→authPlain", w.pos(sasl.Pos()), fmt.Sprintf("expected one call of authPlain, found %d", len(calls)))
		return
	}
	ap := calls[0].(*ssa.Call)
	isAP := func(in ssa.Instruction) bool { return in == ssa.Instruction(ap) }

	// O1 / O2 (path-based; helpers are walked through)
	credP := sasl.Params[4]
	featP := sasl.Params[2]
	isCredMechs := func(nfv string) bool {
		return strings.HasSuffix(nfv, ".mechanisms") && (strings.Contains(nfv, "param:"+credP.Name()) || strings.Contains(nfv, "alloc:"+credP.Name()))
	}
	isAdvertised := func(nfv string) bool {
		if strings.HasSuffix(nfv, ".Mechanisms.Mechanism") && (strings.Contains(nfv, "param:"+featP.Name()) || strings.Contains(nfv, "alloc:"+featP.Name())) {
			return true
		}
		// the list itself is passed in: every caller must pass the session's advertised mechanisms
		for _, p := range sasl.Params {
			if nfv != "param:"+p.Name() {
				continue
			}
			idx := -1
			for i, q := range sasl.Params {
				if q == p {
					idx = i
				}
			}
			sites := w.callSitesOf(sasl)
			if len(sites) == 0 {
				return false
			}
			for _, cs := range sites {
				if idx >= len(cs.Call.Args) || !strings.HasSuffix(w.nf(cs.Call.Args[idx], 0), "Features.Mechanisms.Mechanism") {
					return false
				}
			}
			return true
		}
		return false
	}
	switchConsts := map[string]bool{}
	badProv, badDisp := "", ""
	nReach := 0
	// (the way out of the selection loop after an iteration that found nothing is a path too: a loop variable that
	// doubles as the result would carry the last, unsupported, mechanism out of the loop)
	walkLoopExits = true
	errW := walkPaths(entryLoc(sasl), isAP, nil, 50000, func(path []ssa.Instruction, end pathEnd) {
		if end == endCycle || !isAP(path[len(path)-1]) {
			return
		}
		nReach++
		idx := len(path) - 1
		mech := rvI(ap.Call.Args[2], idx)
		mech = valueOnPath(mech, path)
		if s, isS := stringConst(mech); isS {
			badProv = fmt.Sprintf("authPlain can be reached with the constant mechanism %q, chosen without consulting the server's list", s)
			return
		}
		u, ok := mech.(*ssa.UnOp)
		var ia *ssa.IndexAddr
		if ok {
			ia, _ = u.X.(*ssa.IndexAddr)
		}
		if ia == nil || !isCredMechs(w.nfOn(ia.X, path)) {
			badProv = "the mechanism chosen is not an element of the credential's mechanism list: " + w.nfOn(mech, path)
			return
		}
		supported := pathAsserts(path, func(c ssa.Value, truth bool) bool {
			call, _ := callResult(c)
			if call == nil || !truth || w.callKey(call) != "xmpp.isSupportedMech" {
				return false
			}
			a0 := resolveOn(call.Call.Args[0], curEdgeIdx, path)
			return a0 == mech && isAdvertised(w.nfOn(call.Call.Args[1], path))
		})
		if !supported {
			// the membership test written out: mech == advertised[j] on this path
			supported = pathAsserts(path, func(c ssa.Value, truth bool) bool {
				bo, isB := c.(*ssa.BinOp)
				if !isB || (bo.Op != token.EQL && bo.Op != token.NEQ) || (bo.Op == token.EQL) != truth {
					return false
				}
				for _, pr := range [][2]ssa.Value{{bo.X, bo.Y}, {bo.Y, bo.X}} {
					if !sameValue(resolveOn(pr[0], curEdgeIdx, path), mech) {
						continue
					}
					if u, ok := pr[1].(*ssa.UnOp); ok {
						if ia2, ok := u.X.(*ssa.IndexAddr); ok && isAdvertised(w.nfOn(ia2.X, path)) {
							return true
						}
					}
				}
				return false
			})
		}
		if !supported {
			badProv = "a credential mechanism can be chosen without having been found equal to an element of the advertised list (isSupportedMech(mechanism, advertised) or the comparison itself)"
		}
		// dispatch: the path asserts mech == one constant
		got := ""
		pathEdges(path, func(b *ssa.BasicBlock, succ int) {
			c, truth, ok := edgeAssertion(b, succ)
			if !ok {
				return
			}
			bo, isB := c.(*ssa.BinOp)
			if !isB || (bo.Op != token.EQL && bo.Op != token.NEQ) {
				return
			}
			if (bo.Op == token.EQL) != truth {
				return
			}
			x, y := resolveOn(bo.X, curEdgeIdx, path), resolveOn(bo.Y, curEdgeIdx, path)
			if s, isS := stringConst(y); isS && x == mech {
				got = s
			} else if s, isS := stringConst(x); isS && y == mech {
				got = s
			}
		})
		// dispatch through a constant table: the path asserts that mech is one of its keys
		viaTable := false
		pathEdges(path, func(b *ssa.BasicBlock, succ int) {
			c, truth, ok := edgeAssertion(b, succ)
			if !ok || !truth {
				return
			}
			if ex, isEx := c.(*ssa.Extract); isEx && ex.Index == 1 {
				if t, lk := w.tableLookup(ex.Tuple); t != nil && resolveOn(lk.Index, curEdgeIdx, path) == mech {
					viaTable = true
					for _, e := range t {
						switchConsts[e.Key] = true
					}
				}
			}
		})
		if got == "" && !viaTable {
			badDisp = "authPlain is reachable without the chosen mechanism being equal to one of the dispatch constants (e.g. with an unknown mechanism)"
		} else if got != "" {
			switchConsts[got] = true
		}
	})
	walkLoopExits = false
	if errW != nil {
		r.Undecided("O1", "xmpp.authSASL→authPlain#mech", w.ipos(ap), errW.Error())
	} else {
		r.Check(badProv == "" && nReach > 0, "O1", "xmpp.authSASL→authPlain#mech", w.ipos(ap), badProv, fmt.Sprintf("%d path(s): mech ∈ credential.mechanisms, selected on the true edge of isSupportedMech(mech, f.Mechanisms.Mechanism)", nReach))
		r.Check(badDisp == "" && nReach > 0, "O2", "xmpp.authSASL#dispatch", w.ipos(ap), badDisp, fmt.Sprintf("reachable only through mech == %v", keys(switchConsts)))
	}
	// isSupportedMech
	if supp != nil {
		eq := edgesAsserting(supp, func(cv ssa.Value, truth bool) bool {
			bo, ok := cv.(*ssa.BinOp)
			if !ok || bo.Op != token.EQL && bo.Op != token.NEQ {
				return false
			}
			isP0 := func(v ssa.Value) bool { return origin(v) == ssa.Value(supp.Params[0]) }
			isElem := func(v ssa.Value) bool {
				u, ok := v.(*ssa.UnOp)
				if !ok {
					return false
				}
				ia, ok := u.X.(*ssa.IndexAddr)
				return ok && origin(ia.X) == ssa.Value(supp.Params[1])
			}
			if !((isP0(bo.X) && isElem(bo.Y)) || (isP0(bo.Y) && isElem(bo.X))) {
				return false
			}
			return (bo.Op == token.EQL) == truth
		})
		retTrue := func(in ssa.Instruction) bool {
			ret, ok := in.(*ssa.Return)
			if !ok || in.Parent() != supp {
				return false
			}
			b, isC := boolConst(ret.Results[0])
			return !isC || b
		}
		r.Check(len(eq) > 0 && !reachable(entryLoc(supp), retTrue, nil, eq), "O1", "xmpp.isSupportedMech", w.pos(supp.Pos()), "isSupportedMech can return true without the mechanism being equal to an element of the list", "returns true only from mech == list[i]")
		okT := false
		for e := range eq {
			if !reachable(Loc{e.From.Succs[e.Succ], 0}, func(in ssa.Instruction) bool {
				ret, ok := in.(*ssa.Return)
				if !ok {
					return false
				}
				b, isC := boolConst(ret.Results[0])
				return isC && !b
			}, nil, nil) {
				okT = true
			}
		}
		r.Check(okT, "O1", "xmpp.isSupportedMech#complete", w.pos(supp.Pos()), "an equal element does not make isSupportedMech return true", "equality edge reaches only return true")
	}

	// the advertised list is the one of the current stream: features are decoded into a fresh value and assigned as a whole
	featuresFreshPerStream(w, r, "O1")

	// O2 capability table
	credConsts := map[string]bool{}
	for _, k := range []string{"xmpp.Password", "xmpp.OAuthToken"} {
		f := w.Func(k)
		fields := map[string]ssa.Value{}
		allInstrsH(f, func(in ssa.Instruction) {
			if st, ok := in.(*ssa.Store); ok {
				if fa, ok := st.Addr.(*ssa.FieldAddr); ok {
					fields[fieldOfAddr(fa).Name()] = st.Val
				}
			}
		})
		elems := sliceLitElems(origin(fields["mechanisms"]))
		if len(elems) == 0 {
			r.Undecided("O2", k+"#mechanisms", w.pos(f.Pos()), "the credential's mechanism list is not a literal")
			continue
		}
		var ms []string
		for _, e := range elems {
			s, ok := stringConst(e)
			if !ok {
				r.Undecided("O2", k+"#mechanisms", w.pos(f.Pos()), "non-constant mechanism name")
				continue
			}
			credConsts[s] = true
			ms = append(ms, s)
		}
		want := map[string]string{"xmpp.Password": "PLAIN", "xmpp.OAuthToken": "X-OAUTH2"}[k]
		r.Check(len(ms) == 1 && ms[0] == want, "O2", k+"#mechanisms", w.pos(f.Pos()), fmt.Sprintf("credential kind supports %v, the statement demands %s", ms, want), "mechanisms = ["+want+"]")
		r.Check(isParamOf(fields["secret"], f), "O2", k+"#secret", w.pos(f.Pos()), "the credential's secret is not the value given by the application", "secret = parameter")
	}
	r.Check(fmt.Sprint(keys(switchConsts)) == fmt.Sprint(keys(credConsts)), "O2", "xmpp.authSASL#table-agreement", w.ipos(ap), fmt.Sprintf("dispatch constants %v differ from the credential constructors' constants %v", keys(switchConsts), keys(credConsts)), fmt.Sprintf("%v on both sides", keys(switchConsts)))

	// O3
	{
		bad := ""
		n := 0
		isWrite := w.isCallTo(sendWriteKeys...)
		walkPaths(entryLoc(sasl), isAP, nil, 50000, func(path []ssa.Instruction, end pathEnd) {
			last := path[len(path)-1]
			if isAP(last) || end == endCycle {
				return
			}
			ret, ok := last.(*ssa.Return)
			if !ok {
				bad = "a no-match path does not return"
				return
			}
			n++
			if countOn(path, isWrite) > 0 {
				bad = "something is written although no common mechanism exists"
			}
			okPerm := false
			if mi, ok := rvI(rres(path, ret)[0], len(path)-1).(*ssa.MakeInterface); ok {
				if c, ok := mi.X.(*ssa.Call); ok && w.callKey(c) == "xmpp.NewConnError" {
					if b, isC := boolConst(c.Call.Args[1]); isC && b {
						okPerm = true
					}
				}
			}
			if !okPerm {
				bad = "without a common mechanism the result is not a permanent ConnError"
			}
		})
		r.Check(bad == "" && n > 0, "O3", "xmpp.authSASL#no-match", w.pos(sasl.Pos()), bad, fmt.Sprintf("%d no-match path(s): no write, NewConnError(_, true)", n))
		// what authSASL returns after calling authPlain is authPlain's result
		okRet := true
		nAfter := 0
		walkPaths(after(ap), nil, nil, 2000, func(path []ssa.Instruction, end pathEnd) {
			if ret, ok := path[len(path)-1].(*ssa.Return); ok && ret.Parent() == sasl {
				nAfter++
				if rvI(rres(path, ret)[0], len(path)-1) != ssa.Value(ap) {
					okRet = false
				}
			}
		})
		r.Check(okRet && nAfter > 0, "O3", "xmpp.authSASL#result", w.ipos(ap), "the result of authPlain is not what authSASL returns", "returns authPlain(...)")
	}

	// O4 payload (helpers resolved through origin: an extracted helper has one call site)
	{
		marsh := w.callsInH(plain, "encoding/xml.Marshal")
		if len(marsh) != 1 {
			r.Undecided("O4", "xmpp.authPlain#element", w.pos(plain.Pos()), fmt.Sprintf("expected one xml.Marshal, found %d", len(marsh)))
		} else {
			mc := marsh[0].(*ssa.Call)
			arg := origin(mc.Call.Args[0])
			if mi, ok := arg.(*ssa.MakeInterface); ok {
				arg = origin(mi.X)
			}
			fields, al := complitFields(arg)
			if len(plain.Params) < 5 {
				r.Undecided("O4", "xmpp.authPlain#element", w.ipos(mc), "authPlain no longer takes (socket, decoder, mech, user, secret): the payload rule identifies the mechanism, the user and the secret by these parameters")
			} else if al == nil || !strings.HasSuffix(w.typeStr(al.Type()), "stanza.SASLAuth") {
				r.Undecided("O4", "xmpp.authPlain#element", w.ipos(mc), "the marshalled value is not a SASLAuth literal")
			} else {
				r.Check(origin(fields["Mechanism"]) == ssa.Value(plain.Params[2]), "O4", "xmpp.authPlain#mechanism", w.ipos(al), "the element does not name the chosen mechanism", "Mechanism = mech parameter")
				enc, src, why := encodedBy(w, plain, fields["Value"])
				if src == nil {
					r.Undecided("O4", "xmpp.authPlain#encoding", w.ipos(al), why)
				} else {
					r.Check(enc == "base64.StdEncoding", "O4", "xmpp.authPlain#encoding", w.ipos(al), "the payload is encoded with "+enc+", not base64.StdEncoding", "base64.StdEncoding")
					rawAtoms, isConv := byteAtoms(src)
					if !isConv {
						r.Undecided("O4", "xmpp.authPlain#payload", w.ipos(al), "the encoded bytes are neither []byte(string expression) nor a buffer built by appends from empty")
					} else {
						as := mergeConstAtoms(rawAtoms)
						ok := len(as) == 4 && as[0].IsC && as[0].Const == "\x00" && origin(as[1].Val) == ssa.Value(plain.Params[3]) && as[2].IsC && as[2].Const == "\x00" && origin(as[3].Val) == ssa.Value(plain.Params[4])
						r.Check(ok, "O4", "xmpp.authPlain#payload", w.ipos(al), "the authentication payload is "+atomsString(w, as)+`, not ["\x00", user, "\x00", secret]`, `["\x00", user, "\x00", secret]`)
					}
				}
			}
			// exactly one write of the marshalled bytes, on the socket parameter
			nW := 0
			okW := true
			allInstrsH(plain, func(in ssa.Instruction) {
				c := asCall(in)
				if c == nil || !w.isCallTo(sendWriteKeys...)(in) {
					return
				}
				nW++
				a := origin(c.Common().Args[len(c.Common().Args)-1])
				ex, isEx := a.(*ssa.Extract)
				if !isEx || ex.Tuple != ssa.Value(mc) || ex.Index != 0 {
					// the bytes may travel through a variable assigned in one function literal and read in another:
					// what is written, on every path that reaches the write
					nP, okP := 0, true
					isThis := func(x ssa.Instruction) bool { return x == in }
					err := walkPaths(entryLoc(plain), isThis, nil, 20000, func(path []ssa.Instruction, end pathEnd) {
						if !isThis(path[len(path)-1]) {
							return
						}
						nP++
						ra := resolveOn(c.Common().Args[len(c.Common().Args)-1], len(path)-1, path)
						if ex2, ok := ra.(*ssa.Extract); !ok || ex2.Tuple != ssa.Value(mc) || ex2.Index != 0 {
							okP = false
						}
					})
					if err != nil || nP == 0 || !okP {
						okW = false
					}
				}
				if !c.Common().IsInvoke() || origin(c.Common().Value) != ssa.Value(plain.Params[0]) {
					okW = false
				}
			})
			r.Check(nW == 1 && okW, "O4", "xmpp.authPlain#write", w.pos(plain.Pos()), fmt.Sprintf("%d write(s); the marshalled <auth/> must be written exactly once on the socket", nW), "one socket.Write(marshalled element)")
		}
		// call sites
		r.Check(origin(ap.Call.Args[3]) == ssa.Value(sasl.Params[3]) && strings.HasSuffix(w.nf(ap.Call.Args[4], 0), ".secret") && isCredSecret(w, ap.Call.Args[4], sasl), "O4", "xmpp.authSASL→authPlain#args", w.ipos(ap), "authPlain is not given (user, credential.secret)", "authPlain(…, user, credential.secret)")
		auth := w.Func("xmpp.(*Session).auth")
		sc := w.callsInH(auth, "xmpp.authSASL")
		if len(sc) != 1 {
			r.Undecided("O4", "xmpp.(*Session).auth→authSASL", w.pos(auth.Pos()), "expected one authSASL call")
		} else {
			a := sc[0].Common().Args
			f2, f3, f4 := fieldNames(fieldPath(origin(a[2]))), fieldNames(fieldPath(origin(a[3]))), fieldNames(fieldPath(origin(a[4])))
			r.Check(f3 == "parsedJid.Node" && f4 == "Credential" && (f2 == "Features" || f2 == "Features.Mechanisms.Mechanism"), "O4", "xmpp.(*Session).auth→authSASL#args", w.ipos(sc[0]), "authSASL is not given (session features, local part of the configured JID, configured credential): "+f2+", "+f3+", "+f4, "authSASL(…, s.Features, o.parsedJid.Node, o.Credential)")
		}
	}

	// O5 reply (path-based from the entry of authPlain, helpers walked through)
	{
		nps := w.callsInH(plain, "stanza.NextPacket")
		if len(nps) != 1 {
			r.Undecided("O5", "xmpp.authPlain#reply", w.pos(plain.Pos()), fmt.Sprintf("expected one NextPacket, found %d", len(nps)))
			return
		}
		np := nps[0].(*ssa.Call)
		var pkt, perr ssa.Value
		for _, rf := range *np.Referrers() {
			if ex, ok := rf.(*ssa.Extract); ok {
				if ex.Index == 0 {
					pkt = ex
				} else {
					perr = ex
				}
			}
		}
		isNP := func(in ssa.Instruction) bool { return in == ssa.Instruction(np) }
		isWr := w.isCallTo(sendWriteKeys...)
		bad := ""
		nNil, nFail, nOther := 0, 0, 0
		walkPaths(entryLoc(plain), nil, nil, 50000, func(path []ssa.Instruction, end pathEnd) {
			ret, ok := path[len(path)-1].(*ssa.Return)
			if !ok || ret.Parent() != plain {
				if !ok {
					bad = "a path of authPlain does not return"
				}
				return
			}
			iNP := indexOn(path, isNP)
			if iNP < 0 {
				// left before the reply was read (marshal or write failure): this can only be an error return
				res0 := rres(path, ret)[0]
				if _, isCall := res0.(*ssa.Call); !isCall {
					if _, isMI := res0.(*ssa.MakeInterface); !isMI {
						if isNilConst(res0) || !pathAsserts(path, func(c ssa.Value, truth bool) bool { return assertsNonNil(c, truth, res0) }) {
							bad = "authentication can be reported successful (nil) before any reply has been read (return at " + w.ipos(ret) + ")"
						}
					}
				}
				return
			}
			if iW := indexOn(path, isWr); iW < 0 || iW > iNP {
				bad = "the reply is read before <auth/> has been written"
			}
			res := rvI(rres(path, ret)[0], len(path)-1)
			mayBeNil := isNilConst(res) || pathAsserts(path, func(c ssa.Value, truth bool) bool { return assertsNil(c, truth, res) })
			typed := func(name string) bool {
				return pathAsserts(path, func(c ssa.Value, truth bool) bool {
					T, ok := typeAssertOK(c, nil)
					if !ok || !truth || w.typeStr(T) != name {
						return false
					}
					ex := c.(*ssa.Extract)
					ta := ex.Tuple.(*ssa.TypeAssert)
					return rvAny(ta.X) == pkt || ta.X == pkt || (curEdgeIdx >= 0 && resolveOn(ta.X, curEdgeIdx, path) == pkt)
				})
			}
			isSucc, isFail := typed("stanza.SASLSuccess"), typed("stanza.SASLFailure")
			readOK := perr != nil && pathAsserts(path, func(c ssa.Value, truth bool) bool { return assertsNil(c, truth, perr) })
			switch {
			case mayBeNil:
				nNil++
				if !isSucc || !readOK {
					bad = "authentication can be reported successful (nil) without the reply being <success/> (return at " + w.ipos(ret) + ")"
				}
			case isFail:
				nFail++
				okPerm := false
				if mi, ok := res.(*ssa.MakeInterface); ok {
					if c, ok := mi.X.(*ssa.Call); ok && w.callKey(c) == "xmpp.NewConnError" {
						if b, isC := boolConst(c.Call.Args[1]); isC && b {
							okPerm = true
						}
					}
				}
				if !okPerm {
					bad = "<failure/> does not produce a permanent ConnError"
				}
			default:
				nOther++
				if _, isCall := res.(*ssa.Call); !isCall && !pathAsserts(path, func(c ssa.Value, truth bool) bool { return assertsNonNil(c, truth, res) }) {
					if _, isMI := res.(*ssa.MakeInterface); !isMI {
						bad = "a reply other than <success/> may return a nil error (return at " + w.ipos(ret) + ")"
					}
				}
			}
			if isSucc && !mayBeNil {
				bad = "<success/> is not reported as success"
			}
		})
		r.Check(bad == "" && nNil > 0 && nFail > 0 && nOther > 0, "O5", "xmpp.authPlain#reply", w.ipos(np), bad+fmt.Sprintf(" (nil paths %d, failure paths %d, other %d)", nNil, nFail, nOther), fmt.Sprintf("%d nil path(s) all through SASLSuccess; %d <failure/> path(s) permanent; %d other path(s) non-nil; write before read", nNil, nFail, nOther))
	}
}

// isCredSecret: v is the secret field of authSASL's credential parameter.
func isCredSecret(w *World, v ssa.Value, sasl *ssa.Function) bool {
	nfv := w.nf(v, 0)
	p := sasl.Params[4].Name()
	return strings.Contains(nfv, "param:"+p) || strings.Contains(nfv, "alloc:"+p)
}

func keys(m map[string]bool) []string {
	var out []string
	for k := range m {
		out = append(out, k)
	}
	sort.Strings(out)
	return out
}

// freshDecodeTarget: the value Decode/DecodeElement fills is a local that nothing stores into.
func freshDecodeTarget(c ssa.CallInstruction) bool {
	args := c.Common().Args
	if len(args) < 2 {
		return false
	}
	tgt := args[1]
	return freshTarget(tgt, 0)
}

// freshTarget: v is the address of a local nothing has stored into — possibly handed down through helper parameters, in which
// case every caller must hand down such a local.
func freshTarget(tgt ssa.Value, depth int) bool {
	if mi, ok := tgt.(*ssa.MakeInterface); ok {
		tgt = mi.X
	}
	if p, ok := tgt.(*ssa.Parameter); ok && depth < 3 && theWorld != nil {
		sites := theWorld.callSitesOf(p.Parent())
		idx := -1
		for i, q := range p.Parent().Params {
			if q == p {
				idx = i
			}
		}
		if len(sites) == 0 || idx < 0 {
			return false
		}
		for _, c := range sites {
			a := c.Common().Args
			if c.Common().IsInvoke() || idx >= len(a) || !freshTarget(a[idx], depth+1) {
				return false
			}
		}
		return true
	}
	al, ok := tgt.(*ssa.Alloc)
	if !ok {
		return false
	}
	var dirty func(v ssa.Value) bool
	dirty = func(v ssa.Value) bool {
		for _, r := range *v.Referrers() {
			switch x := r.(type) {
			case *ssa.Store:
				if x.Addr == v {
					return true
				}
			case *ssa.FieldAddr:
				if dirty(x) {
					return true
				}
			}
		}
		return false
	}
	return !dirty(al)
}

// featuresFreshPerStream: Session.Features is replaced as a whole, after the stream open and after every restart, by a value decoded
// into a fresh local; the negotiation's replies are decoded into fresh locals too (shared by C14.O1 and C03.R7).
func featuresFreshPerStream(w *World, r *Report, rule string) {
	fFeat := w.Field("xmpp.Session.Features")
	nStores := 0
	for _, a := range w.fieldAccesses(fFeat, w.LibFuncs()) {
		if a.Kind != "store" {
			continue
		}
		nStores++
		okSrc := w.isResultOf(origin(a.Val), 0, "xmpp.Session.extractStreamFeatures")
		r.Check(okSrc, rule, w.funcKey(a.Fn)+"#store:Features", w.ipos(a.Instr), "the session's stream features are assigned from something other than a freshly decoded value", "Features = extractStreamFeatures()")
	}
	if nStores < 2 {
		r.Fail(rule, "xmpp.Session.Features#assignments", "-", fmt.Sprintf("the session's stream features are assigned as a whole %d time(s); they must be replaced after the stream open and after every stream restart — decoding into the existing value makes encoding/xml append to the mechanism list, so mechanisms advertised on an earlier stream (before STARTTLS, or on a previous connection) still count as advertised", nStores))
	}
	for _, k := range []string{"xmpp.(*Session).extractStreamFeatures", "xmpp.(*Session).bind", "xmpp.(*Session).rfc3921Session", "xmpp.(*Session).startTlsIfSupported"} {
		fn := w.Func(k)
		for _, c := range w.callsInH(fn, "encoding/xml.Decoder.Decode", "encoding/xml.Decoder.DecodeElement") {
			r.Check(freshDecodeTarget(c), rule, k+"#decode-target", w.ipos(c), "a reply is decoded into a value that is not a fresh zero value: encoding/xml does not clear its target and appends to slices, so state of an earlier stream leaks into this one", "decodes into a fresh local")
		}
	}
}
