package main

// E6 — codec tables: registry rows, the attribute/child tables that struct tags
// imply, and the tables a hand-written UnmarshalXML / MarshalXML implements.

import (
	"fmt"
	"go/token"
	"go/types"
	"sort"
	"strings"

	"golang.org/x/tools/go/ssa"
)

type regRow struct {
	Kind         string // PKTIQ | PKTMessage | PKTPresence
	Space, Local string
	T            types.Type
	Pos          string
	Call         ssa.CallInstruction
}

func (w *World) registryRows() ([]regRow, []string) {
	var rows []regRow
	var problems []string
	kinds := map[int64]string{}
	for _, n := range []string{"PKTPresence", "PKTMessage", "PKTIQ"} {
		v, _ := intConstOf(w.Pkgs["stanza"].Types.Scope().Lookup(n))
		kinds[v] = n
	}
	for _, fn := range w.LibFuncs() {
		for _, c := range w.callsInH(fn, "stanza.registry.MapExtension") {
			args := c.Common().Args
			k, isC := intConst(args[1])
			if !isC {
				problems = append(problems, w.ipos(c)+": non-constant packet kind")
				continue
			}
			fields, _ := complitFields(args[2])
			sp, ok1 := stringConst(fields["Space"])
			lo, ok2 := stringConst(fields["Local"])
			if fields == nil || !ok1 || !ok2 {
				problems = append(problems, w.ipos(c)+": registered name is not a literal with constant Space and Local")
				continue
			}
			mi, isMI := args[3].(*ssa.MakeInterface)
			if !isMI {
				problems = append(problems, w.ipos(c)+": registered extension value is not a concrete literal")
				continue
			}
			rows = append(rows, regRow{kinds[k], sp, lo, mi.X.Type(), w.ipos(c), c})
		}
	}
	sort.Slice(rows, func(i, j int) bool {
		a, b := rows[i], rows[j]
		return a.Kind+a.Space+a.Local+a.Pos < b.Kind+b.Space+b.Local+b.Pos
	})
	return rows, problems
}

// decodeTables of a hand-written UnmarshalXML.
type decodeTables struct {
	Attrs       map[string][]string // attribute local name -> receiver field paths stored under its guard
	Children    map[string][]string // child local name -> "field:<path>" / "type:<T>→field:<path>" decoded under its guard
	Default     []string            // what an unlisted child is decoded into
	HasAttrLoop bool
}

func (w *World) decodeTablesOf(fn *ssa.Function) decodeTables {
	dt := decodeTables{Attrs: map[string][]string{}, Children: map[string][]string{}}
	_ = fn.Params[0]
	recvPath := func(addr ssa.Value) (string, bool) { return w.recvPathIn(fn, addr) }
	// receiver-rooted stores reachable from a location until the enclosing loop's header / next Token
	storesFrom := func(start Loc, stop func(ssa.Instruction) bool) []string {
		set := map[string]bool{}
		walkPathsP(start, stop, phiFeasible, 5000, func(path []ssa.Instruction, end pathEnd) {
			for _, in := range path {
				st, ok := in.(*ssa.Store)
				if !ok {
					continue
				}
				if p, ok := recvPath(st.Addr); ok {
					set[p] = true
				}
			}
		})
		var out []string
		for k := range set {
			out = append(out, k)
		}
		sort.Strings(out)
		return out
	}
	// attribute loop: range over start.Attr
	type ownedLoop struct {
		lp rangeLoop
		g  *ssa.Function
	}
	var attrLoops []ownedLoop
	for _, g := range withHelpers(fn) {
		for _, lp := range findRangeLoops(g) {
			attrLoops = append(attrLoops, ownedLoop{lp, g})
		}
	}
	for _, ol := range attrLoops {
		lp, g := ol.lp, ol.g
		if lp.slice == nil || !strings.HasSuffix(fieldNames(fieldPath(originIn(fn, lp.slice))), "Attr") {
			continue
		}
		dt.HasAttrLoop = true
		isHeader := func(in ssa.Instruction) bool { return in == lp.header.Instrs[0] }
		for _, b := range g.Blocks {
			for si := range b.Succs {
				c, truth, isIf := edgeAssertion(b, si)
				if !isIf || !truth {
					continue
				}
				bo, ok := c.(*ssa.BinOp)
				if !ok || bo.Op != token.EQL {
					continue
				}
				s, isS := stringConst(bo.Y)
				if !isS || !strings.HasSuffix(fieldNames(fieldPath(bo.X)), "Name.Local") {
					continue
				}
				// rooted at the ranged attribute
				if !isRangeElemRoot(rootOf(bo.X), lp) {
					continue
				}
				dt.Attrs[s] = append(dt.Attrs[s], storesFrom(Loc{b.Succs[si], 0}, func(in ssa.Instruction) bool {
					// stop at the next attribute-name comparison or the loop header
					if isHeader(in) {
						return true
					}
					if iff, ok := in.(*ssa.If); ok {
						if bo2, ok := iff.Cond.(*ssa.BinOp); ok && bo2 != bo {
							if _, isS := stringConst(bo2.Y); isS && strings.HasSuffix(fieldNames(fieldPath(bo2.X)), "Name.Local") {
								return true
							}
						}
					}
					return false
				})...)
			}
		}
	}
	// children: comparisons of tt.Name.Local with constants, tt a start element taken from Token
	toks := w.callsInH(fn, "encoding/xml.Decoder.Token")
	if len(toks) == 1 {
		tok := toks[0].(ssa.Instruction)
		isTok := func(in ssa.Instruction) bool { return in == tok }
		decodedFrom := func(start Loc) []string {
			set := map[string]bool{}
			walkPathsP(start, func(in ssa.Instruction) bool {
				if isTok(in) {
					return true
				}
				return false
			}, phiFeasible, 5000, func(path []ssa.Instruction, end pathEnd) {
				for _, in := range path {
					if st, ok := in.(*ssa.Store); ok {
						if p, ok := recvPath(st.Addr); ok {
							set["field:"+p] = true
						}
					}
					c, ok := in.(*ssa.Call)
					if !ok || w.callKey(c) != "encoding/xml.Decoder.DecodeElement" {
						continue
					}
					tgt := c.Call.Args[1]
					if mi, ok := tgt.(*ssa.MakeInterface); ok {
						tgt = mi.X
					}
					if ci, ok := tgt.(*ssa.ChangeInterface); ok {
						tgt = valueOnPath(ci.X, path)
						if mi, ok := tgt.(*ssa.MakeInterface); ok {
							tgt = mi.X
						}
					}
					desc := ""
					if p, ok := recvPath(tgt); ok {
						desc = "field:" + p
					} else if al, ok := tgt.(*ssa.Alloc); ok {
						desc = "type:" + strings.TrimPrefix(w.typeStr(al.Type()), "*")
						// where is it stored?
						var into []string
						for _, in2 := range path {
							if st, ok := in2.(*ssa.Store); ok {
								sp, isRecv := recvPath(st.Addr)
								if !isRecv {
									continue
								}
								v := st.Val
								if mi, ok := v.(*ssa.MakeInterface); ok {
									v = mi.X
								}
								if v == ssa.Value(al) {
									into = append(into, sp)
								} else if u, ok := v.(*ssa.UnOp); ok && u.X == ssa.Value(al) {
									into = append(into, sp)
								} else if cl, ok := v.(*ssa.Call); ok && w.callKey(cl) == "builtin.append" {
									for _, e := range sliceLitElems(cl.Call.Args[1]) {
										if mi, ok := e.(*ssa.MakeInterface); ok {
											e = mi.X
										}
										if e == ssa.Value(al) {
											into = append(into, sp+"[]")
										}
									}
								}
							}
						}
						sort.Strings(into)
						desc += "→" + strings.Join(into, ",")
					} else {
						desc = "expr:" + w.nf(tgt, 0)
					}
					set[desc] = true
				}
			})
			var out []string
			for k := range set {
				out = append(out, k)
			}
			sort.Strings(out)
			return out
		}
		for _, g := range withHelpers(fn) {
			for _, b := range g.Blocks {
				for si := range b.Succs {
					c, truth, isIf := edgeAssertion(b, si)
					if !isIf || !truth {
						continue
					}
					bo, ok := c.(*ssa.BinOp)
					if !ok || bo.Op != token.EQL {
						continue
					}
					s, isS := stringConst(bo.Y)
					if !isS || !strings.HasSuffix(fieldNames(fieldPath(bo.X)), "Name.Local") {
						continue
					}
					if !isStartElemRootIn(fn, rootOf(bo.X)) {
						continue
					}
					dt.Children[s] = append(dt.Children[s], decodedFrom(Loc{b.Succs[si], 0})...)
				}
			}
		}
	}
	return dt
}

// encodeTables implied by the struct tags of T (encoding/xml semantics, one level, embedded structs flattened).
type encodeTables struct {
	Attrs    map[string]string // attr local -> field path
	Children map[string]string // child element local -> field path (elements encoding/xml writes from tags)
	Special  map[string]string // field path -> flag (innerxml, chardata, cdata, any, comment, iface)
}

func (w *World) encodeTablesOf(t types.Type) encodeTables {
	et := encodeTables{Attrs: map[string]string{}, Children: map[string]string{}, Special: map[string]string{}}
	var walk func(t types.Type, prefix string, depth int)
	walk = func(t types.Type, prefix string, depth int) {
		if depth > 3 {
			return
		}
		for _, ti := range structTags(t) {
			f := ti.Field
			if ti.Skip || f.Name() == "XMLName" {
				continue
			}
			if !f.Exported() && !ti.Embedded {
				continue
			}
			path := prefix + f.Name()
			ft := f.Type()
			if ti.Embedded && !ti.HasTag {
				bt := ft
				if p, ok := bt.(*types.Pointer); ok {
					bt = p.Elem()
				}
				if _, isStruct := bt.Underlying().(*types.Struct); isStruct {
					walk(bt, path+".", depth+1)
					continue
				}
				if _, isIface := bt.Underlying().(*types.Interface); isIface {
					et.Special[path] = "embedded-interface"
					continue
				}
			}
			switch {
			case ti.Attr:
				n := ti.Name
				if n == "" {
					n = f.Name()
				}
				et.Attrs[n] = path
			case ti.InnerXML:
				et.Special[path] = "innerxml"
			case ti.CharData:
				et.Special[path] = "chardata"
			case ti.CData:
				et.Special[path] = "cdata"
			case ti.Comment:
				et.Special[path] = "comment"
			case ti.Any:
				et.Special[path] = "any"
			default:
				n := ti.Name
				if n == "" {
					// element name from the field's type XMLName tag, else field name
					el := ft
					if sl, ok := el.Underlying().(*types.Slice); ok {
						el = sl.Elem()
					}
					if _, lo, has := xmlNameTag(el); has {
						n = lo
					} else {
						n = f.Name()
					}
				}
				if _, isIface := ft.Underlying().(*types.Interface); isIface {
					et.Special[path] = "interface"
				} else if sl, ok := ft.Underlying().(*types.Slice); ok {
					if _, isIface := sl.Elem().Underlying().(*types.Interface); isIface {
						et.Special[path] = "interface-slice"
					}
				}
				et.Children[n] = path
			}
		}
	}
	walk(t, "", 0)
	return et
}

// marshalAttrs: attribute names a hand-written MarshalXML puts into xml.Attr literals, with the nf of the value.
func (w *World) marshalAttrs(fn *ssa.Function) map[string]string {
	out := map[string]string{}
	allInstrs(fn, func(in ssa.Instruction) {
		al, ok := in.(*ssa.Alloc)
		if !ok || !strings.HasSuffix(al.Type().String(), "encoding/xml.Attr") {
			return
		}
		fields, _ := complitFields(al)
		if fields == nil {
			return
		}
		name := ""
		if nf, _ := complitFields(fields["Name"]); nf != nil {
			name, _ = stringConst(nf["Local"])
		}
		if name == "" {
			// Name built in place
			for _, r := range *al.Referrers() {
				if fa, ok := r.(*ssa.FieldAddr); ok && fieldOfAddr(fa).Name() == "Name" {
					for _, r2 := range *fa.Referrers() {
						if fa2, ok := r2.(*ssa.FieldAddr); ok && fieldOfAddr(fa2).Name() == "Local" {
							for _, r3 := range *fa2.Referrers() {
								if st, ok := r3.(*ssa.Store); ok {
									name, _ = stringConst(st.Val)
								}
							}
						}
					}
				}
			}
		}
		if name != "" {
			out[name] = w.nf(fields["Value"], 0)
		}
	})
	return out
}

func fmtSet(m map[string]string) string {
	var ks []string
	for k, v := range m {
		ks = append(ks, k+"→"+v)
	}
	sort.Strings(ks)
	return strings.Join(ks, ", ")
}

var _ = fmt.Sprint

// isRangeElemRoot: v is &slice[idx] of the loop, or the local the ranged element is copied into.
func isRangeElemRoot(v ssa.Value, lp rangeLoop) bool {
	if ia, ok := v.(*ssa.IndexAddr); ok {
		return ia.Index == lp.idx
	}
	if al, ok := v.(*ssa.Alloc); ok {
		for _, r := range *al.Referrers() {
			if st, ok := r.(*ssa.Store); ok && st.Addr == ssa.Value(al) {
				if u, ok := st.Val.(*ssa.UnOp); ok {
					if ia, ok := u.X.(*ssa.IndexAddr); ok && ia.Index == lp.idx {
						return true
					}
				}
			}
		}
	}
	return false
}

// isStartElemRoot: v is the local holding a start element taken from a token.
func isStartElemRoot(v ssa.Value) bool {
	al, ok := v.(*ssa.Alloc)
	if !ok {
		return false
	}
	for _, r := range *al.Referrers() {
		if st, ok := r.(*ssa.Store); ok && st.Addr == ssa.Value(al) {
			if ex, ok := st.Val.(*ssa.Extract); ok {
				if ta, ok := ex.Tuple.(*ssa.TypeAssert); ok && isStartElementType(ta.AssertedType) {
					return true
				}
			}
		}
	}
	return false
}

// isStartElemRootIn: like isStartElemRoot, also for the local into which a helper of scope spills a start-element
// parameter that scope passes it.
func isStartElemRootIn(scope *ssa.Function, v ssa.Value) bool {
	if isStartElemRoot(v) {
		return true
	}
	al, ok := v.(*ssa.Alloc)
	if !ok {
		return false
	}
	for _, r := range *al.Referrers() {
		st, ok := r.(*ssa.Store)
		if !ok || st.Addr != ssa.Value(al) {
			continue
		}
		p, isP := st.Val.(*ssa.Parameter)
		if !isP || !isStartElementType(p.Type()) {
			continue
		}
		o := originIn(scope, p)
		if o == ssa.Value(p) {
			continue
		}
		// the argument: a load of the caller's start-element local, or the asserted value itself
		if u, ok := o.(*ssa.UnOp); ok && isStartElemRoot(u.X) {
			return true
		}
		if ex, ok := o.(*ssa.Extract); ok {
			if ta, ok := ex.Tuple.(*ssa.TypeAssert); ok && isStartElementType(ta.AssertedType) {
				return true
			}
		}
	}
	return false
}

// recvPathIn: the field path of an address relative to the receiver of fn — directly, or through the parameter of a
// helper that fn hands (part of) its receiver to.
func (w *World) recvPathIn(fn *ssa.Function, addr ssa.Value) (string, bool) {
	recv := fn.Params[0]
	prefix := ""
	for i := 0; i < 4; i++ {
		root := rootOf(addr)
		local := fieldNames(fieldPath(addr))
		if prefix != "" && local != "" {
			local = local + "." + prefix
		} else if local == "" {
			local = prefix
		}
		if root == ssa.Value(recv) {
			return local, local != ""
		}
		p, isP := root.(*ssa.Parameter)
		if !isP || p.Parent() == fn {
			return "", false
		}
		o := originIn(fn, p)
		if o == ssa.Value(p) {
			return "", false
		}
		addr, prefix = o, local
	}
	return "", false
}
