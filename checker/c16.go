package main

// C16 — component handshake digest is exact; success requires the server's handshake.

import (
	"fmt"
	"go/token"
	"strings"

	"golang.org/x/tools/go/ssa"
)

func init() {
	register(&propDef{
		id: "C16", level: "proof", run: runC16,
		trusted: []string{"crypto/sha1 computes SHA-1 of the bytes written; hash.Hash.Sum(nil) returns the digest of everything written", "encoding/hex.EncodeToString produces lower-case hexadecimal", "encoding/xml decodes the id attribute of the stream header to its unescaped value"},
		explain: "The digest, its input and the reply handling are straight-line code over trusted library calls, decided for every stream id, secret and server reply: (O1) handshake() returns hex.EncodeToString(sha1(streamId ++ Secret)) — normal form of the hashed string is [parameter streamId, field Secret]; (O2) the stream id handed to it is the first result of transport.Connect(), which is InitStream's result: the value of the header's id attribute; (O3) exactly one write of \"<handshake>\" ++ digest ++ \"</handshake>\" (the hex alphabet cannot inject markup); (O4) the established state is announced and the receive loop started only through the ok-edge of the Handshake assertion, every other exit returns a non-nil ConnError after announcing a non-established state.",
	})
}

func runC16(w *World, r *Report, tier string) {
	wireRule(w, r, "W1", "<handshake>digest</handshake>", wireHandshake)
	r.Rule("O1", "digest: Component.handshake returns hex.EncodeToString(SHA-1(streamId ++ c.Secret))")
	r.Rule("O2", "provenance: the stream id is the first result of c.transport.Connect(); StartStream returns InitStream's id, which is the value of the id attribute")
	r.Rule("O3", "wire form: exactly one write of \"<handshake>\" ++ digest ++ \"</handshake>\" before the reply is read")
	r.Rule("O4", "reply: updateState(StateSessionEstablished) and `go recv()` are reachable only through the ok-edge of typeassert stanza.Handshake; every other exit returns a non-nil ConnError and announces a non-established state")

	hs := w.Func("xmpp.(*Component).handshake")
	res := w.Func("xmpp.(*Component).Resume")
	r.Anchor("xmpp.(*Component).handshake")
	r.Anchor("xmpp.(*Component).Resume")

	// ---- O1
	var rets []*ssa.Return
	allInstrs(hs, func(in ssa.Instruction) {
		if rt, ok := in.(*ssa.Return); ok {
			rets = append(rets, rt)
		}
	})
	if len(rets) != 1 {
		r.Undecided("O1", "xmpp.(*Component).handshake", w.pos(hs.Pos()), "more than one return")
	} else {
		enc, src, why := encodedBy(w, hs, rets[0].Results[0])
		if src == nil {
			r.Undecided("O1", "xmpp.(*Component).handshake#encoding", w.ipos(rets[0]), why)
		} else {
			r.Check(enc == "hex", "O1", "xmpp.(*Component).handshake#encoding", w.ipos(rets[0]), "the digest is encoded with "+enc+", not lower-case hexadecimal", "hex.EncodeToString")
			hashed, alg, why2 := hashInput(w, hs, src)
			if hashed == nil {
				r.Undecided("O1", "xmpp.(*Component).handshake#hash", w.ipos(rets[0]), why2)
			} else {
				r.Check(alg == "crypto/sha1", "O1", "xmpp.(*Component).handshake#hash", w.ipos(rets[0]), "the digest algorithm is "+alg+", not SHA-1", "crypto/sha1")
				s, isConv := bytesOfString(hashed)
				if !isConv {
					r.Undecided("O1", "xmpp.(*Component).handshake#input", w.ipos(rets[0]), "hashed bytes are not []byte(string)")
				} else {
					as := mergeConstAtoms(strAtoms(s))
					ok := len(as) == 2 && as[0].Val == ssa.Value(hs.Params[1]) && !as[1].IsC && strings.HasSuffix(fieldNames(fieldPath(as[1].Val)), "Secret")
					r.Check(ok, "O1", "xmpp.(*Component).handshake#input", w.ipos(rets[0]), "the hashed text is "+atomsString(w, as)+", not [streamId, Secret]", atomsString(w, as))
				}
			}
		}
	}

	// ---- O2
	hcalls := w.callsInH(res, "xmpp.Component.handshake")
	if len(hcalls) != 1 {
		r.Undecided("O2", "xmpp.(*Component).Resume→handshake", w.pos(res.Pos()), "expected one handshake() call")
		return
	}
	hc := hcalls[0].(*ssa.Call)
	// on every path of Resume that reaches the digest, its argument is the first result of transport.Connect()
	okID, nID := true, 0
	isHC := func(in ssa.Instruction) bool { return in == ssa.Instruction(hc) }
	if err := walkPaths(entryLoc(res), isHC, nil, 50000, func(path []ssa.Instruction, end pathEnd) {
		if !isHC(path[len(path)-1]) {
			return
		}
		nID++
		one := false
		if ex, ok := resolveOn(hc.Call.Args[1], len(path)-1, path).(*ssa.Extract); ok && ex.Index == 0 {
			if c, ok := ex.Tuple.(*ssa.Call); ok && w.callKey(c) == "xmpp.Transport.Connect" {
				one = true
			}
		}
		if !one {
			okID = false
		}
	}); err != nil || nID == 0 {
		okID = false
	}
	r.Check(okID, "O2", "xmpp.(*Component).Resume→handshake#stream-id", w.ipos(hc), "the digest is not computed over the stream id returned by transport.Connect()", "handshake(first result of c.transport.Connect())")
	// XMPPTransport.Connect returns StartStream(); StartStream returns InitStream's id on the nil-error path
	conn := w.Func("xmpp.(*XMPPTransport).Connect")
	ss := w.Func("xmpp.(*XMPPTransport).StartStream")
	okChain := false
	allInstrs(conn, func(in ssa.Instruction) {
		if rt, ok := in.(*ssa.Return); ok && isNilOrCallErr(rt) {
			if ex, ok := rt.Results[0].(*ssa.Extract); ok && ex.Index == 0 {
				if c, ok := ex.Tuple.(*ssa.Call); ok && w.callKey(c) == "xmpp.XMPPTransport.StartStream" {
					okChain = true
				}
			}
		}
	})
	r.Check(okChain, "O2", "xmpp.(*XMPPTransport).Connect#result", w.pos(conn.Pos()), "Connect does not return StartStream's stream id", "returns t.StartStream()")
	// on every path of StartStream that reports success, the id returned is the one InitStream extracted
	okSS, nSS := true, 0
	if err := walkPaths(entryLoc(ss), nil, nil, 20000, func(path []ssa.Instruction, end pathEnd) {
		rt, ok := path[len(path)-1].(*ssa.Return)
		if !ok || len(rt.Results) != 2 {
			return
		}
		res := rres(path, rt)
		if !isNilConst(res[1]) {
			return
		}
		nSS++
		one := false
		if ex, ok := res[0].(*ssa.Extract); ok && ex.Index == 0 {
			if c, ok := ex.Tuple.(*ssa.Call); ok && w.callKey(c) == "stanza.InitStream" {
				one = true
			}
		}
		if !one {
			okSS = false
		}
	}); err != nil || nSS == 0 {
		okSS = false
	}
	r.Check(okSS, "O2", "xmpp.(*XMPPTransport).StartStream#result", w.pos(ss.Pos()), "StartStream does not return the id InitStream extracted", "returns InitStream's id with a nil error")
	// InitStream: every non-empty value of the result is attr.Value under attr.Name.Local == "id"
	is := w.Func("stanza.InitStream")
	okIS := true
	nSrc := 0
	var visit func(v ssa.Value, seen map[ssa.Value]bool)
	visit = func(v ssa.Value, seen map[ssa.Value]bool) {
		if seen[v] {
			return
		}
		seen[v] = true
		switch x := v.(type) {
		case *ssa.Phi:
			for _, e := range x.Edges {
				visit(e, seen)
			}
		case *ssa.Const:
			if s, ok := stringConst(x); !ok || s != "" {
				okIS = false
			}
		case *ssa.UnOp:
			// load of a named result / local: follow its stores
			if al, ok := x.X.(*ssa.Alloc); ok {
				for _, rf := range *al.Referrers() {
					if st, ok := rf.(*ssa.Store); ok && st.Addr == ssa.Value(al) {
						visit(st.Val, seen)
					}
				}
				return
			}
			fp := fieldNames(fieldPath(x))
			if strings.HasSuffix(fp, "Value") {
				nSrc++
				// guarded by Name.Local == "id"
				guard := edgesAsserting(is, func(c ssa.Value, truth bool) bool {
					bo, ok := c.(*ssa.BinOp)
					if !ok || bo.Op != token.EQL || !truth {
						return false
					}
					s, isS := stringConst(bo.Y)
					return isS && s == "id" && strings.HasSuffix(fieldNames(fieldPath(bo.X)), "Name.Local")
				})
				// find the store that uses this load
				for _, rf := range *x.Referrers() {
					if st, ok := rf.(ssa.Instruction); ok {
						if len(guard) == 0 || reachable(entryLoc(is), func(in ssa.Instruction) bool { return in == st }, nil, guard) {
							if _, isStore := st.(*ssa.Store); isStore {
								okIS = false
							}
							if _, isPhi := st.(*ssa.Phi); isPhi && len(guard) == 0 {
								okIS = false
							}
						}
					}
				}
			} else {
				okIS = false
			}
		default:
			okIS = false
		}
	}
	allInstrs(is, func(in ssa.Instruction) {
		if rt, ok := in.(*ssa.Return); ok {
			visit(rt.Results[0], map[ssa.Value]bool{})
		}
	})
	r.Check(okIS && nSrc > 0, "O2", "stanza.InitStream#id", w.pos(is.Pos()), "the stream id returned is not (only) the value of the header's id attribute", "id = attr.Value under attr.Name.Local == \"id\"")

	// ---- O3
	writes := w.callsInH(res, "xmpp.Component.sendWithWriter", "xmpp.Transport.Write", "fmt.Fprintf", "io.Writer.Write", "io.WriteString")
	nps := w.callsInH(res, "stanza.NextPacket")
	if len(writes) != 1 || len(nps) != 1 {
		r.Fail("O3", "xmpp.(*Component).Resume#handshake-write", w.pos(res.Pos()), fmt.Sprintf("%d write(s) and %d reply read(s) in Resume; exactly one of each expected", len(writes), len(nps)))
		return
	}
	wc := writes[0]
	data := wc.Common().Args[len(wc.Common().Args)-1]
	s, isConv := bytesOfString(data)
	okForm := false
	form := "?"
	var as0 []atom
	if isConv {
		as0 = strAtoms(s)
	} else if ba, ok := byteAtoms(data); ok {
		// (assembled by appends into an empty buffer)
		as0, isConv = ba, true
	}
	if isConv {
		as := mergeConstAtoms(as0)
		form = atomsString(w, as)
		okForm = len(as) == 3 && as[0].IsC && as[0].Const == "<handshake>" && as[1].Val == ssa.Value(hc) && as[2].IsC && as[2].Const == "</handshake>"
	}
	r.Check(okForm, "O3", "xmpp.(*Component).Resume#handshake-write", w.ipos(wc), "what is written is "+form+", not <handshake>digest</handshake>", form)
	np := nps[0].(*ssa.Call)
	okOrder, _ := mustPass(entryLoc(res), func(in ssa.Instruction) bool { return in == ssa.Instruction(np) }, func(in ssa.Instruction) bool { return in == wc.(ssa.Instruction) }, nil)
	r.Check(okOrder, "O3", "xmpp.(*Component).Resume#write-before-read", w.ipos(np), "the reply is read before the handshake has been written", "write dominates the read")

	// ---- O4
	var pkt, perr ssa.Value
	for _, rf := range *np.Referrers() {
		if ex, ok := rf.(*ssa.Extract); ok {
			if ex.Index == 0 {
				pkt = ex
			} else {
				perr = ex
			}
		}
	}
	established, _ := intConstOf(w.Pkgs["xmpp"].Types.Scope().Lookup("StateSessionEstablished"))
	isEstablish := func(in ssa.Instruction) bool {
		c := asCall(in)
		if c == nil || w.callKey(c) != "xmpp.EventManager.updateState" {
			return false
		}
		k, ok := intConst(c.Common().Args[1])
		return !ok || k == established
	}
	isRecvStart := w.isCallTo("xmpp.Component.recv")
	okEdge := edgesAsserting(res, func(c ssa.Value, truth bool) bool {
		T, ok := typeAssertOK(c, pkt)
		return ok && truth && w.typeStr(T) == "stanza.Handshake"
	})
	r.Check(len(okEdge) > 0 && !reachable(entryLoc(res), isEstablish, nil, okEdge), "O4", "xmpp.(*Component).Resume#established", w.pos(res.Pos()), "the established state can be announced without the server having answered <handshake/>", "unreachable once the ok-edge of p.(stanza.Handshake) is deleted")
	r.Check(len(okEdge) > 0 && !reachable(entryLoc(res), isRecvStart, nil, okEdge), "O4", "xmpp.(*Component).Resume#recv-start", w.pos(res.Pos()), "the receive loop (routing of stanzas) can start without the server having answered <handshake/>", "unreachable once the ok-edge of p.(stanza.Handshake) is deleted")
	// per exit
	bad := ""
	nOK, nErr := 0, 0
	isNonEstablished := func(in ssa.Instruction) bool {
		c := asCall(in)
		if c == nil {
			return false
		}
		k := w.callKey(c)
		if k == "xmpp.EventManager.streamError" || k == "xmpp.EventManager.disconnected" {
			return true
		}
		if k == "xmpp.EventManager.updateState" {
			v, ok := intConst(c.Common().Args[1])
			return ok && v != established
		}
		return false
	}
	walkPaths(entryLoc(res), nil, nil, 20000, func(path []ssa.Instruction, end pathEnd) {
		ret, ok := path[len(path)-1].(*ssa.Return)
		if !ok {
			bad = "a path of Resume does not return"
			return
		}
		viaOK := false
		pathEdges(path, func(b *ssa.BasicBlock, succ int) {
			if okEdge[Edge{b, succ}] {
				viaOK = true
			}
		})
		val := rvI(rres(path, ret)[0], len(path)-1)
		if viaOK {
			nOK++
			readOK := perr != nil && pathAsserts(path, func(c ssa.Value, truth bool) bool { return assertsNil(c, truth, perr) })
			if !readOK {
				bad = "the handshake reply is accepted although reading it failed"
			}
			if countOn(path, isEstablish) != 1 || countOn(path, isRecvStart) != 1 {
				bad = "the success path does not announce the established state once and start one receive loop"
			}
			if !(isNilConst(val) || val == perr) {
				bad = "the success path returns an error"
			}
			return
		}
		nErr++
		okConnErr := false
		if mi, ok := val.(*ssa.MakeInterface); ok {
			if c, ok := mi.X.(*ssa.Call); ok && w.callKey(c) == "xmpp.NewConnError" {
				okConnErr = true
			}
		}
		if !okConnErr {
			bad = "an exit other than the handshake reply does not return a ConnError (return at " + w.ipos(ret) + ")"
		}
		if countOn(path, isEstablish) != 0 || countOn(path, isRecvStart) != 0 {
			bad = "a failing exit announces the established state or starts the receive loop"
		}
		if countOn(path, isNonEstablished) == 0 {
			bad = "a failing exit (return at " + w.ipos(ret) + ") announces no state: the previous state is kept"
		}
	})
	r.Check(bad == "" && nOK > 0 && nErr >= 4, "O4", "xmpp.(*Component).Resume#exits", w.pos(res.Pos()), bad+fmt.Sprintf(" (success exits %d, failing exits %d)", nOK, nErr), fmt.Sprintf("%d success exit(s) through <handshake/>; %d failing exit(s), each a ConnError after a non-established announcement", nOK, nErr))
}

func isNilOrCallErr(rt *ssa.Return) bool { return len(rt.Results) == 2 }

// hashInput: v is the digest of some bytes: h := X.New(); h.Write(b); h.Sum(nil)  or  X.Sum(b)[:].
// Returns the hashed bytes value and the hash package path.
func hashInput(w *World, fn *ssa.Function, v ssa.Value) (ssa.Value, string, string) {
	v = origin(v)
	switch x := v.(type) {
	case *ssa.Call:
		if x.Call.IsInvoke() && x.Call.Method.Name() == "Sum" {
			if a := x.Call.Args[0]; !isNilConst(a) {
				return nil, "", "Sum is called with a non-nil prefix"
			}
			h := x.Call.Value
			newCall, ok := h.(*ssa.Call)
			if !ok || !strings.HasSuffix(w.callKey(newCall), ".New") {
				return nil, "", "the hash is not created by a New() call in this function"
			}
			alg := strings.TrimSuffix(w.callKey(newCall), ".New")
			var writes []*ssa.Call
			for _, rf := range *h.Referrers() {
				if c, ok := rf.(*ssa.Call); ok && c.Call.IsInvoke() && c.Call.Value == h && c.Call.Method.Name() == "Write" {
					writes = append(writes, c)
				}
			}
			if len(writes) != 1 {
				return nil, "", fmt.Sprintf("%d Write calls on the hash; exactly one expected", len(writes))
			}
			if !reachable(after(writes[0]), func(in ssa.Instruction) bool { return in == ssa.Instruction(x) }, nil, nil) {
				return nil, "", "Sum is taken before the input is written"
			}
			return writes[0].Call.Args[0], alg, ""
		}
	case *ssa.Slice:
		// sha1.Sum(b)[:]
		if al, ok := x.X.(*ssa.Alloc); ok {
			for _, rf := range *al.Referrers() {
				if st, ok := rf.(*ssa.Store); ok && st.Addr == ssa.Value(al) {
					if c, ok := st.Val.(*ssa.Call); ok && strings.HasSuffix(w.callKey(c), ".Sum") {
						return c.Call.Args[0], strings.TrimSuffix(w.callKey(c), ".Sum"), ""
					}
				}
			}
		}
	}
	return nil, "", "not a recognised hashing idiom: " + v.String()
}
