package main

// C12 — a lost connection is reported exactly once; nothing leaks.

import (
	"fmt"
	"go/types"
	"sort"
	"strings"

	"golang.org/x/tools/go/ssa"
)

func init() {
	register(&propDef{
		id: "C12", level: "other", run: runC12,
		trusted: []string{"encoding/xml returns an error from Token/DecodeElement when the byte stream ends inside or between elements", "a closed channel is always ready in a select"},
		explain: "Decides, per exit path of Client.recv, how many error callbacks and Disconnected events are emitted (R1: exactly one of each on every exit that ends a session other than the graceful stream close, the event carrying a load of Session.SMState), that the quit channel is closed on every exit and is the one keepalive waits on (R2), that keepalive stops on quit or after a failed ping and never pings after quit (R3), and that every goroutine the library starts either is one of the session goroutines whose end R1–R3 establish or leaves each of its loops when a fallible call fails, with a terminating alternative for each blocking channel operation (R4). Not decided: that a cut at an arbitrary byte makes encoding/xml return an error (trusted); leaks caused by application handlers or contexts that are never cancelled.",
	})
}

func runC12(w *World, r *Report, tier string) {
	r.Rule("R1", "every exit of Client.recv other than the graceful stream-close exit passes exactly one ErrorHandler call and exactly one disconnected(Session.SMState) call")
	r.Rule("R2", "recv defers close(keepaliveQuit) in its entry block; at every start site keepalive and recv get the same channel")
	r.Rule("R3", "keepalive: the quit case stops the ticker and returns with no Ping reachable; a failed Ping stops the ticker, closes the transport and returns")
	r.Rule("R5", "event delivery: EventManager.disconnected/updateState/streamError record the state and, when a handler is installed, call it exactly once on every path with an Event carrying the current state (and, for disconnected, the SM state given); SetHandler installs the handler it is given")
	r.Rule("R6", "closing means closing (shared with C18.R6): every implementation of Transport.Close closes the underlying connection on every path on which there is one — on a transport whose Read only returns when the connection is closed (websocket), this is what ends the receive loop and gets the loss reported after a failed keepalive")
	r.Rule("R4", "goroutine inventory: every go statement in library code starts one of the session goroutines whose end R1–R3 establish, or a function with no loop / whose every loop passes through a fallible call and leaves when it fails; every blocking channel operation inside library goroutines has a terminating alternative (buffered channel, select with a done/timeout case)")

	fn := w.Func("xmpp.(*Client).recv")
	fEH := w.Field("xmpp.Client.ErrorHandler")
	fSessSM := w.Field("xmpp.Session.SMState")
	rl, err := analyseRecvLoop(w, fn)
	if err != nil {
		r.Undecided("R1", "xmpp.(*Client).recv#loop", w.pos(fn.Pos()), err.Error())
		return
	}
	isEH := func(in ssa.Instruction) bool { return isDynCallOfField(in, fEH) }
	isDisc := w.isCallTo("xmpp.EventManager.disconnected")
	discArgOK := func(in ssa.Instruction) bool {
		c := asCall(in)
		args := c.Common().Args
		if len(args) != 2 {
			return false
		}
		f, _ := loadedField(args[1])
		return f == fSessSM
	}

	// R1: error path of NextPacket
	checkExit := func(cons string, start Loc, filter func(*ssa.BasicBlock, int) bool, want bool, wantEHArg ssa.Value) {
		bad := ""
		n := 0
		e := walkPaths(start, rl.isNextPacket, filter, 20000, func(path []ssa.Instruction, end pathEnd) {
			last := path[len(path)-1]
			if _, isRet := last.(*ssa.Return); !isRet {
				return // continues the loop
			}
			n++
			neh, nd := countOn(path, isEH), countOn(path, isDisc)
			if !want {
				return
			}
			if neh != 1 || nd != 1 {
				bad = fmt.Sprintf("exit at %s passes %d error callback(s) and %d Disconnected event(s); exactly one of each is required", w.ipos(last), neh, nd)
				return
			}
			forPath(path, func(pi int, in ssa.Instruction) {
				// what is reported is an error this path has found to be non-nil (the failed read, the failed answer)
				if isEH(in) {
					args := asCall(in).Common().Args
					ev := resolveOn(args[len(args)-1], pi, path)
					if !pathAsserts(path, func(c ssa.Value, truth bool) bool { return assertsNonNil(c, truth, ev) }) {
						bad = "the loss is reported at " + w.ipos(in) + " with an error that was not found non-nil on this path: the report and the failure are decoupled (a successful operation ends the session, a failed one goes unnoticed)"
					}
				}
			})
			for _, in := range path {
				if isDisc(in) && !discArgOK(in) {
					bad = "the Disconnected event at " + w.ipos(in) + " does not carry the session's stream-management state"
				}
				if _, isGo := in.(*ssa.Go); isGo && (isDisc(in) || isEH(in)) {
					bad = "the loss is reported from a new goroutine at " + w.ipos(in)
				}
			}
		})
		if e != nil {
			r.Undecided("R1", cons, w.pos(fn.Pos()), e.Error())
			return
		}
		if n == 0 {
			return
		}
		r.Check(bad == "", "R1", cons, w.pos(fn.Pos()), bad, fmt.Sprintf("%d exit path(s), one error callback and one Disconnected(SMState) on each", n))
	}
	// the read-error exit must exist and return
	nErrExit := 0
	walkPaths(rl.brStart, rl.isNextPacket, rl.errOnly(nil), 20000, func(path []ssa.Instruction, end pathEnd) {
		if _, ok := path[len(path)-1].(*ssa.Return); ok {
			nErrExit++
		} else {
			r.Fail("R1", "xmpp.(*Client).recv#exit:read-error#returns", w.ipos(path[len(path)-1]), "after a read error the receive loop goes on reading instead of returning")
		}
	})
	if nErrExit == 0 {
		r.Fail("R1", "xmpp.(*Client).recv#exit:read-error", w.pos(fn.Pos()), "no exit on a read error")
	}
	checkExit("xmpp.(*Client).recv#exit:read-error", rl.brStart, rl.errOnly(nil), true, rl.err)
	for _, name := range rl.typeNames(rl.universe) {
		if name == "stanza.StreamClosePacket" {
			continue // graceful close: judged by C13.R2
		}
		checkExit("xmpp.(*Client).recv#exit:after:"+name, rl.brStart, rl.okOnly(typeEdgeFilter(rl.pkt, rl.universe[name])), true, nil)
	}
	r.Floor("R1", 2)
	// a path that goes on reading must not already have reported a loss (it would be reported again by the read error)
	for _, name := range rl.typeNames(rl.universe) {
		if name == "stanza.StreamError" {
			continue // a stream error is reported as such, then the loop waits for the close: by design
		}
		bad := ""
		n := 0
		walkPaths(rl.brStart, rl.isNextPacket, rl.okOnly(typeEdgeFilter(rl.pkt, rl.universe[name])), 20000, func(path []ssa.Instruction, end pathEnd) {
			if !rl.isNextPacket(path[len(path)-1]) {
				return
			}
			n++
			if countOn(path, isEH) > 0 || countOn(path, isDisc) > 0 {
				bad = fmt.Sprintf("after a %s the loop calls the error handler / announces a disconnection and then goes on reading: the read error that follows reports the same loss a second time", name)
			}
		})
		if n > 0 {
			r.Check(bad == "", "R1", "xmpp.(*Client).recv#continue:after:"+name, w.pos(fn.Pos()), bad, "no loss report on a path that keeps reading")
		}
	}

	// R2
	deferOK := false
	var quitParam *ssa.Parameter
	for _, in := range fn.Blocks[0].Instrs {
		if d, ok := in.(*ssa.Defer); ok && w.callKey(d) == "builtin.close" {
			if p, ok := d.Call.Args[0].(*ssa.Parameter); ok {
				deferOK = true
				quitParam = p
			}
		}
		if _, isIf := in.(*ssa.If); isIf {
			break
		}
	}
	if !deferOK {
		isClose := func(in ssa.Instruction) bool {
			c := asCall(in)
			if c == nil || w.callKey(c) != "builtin.close" {
				return false
			}
			_, isP := origin(c.Common().Args[0]).(*ssa.Parameter)
			return isP
		}
		deferOK, _ = mustPass(entryLoc(fn), isReturn, isClose, nil)
	}
	r.Check(deferOK, "R2", "xmpp.(*Client).recv#defer-close-quit", w.pos(fn.Pos()), "recv has an exit on which the keepalive's quit channel is not closed: the keepalive goroutine outlives the session", "quit channel closed on every exit (deferred close in the entry block, or an explicit close before every return)")
	_ = quitParam
	// other closes/sends on the quit channel in recv would double-close
	nClose := 0
	allInstrs(fn, func(in ssa.Instruction) {
		if c := asCall(in); c != nil && w.callKey(c) == "builtin.close" {
			nClose++
		}
	})
	// never closed twice on one path
	maxClose := 0
	walkPaths(entryLoc(fn), nil, nil, 50000, func(path []ssa.Instruction, end pathEnd) {
		n := countOn(path, func(in ssa.Instruction) bool {
			c := asCall(in)
			return c != nil && w.callKey(c) == "builtin.close"
		})
		if n > maxClose {
			maxClose = n
		}
	})
	_ = nClose
	r.Check(maxClose == 1, "R2", "xmpp.(*Client).recv#single-close", w.pos(fn.Pos()), fmt.Sprintf("up to %d close() calls on one path of recv: a second close of the quit channel panics", maxClose), "exactly one close per path")
	nSites := 0
	for _, f := range w.LibFuncs() {
		recvs := w.callsIn(f, "xmpp.Client.recv")
		kas := w.callsIn(f, "xmpp.keepalive")
		if len(recvs) == 0 && len(kas) == 0 {
			continue
		}
		nSites++
		cons := w.funcKey(f) + "#start:recv+keepalive"
		ok := len(recvs) == 1 && len(kas) == 1
		detail := fmt.Sprintf("%d recv start(s), %d keepalive start(s)", len(recvs), len(kas))
		if ok && (len(recvs[0].Common().Args) < 2 || len(kas[0].Common().Args) < 3) {
			ok, detail = false, "the receive loop is not handed the keepalive's quit channel when it is started: the channel it closes when it ends is whatever a field holds by then (after a reconnection from the Disconnected handler, the next session's)"
		}
		if ok {
			ch1 := chanOrigin(recvs[0].Common().Args[1])
			ch2 := chanOrigin(kas[0].Common().Args[2])
			_, isMk := ch1.(*ssa.MakeChan)
			if ch1 != ch2 || !isMk {
				ok = false
				detail = "keepalive and recv are not given the same freshly made channel"
			}
		}
		r.Check(ok, "R2", cons, w.pos(f.Pos()), detail, "same make(chan) passed to both")
	}
	if nSites == 0 {
		r.Undecided("R2", "start-sites", "-", "no start site of recv/keepalive found")
	}

	// R3 keepalive
	c12Keepalive(w, r, "R3")
	// R5 event delivery
	c12Events(w, r)

	// R4 goroutine inventory
	c12Goroutines(w, r)
}

func chanOrigin(v ssa.Value) ssa.Value {
	for {
		switch x := v.(type) {
		case *ssa.ChangeType:
			v = x.X
		case *ssa.Convert:
			v = x.X
		default:
			return v
		}
	}
}

// c12Keepalive: shared by C12.R3 and C18.R2/R3.
func c12Keepalive(w *World, r *Report, rule string) {
	ka := w.Func("xmpp.keepalive")
	var sel *ssa.Select
	allInstrs(ka, func(in ssa.Instruction) {
		if s, ok := in.(*ssa.Select); ok {
			sel = s
		}
	})
	if sel == nil || !sel.Blocking {
		r.Undecided(rule, "xmpp.keepalive#select", w.pos(ka.Pos()), "keepalive has no blocking select over the ticker and the quit channel")
		return
	}
	quitIdx, tickIdx := -1, -1
	for i, st := range sel.States {
		o := chanOrigin(st.Chan)
		if p, ok := o.(*ssa.Parameter); ok && p.Parent() == ka {
			quitIdx = i
		} else if f, _ := loadedField(o); f != nil && f.Name() == "C" {
			tickIdx = i
		}
	}
	if quitIdx < 0 || tickIdx < 0 || len(sel.States) != 2 {
		r.Fail(rule, "xmpp.keepalive#select-cases", w.ipos(sel), "the select does not wait on exactly the ticker and the quit parameter")
		return
	}
	var idx ssa.Value
	for _, rf := range *sel.Referrers() {
		if ex, ok := rf.(*ssa.Extract); ok && ex.Index == 0 {
			idx = ex
		}
	}
	isPing := w.isCallTo("xmpp.Transport.Ping")
	isSel := func(in ssa.Instruction) bool { return in == ssa.Instruction(sel) }
	isStop := w.isCallTo("time.Ticker.Stop")
	isClose := w.isCallTo("xmpp.Transport.Close")
	// a `defer ticker.Stop()` registered on every way to the select stops the ticker on every return
	deferredStop := false
	allInstrs(ka, func(in ssa.Instruction) {
		if d, ok := in.(*ssa.Defer); ok && isStop(d) {
			if ok2, _ := mustPass(entryLoc(ka), isSel, func(x ssa.Instruction) bool { return x == ssa.Instruction(d) }, nil); ok2 {
				deferredStop = true
			}
		}
	})
	isRunDefers := func(in ssa.Instruction) bool { _, ok := in.(*ssa.RunDefers); return ok }
	stopped := func(path []ssa.Instruction) bool {
		return countOn(path, isStop) > 0 || (deferredStop && countOn(path, isRunDefers) > 0)
	}
	// quit case
	badQ := ""
	nq := 0
	walkPaths(after(sel), isSel, intEdgeFilter(idx, int64(quitIdx)), 5000, func(path []ssa.Instruction, end pathEnd) {
		nq++
		last := path[len(path)-1]
		if _, ok := last.(*ssa.Return); !ok {
			badQ = "after the quit channel fires the loop continues (ends at " + w.ipos(last) + ")"
		}
		if countOn(path, isPing) > 0 {
			badQ = "a keepalive is sent after the quit channel fired"
		}
		if !stopped(path) {
			badQ = "the ticker is not stopped when the session ends"
		}
	})
	r.Check(badQ == "" && nq > 0, rule, "xmpp.keepalive#case:quit", w.ipos(sel), badQ, "returns, ticker stopped, no Ping")
	// tick case
	badT := ""
	nOK, nFail := 0, 0
	walkPaths(after(sel), isSel, intEdgeFilter(idx, int64(tickIdx)), 5000, func(path []ssa.Instruction, end pathEnd) {
		last := path[len(path)-1]
		np := countOn(path, isPing)
		if np != 1 {
			badT = fmt.Sprintf("a tick leads to %d Ping calls", np)
			return
		}
		var ping ssa.Instruction
		for _, in := range path {
			if isPing(in) {
				ping = in
			}
		}
		failed := pathAsserts(path, func(c ssa.Value, truth bool) bool { return assertsNonNil(c, truth, ping.(*ssa.Call)) })
		if failed {
			nFail++
			if _, ok := last.(*ssa.Return); !ok {
				badT = "after a failed keepalive the loop continues"
			}
			if countOn(path, isClose) != 1 {
				badT = "a failed keepalive does not close the transport: the loss is never detected"
			}
		} else {
			nOK++
			if !isSel(last) {
				badT = "after a successful keepalive the loop ends (at " + w.ipos(last) + ")"
			}
			if countOn(path, isClose) != 0 {
				badT = "the transport is closed after a successful keepalive"
			}
		}
	})
	r.Check(badT == "" && nOK > 0 && nFail > 0, rule, "xmpp.keepalive#case:tick", w.ipos(sel), badT+fmt.Sprintf(" (ok paths %d, failure paths %d)", nOK, nFail), "one Ping per tick; failure ⇒ Close and return; success ⇒ next select")
}

// goroutine inventory: anchors whose termination other rules establish; anything else must be a loop around a
// fallible blocking call that leaves on error, or have no loop at all.
var goAnchors = map[string]string{
	"xmpp.keepalive":      "exits when recv closes the quit channel or after a failed ping (R3)",
	"xmpp.Client.recv":    "exits on read error or stream close (R1)",
	"xmpp.Component.recv": "component receive loop: exits on read error or stream close",
	"xmpp.Router.route":   "one per packet; terminates unless a handler blocks (application) — delivery to a pending IQ channel is judged by C07.R2",
}

// leavesOnError: every cycle of fn (bounded range loops aside) passes through a call with an error result whose
// non-nil edge leaves the function. Returns "" if so.
func leavesOnError(w *World, fn *ssa.Function) string {
	skip := map[*ssa.BasicBlock]bool{}
	for _, l := range findRangeLoops(fn) {
		skip[l.header] = true
	}
	for _, b := range fn.Blocks {
		for _, in := range b.Instrs {
			c, ok := in.(*ssa.Call)
			if !ok {
				continue
			}
			res := c.Call.Signature().Results()
			if res.Len() == 0 || res.At(res.Len()-1).Type().String() != "error" {
				continue
			}
			ev := errResult(c)
			if ev == nil {
				continue
			}
			leaves := false
			for _, bb := range fn.Blocks {
				for si := range bb.Succs {
					cv, truth, isIf := edgeAssertion(bb, si)
					if !isIf || !assertsNonNil(cv, truth, ev) {
						continue
					}
					if !reachable(Loc{bb.Succs[si], 0}, func(x ssa.Instruction) bool { return x == ssa.Instruction(c) }, nil, nil) {
						leaves = true
					}
				}
			}
			if leaves {
				skip[b] = true
			}
		}
	}
	color := map[*ssa.BasicBlock]int{}
	var cyc *ssa.BasicBlock
	var dfs func(b *ssa.BasicBlock)
	dfs = func(b *ssa.BasicBlock) {
		color[b] = 1
		for _, s := range b.Succs {
			if skip[s] {
				continue
			}
			if color[s] == 1 {
				cyc = s
			} else if color[s] == 0 {
				dfs(s)
			}
		}
		color[b] = 2
	}
	for _, b := range fn.Blocks {
		if color[b] == 0 && !skip[b] {
			dfs(b)
		}
	}
	if cyc != nil {
		return fmt.Sprintf("it has a loop (block %d) that no failing call leaves", cyc.Index)
	}
	return ""
}

func c12Goroutines(w *World, r *Report) {
	for _, f := range w.LibFuncs() {
		allInstrs(f, func(in ssa.Instruction) {
			g, ok := in.(*ssa.Go)
			if !ok {
				return
			}
			key := w.callKey(g)
			cons := "go:" + w.ownerKey(f) + "→" + key
			if why, ok := goAnchors[key]; ok {
				r.Ok("R4", cons, why)
				return
			}
			var started *ssa.Function
			if callee := g.Call.StaticCallee(); callee != nil && callee.Blocks != nil {
				started = callee
			} else if mc, ok := g.Call.Value.(*ssa.MakeClosure); ok {
				started, _ = mc.Fn.(*ssa.Function)
			}
			if started == nil || !w.inModule(started) {
				r.Undecided("R4", cons, w.ipos(in), "a goroutine is started on a function the analysis cannot see: nothing establishes that it ends with the session")
				return
			}
			// the symbolic construct of a closure / new function: by what it is, not by its name
			cons = "go:" + w.ownerKey(f) + "→" + goroutineRole(w, started)
			if why := leavesOnError(w, started); why != "" {
				r.Fail("R4", cons, w.ipos(in), "a goroutine is started whose body does not end with the session: "+why)
				return
			}
			r.Ok("R4", cons, "no loop, or every loop passes through a fallible call and leaves when it fails")
		})
	}
	r.Floor("R4", 6)
	streamCloseChannelFresh(w, r, "R4")
	transportCloseRule(w, r, "R6")
	// blocking channel operations inside goroutine bodies and the functions they run
	type chanOp struct {
		fn   *ssa.Function
		in   ssa.Instruction
		kind string
	}
	var ops []chanOp
	for _, f := range w.LibFuncs() {
		allInstrs(f, func(in ssa.Instruction) {
			switch x := in.(type) {
			case *ssa.Send:
				ops = append(ops, chanOp{f, in, "send"})
			case *ssa.UnOp:
				if x.Op.String() == "<-" {
					ops = append(ops, chanOp{f, in, "recv"})
				}
			case *ssa.Select:
				if x.Blocking {
					ops = append(ops, chanOp{f, in, "select"})
				}
			}
		})
	}
	// a receive that ends by itself: a context's Done channel, a timer
	terminating := func(ch ssa.Value) string {
		o := chanOrigin(ch)
		if c, ok := o.(*ssa.Call); ok {
			switch w.callKey(c) {
			case "context.Context.Done":
				return "a context's Done(): ends when the context ends"
			case "time.After", "time.Tick":
				return "a timer: bounded"
			}
		}
		if f, _ := loadedField(o); f != nil && f.Name() == "C" && strings.HasPrefix(f.Pkg().Path(), "time") {
			return "a ticker/timer channel"
		}
		return ""
	}
	sort.Slice(ops, func(i, j int) bool { return w.ipos(ops[i].in) < w.ipos(ops[j].in) })
	cnt := map[string]int{}
	for _, op := range ops {
		k := w.funcKey(op.fn) + "#" + op.kind
		cnt[k]++
		cons := fmt.Sprintf("chan:%s#%d", k, cnt[k])
		switch x := op.in.(type) {
		case *ssa.Select:
			why := ""
			for _, st := range x.States {
				if st.Dir == types.RecvOnly {
					if t := terminating(st.Chan); t != "" {
						why = t
					}
				}
			}
			if len(x.States) >= 2 && why != "" {
				r.Ok("R4", cons, "select with a terminating alternative: "+why)
			} else {
				r.Fail("R4", cons, w.ipos(op.in), "blocking select without a terminating alternative (a context's Done, a timer): the goroutine can wait forever")
			}
			continue
		case *ssa.UnOp:
			if t := terminating(x.X); t != "" {
				r.Ok("R4", cons, "waits on "+t)
				continue
			}
		}
		switch op.kind {
		case "send":
			s := op.in.(*ssa.Send)
			if mk, ok := chanMake(w, s.Chan); ok && mk > 0 {
				r.Ok("R4", cons, fmt.Sprintf("send on a channel made with capacity %d", mk))
				continue
			}
			r.Fail("R4", cons, w.ipos(op.in), "blocking send with no terminating alternative (unbuffered or unknown channel, not inside a select): the goroutine can block forever — "+describeChan(w, s.Chan))
		default:
			r.Fail("R4", cons, w.ipos(op.in), "blocking channel receive with no terminating alternative")
		}
	}
}

// chanMake: capacity of the channel if every store to the field/variable it is
// loaded from is a make(chan, const).
func chanMake(w *World, ch ssa.Value) (int64, bool) {
	ch = chanOrigin(ch)
	if mk, ok := ch.(*ssa.MakeChan); ok {
		if n, ok := intConst(mk.Size); ok {
			return n, true
		}
		return 0, false
	}
	f, _ := loadedField(ch)
	if f == nil {
		return 0, false
	}
	capv := int64(-1)
	for _, a := range w.fieldAccesses(f, w.LibFuncs()) {
		if a.Kind != "store" {
			continue
		}
		if isNilConst(a.Val) {
			continue
		}
		mk, ok := chanOrigin(a.Val).(*ssa.MakeChan)
		if !ok {
			return 0, false
		}
		n, ok := intConst(mk.Size)
		if !ok {
			return 0, false
		}
		if capv >= 0 && n != capv {
			if n < capv {
				capv = n
			}
		} else {
			capv = n
		}
	}
	if capv < 0 {
		return 0, false
	}
	return capv, true
}

func describeChan(w *World, ch ssa.Value) string {
	if f, _ := loadedField(chanOrigin(ch)); f != nil {
		return "channel field " + f.Name()
	}
	return strings.TrimSpace(ch.String())
}

var _ = types.Typ

// goroutineRole names a started function by what it does (stable under renaming / closure-to-method refactoring).
func goroutineRole(w *World, fn *ssa.Function) string {
	has := func(keys ...string) bool { return len(w.callsInH(fn, keys...)) > 0 }
	switch {
	case has("stanza.NextPacket"):
		return "packet-drain-loop"
	case has("nhooyr.io/websocket.Conn.Reader"):
		return "websocket-reader-loop"
	case has("context.Context.Done"):
		return "context-watcher"
	}
	return "function:" + w.funcKey(fn)
}

// c12Events (R5): the functions through which the loss (and every other state change) reaches the application.
func c12Events(w *World, r *Report) {
	fHandler := w.Field("xmpp.EventManager.Handler")
	isSetState := w.isCallTo("xmpp.SyncConnState.setState")
	isHandlerCall := func(in ssa.Instruction) bool { return isDynCallOfField(in, fHandler) }
	want := map[string]string{"disconnected": "StateDisconnected", "updateState": "", "streamError": "StateStreamError"}
	for _, name := range []string{"disconnected", "updateState", "streamError"} {
		fn := w.Func("xmpp.(*EventManager)." + name)
		cons := "xmpp.(*EventManager)." + name
		bad := ""
		n, nCalled := 0, 0
		err := walkPaths(entryLoc(fn), nil, nil, 2000, func(path []ssa.Instruction, end pathEnd) {
			if _, ok := path[len(path)-1].(*ssa.Return); !ok {
				bad = "a path does not return"
				return
			}
			n++
			if countOn(path, isSetState) != 1 {
				bad = fmt.Sprintf("the state is recorded %d time(s)", countOn(path, isSetState))
			}
			forPath(path, func(i int, in ssa.Instruction) {
				if !isSetState(in) {
					return
				}
				a := asCall(in).Common().Args[1]
				if want[name] == "" {
					if a != ssa.Value(fn.Params[1]) {
						bad = "the state recorded is not the one given"
					}
				} else if k, ok := intConst(a); !ok || func() bool { v, _ := intConstOf(w.Pkgs["xmpp"].Types.Scope().Lookup(want[name])); return v != k }() {
					bad = "the state recorded is not " + want[name]
				}
			})
			installed := pathAsserts(path, func(c ssa.Value, truth bool) bool {
				x, eq, ok := nilCompare(c)
				if !ok {
					return false
				}
				f, _ := loadedField(x)
				return f == fHandler && eq != truth
			})
			nh := countOn(path, isHandlerCall)
			if installed {
				nCalled++
				if nh != 1 {
					bad = fmt.Sprintf("with a handler installed it is called %d time(s)", nh)
				}
				if indexOn(path, isHandlerCall) < indexOn(path, isSetState) {
					bad = "the handler is called before the state is recorded"
				}
				forPath(path, func(i int, in ssa.Instruction) {
					if !isHandlerCall(in) {
						return
					}
					if _, isCall := in.(*ssa.Call); !isCall {
						bad = "the handler is not called synchronously"
					}
					fields, al := complitFields(asCall(in).Common().Args[0])
					if al == nil {
						bad = "the event handed to the handler is not built here"
						return
					}
					if st, ok := fields["State"]; !ok || !strings.HasSuffix(w.nf(st, 0), ".CurrentState") {
						bad = "the event does not carry the current state"
					}
					if name == "disconnected" {
						if sm, ok := fields["SMState"]; !ok || origin(sm) != ssa.Value(fn.Params[1]) {
							if u, isLoad := sm.(*ssa.UnOp); !ok || !isLoad || !func() bool {
								// a struct parameter is spilled to a local before being copied into the literal
								al2, isAl := u.X.(*ssa.Alloc)
								if !isAl {
									return false
								}
								for _, rf := range *al2.Referrers() {
									if s2, isSt := rf.(*ssa.Store); isSt && s2.Addr == ssa.Value(al2) && s2.Val == ssa.Value(fn.Params[1]) {
										return true
									}
								}
								return false
							}() {
								bad = "the Disconnected event does not carry the stream-management state it was given"
							}
						}
					}
				})
			} else if nh != 0 {
				bad = "the handler is called without having been tested for nil"
			}
		})
		if err != nil {
			r.Undecided("R5", cons, w.pos(fn.Pos()), err.Error())
			continue
		}
		r.Check(bad == "" && n > 0 && nCalled > 0, "R5", cons, w.pos(fn.Pos()), bad+": the application (and a StreamManager) never learns about the state change", fmt.Sprintf("%d path(s): state recorded, handler called once with the event", n))
	}
	for _, k := range []string{"xmpp.(*Client).SetHandler", "xmpp.(*Component).SetHandler"} {
		fn := w.Func(k)
		okSt := false
		allInstrsH(fn, func(in ssa.Instruction) {
			if st, ok := in.(*ssa.Store); ok {
				if fa, ok := st.Addr.(*ssa.FieldAddr); ok && fieldOfAddr(fa) == fHandler && origin(st.Val) == ssa.Value(fn.Params[1]) {
					okSt = true
				}
			}
		})
		r.Check(okSt, "R5", k, w.pos(fn.Pos()), "SetHandler does not install the handler it is given: events go to the old handler or nowhere, a StreamManager is never told about a loss", "Handler = handler")
	}
	r.Floor("R5", 5)
}
