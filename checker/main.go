package main

import (
	"flag"
	"go/types"

	"fmt"
	"golang.org/x/tools/go/ssa"
	"os"
	"runtime/debug"
	"sort"
	"strconv"
	"strings"
	"time"
)

type propDef struct {
	id      string
	level   string
	run     func(w *World, r *Report, tier string)
	trusted []string
	explain string
	assume  []string
}

var props = map[string]*propDef{}

var verbose bool

func register(p *propDef) { props[p.id] = p }

var commonTrusted = []string{
	"Go semantics as modelled by go/types and go/ssa (golang.org/x/tools v0.29.0)",
	"the module contains no unsafe, cgo or assembly (asserted by the loader on every run)",
	"standard library and third-party modules behave as documented; analysed by name and signature only",
}

func main() {
	prop := flag.String("prop", "", "property id (C01..C20) or 'all'")
	tier := flag.String("tier", "", "quick|thorough")
	repo := flag.String("repo", "/repo", "repository root")
	verif := flag.String("verif", "/verif", "verif root")
	explain := flag.String("explain", "", "print a replay file")
	variant := flag.String("variant", "", "apply a variant spec (overlay) and report without writing evidence")
	list := flag.Bool("list", false, "list properties")
	flag.BoolVar(&verbose, "v", false, "print every obligation")
	flag.Parse()

	if *explain != "" {
		b, err := os.ReadFile(*explain)
		if err != nil {
			fmt.Println(err)
			os.Exit(2)
		}
		fmt.Println(string(b))
		fmt.Println("To re-decide against the current tree: ./bin/xcheck -prop <property> -tier quick")
		os.Exit(0)
	}
	if *list {
		var ids []string
		for id := range props {
			ids = append(ids, id)
		}
		sort.Strings(ids)
		fmt.Println(strings.Join(ids, " "))
		return
	}
	if os.Getenv("XDUMPSIGS") != "" {
		// development aid: regenerate knownsigs.go (the signatures of the reference tree's functions)
		w := load(loadOpts{repo: *repo})
		var ks []string
		for k := range knownFuncs {
			ks = append(ks, k)
		}
		sort.Strings(ks)
		fmt.Println("package main\n\n// Code generated from the reference tree (XDUMPSIGS=1 xcheck): the signature each known function had there.\n// A function of the same name with another signature is a different function as far as the walk-through policy goes.\nvar knownSigs = map[string]string{")
		for _, k := range ks {
			if f := w.ByKey[k]; f != nil {
				fmt.Printf("\t%q: %q,\n", k, sigString(f))
			}
		}
		fmt.Println("}")
		return
	}
	if *tier == "" {
		*tier = os.Getenv("VERIF_TIER")
		if *tier == "" {
			*tier = "quick"
		}
	}
	seed, _ := strconv.Atoi(os.Getenv("VERIF_SEED"))
	if *prop == "all" && *variant == "" && *tier == "quick" {
		// one load, every property: used by the mutation campaign scripts (scratch -verif directory)
		var ids []string
		for id := range props {
			ids = append(ids, id)
		}
		sort.Strings(ids)
		w := load(loadOpts{repo: *repo})
		worst := 0
		for _, id := range ids {
			if c := runPropOn(props[id], w, *tier, *repo, *verif, seed); c > worst {
				worst = c
			}
		}
		os.Exit(worst)
	}
	p := props[*prop]
	if p == nil {
		fmt.Printf("unknown property %q\n", *prop)
		os.Exit(2)
	}
	os.Exit(runProp(p, *tier, *repo, *verif, seed, *variant))
}

func runPropOn(p *propDef, w *World, tier, repo, verif string, seed int) (code int) {
	start := time.Now()
	defer func() {
		if e := recover(); e != nil {
			if hf, ok := e.(hardFail); ok {
				fmt.Printf("CHECKER-ERROR property=%s: %s\n", p.id, hf.msg)
			} else {
				fmt.Printf("CHECKER-PANIC property=%s: %v\n%s\n", p.id, e, debug.Stack())
			}
			code = 2
		}
	}()
	known := loadKnown(verif + "/known_findings.jsonl")
	r := newReport(p.id, p.level)
	setInlinePolicy(w)
	runRules(p, w, r, tier)
	return r.finish(finishOpts{verifDir: verif, tier: tier, seed: seed, start: start, w: w, known: known,
		cmd: fmt.Sprintf("./bin/xcheck -prop %s -tier %s", p.id, tier), trusted: append(append([]string{}, commonTrusted...), p.trusted...), explain: p.explain, assume: p.assume, extra: map[string]interface{}{"source_normalisation": normList(w)}})
}

func runProp(p *propDef, tier, repo, verif string, seed int, variant string) (code int) {
	start := time.Now()
	defer func() {
		if e := recover(); e != nil {
			if hf, ok := e.(hardFail); ok {
				fmt.Printf("CHECKER-ERROR property=%s: %s\n", p.id, hf.msg)
			} else {
				fmt.Printf("CHECKER-PANIC property=%s: %v\n%s\n", p.id, e, debug.Stack())
			}
			code = 2
		}
	}()
	known := loadKnown(verif + "/known_findings.jsonl")
	if variant != "" {
		return runVariant(p, repo, verif, variant, known)
	}
	w := load(loadOpts{repo: repo})
	r := newReport(p.id, p.level)
	setInlinePolicy(w)
	runRules(p, w, r, tier)
	extra := map[string]interface{}{"source_normalisation": normList(w)}
	if tier == "thorough" {
		code2, info := thorough(p, repo, verif, known)
		extra["thorough"] = info
		if code2 != 0 {
			// evidence of the main run is written either way. A violation found on the tree itself is the
			// verdict (exit 1); self-test inputs applied on top of a violating tree say nothing. Only when the
			// tree is clean does a failing self-test mean the checker is broken (exit 2).
			main := r.finish(finishOpts{verifDir: verif, tier: tier, seed: seed, start: start, w: w, known: known,
				cmd: fmt.Sprintf("./bin/xcheck -prop %s -tier %s", p.id, tier), trusted: append(append([]string{}, commonTrusted...), p.trusted...), explain: p.explain, assume: p.assume, extra: extra})
			if main != 0 {
				return main
			}
			fmt.Printf("CHECKER-ERROR property=%s: thorough self-test failed: %v\n", p.id, info["failures"])
			return 2
		}
	}
	return r.finish(finishOpts{verifDir: verif, tier: tier, seed: seed, start: start, w: w, known: known,
		cmd: fmt.Sprintf("./bin/xcheck -prop %s -tier %s", p.id, tier), trusted: append(append([]string{}, commonTrusted...), p.trusted...), explain: p.explain, assume: p.assume, extra: extra})
}

// setInlinePolicy: helper functions the reference tree does not have are walked through.
func setInlinePolicy(w *World) {
	theWorld = w
	inlineOK = func(callee *ssa.Function) bool {
		if callee == nil || callee.Blocks == nil || !w.inModule(callee) || w.TestSupport[callee] {
			return false
		}
		if callee.Parent() != nil {
			return false // closures are analysed where they are created
		}
		if callee.Synthetic != "" {
			return false // wrappers (bound methods, thunks) stand for the method they call
		}
		k := w.funcKey(callee)
		if !knownFuncs[k] {
			return true
		}
		// the name is the reference tree's, but is it that function? One with another signature is a new helper
		// (functions a rule names stay what they are: the rules look for them by identity)
		if ref, ok := knownSigs[k]; ok && ref != sigString(callee) && !anchoredKeys[normKey(k)] {
			return true
		}
		return false
	}
}

// sigString: parameter and result types only — naming a result or renaming a parameter does not make another function.
func sigString(f *ssa.Function) string {
	q := func(p *types.Package) string { return p.Name() }
	tuple := func(t *types.Tuple) string {
		var parts []string
		for i := 0; i < t.Len(); i++ {
			parts = append(parts, types.TypeString(t.At(i).Type(), q))
		}
		return strings.Join(parts, ", ")
	}
	v := ""
	if f.Signature.Variadic() {
		v = "..."
	}
	return "func(" + tuple(f.Signature.Params()) + v + ") (" + tuple(f.Signature.Results()) + ")"
}

// runRules runs the property's rule set. A tree on which the rules cannot be evaluated — a function, field or type
// they are anchored in is gone, or a rule trips over a shape it was not written for — is not a tree on which the
// property has been decided: the failure becomes an undecided obligation (exit 1 with a VIOLATION line and a replay
// file), never a silent pass and never a bare crash. (Load and type-check failures stay exit 2: nothing was analysed.)
func runRules(p *propDef, w *World, r *Report, tier string) {
	defer func() {
		e := recover()
		if e == nil {
			return
		}
		if hf, ok := e.(hardFail); ok {
			if strings.HasPrefix(hf.msg, "unresolved anchor") {
				r.Undecided("ENGINE", "anchor:"+strings.TrimSpace(strings.TrimPrefix(hf.msg, "unresolved anchor:")), "-", hf.msg+": the code this property's rules are anchored in has been renamed, moved or removed; the rules after this point were not evaluated")
				return
			}
			panic(e)
		}
		st := strings.Split(string(debug.Stack()), "\n")
		where := ""
		for _, l := range st {
			if strings.Contains(l, "/checker/c") && strings.Contains(l, ".go:") {
				where = strings.TrimSpace(l)
				break
			}
		}
		r.Undecided("ENGINE", "internal-error", "-", fmt.Sprintf("the rule set could not be evaluated on this tree (%v at %s): a function the rules are anchored in has changed shape (signature, result list); the rules after this point were not evaluated", e, where))
	}()
	p.run(w, r, tier)
}

// normList: what normalize.go rewrote in the overlay before loading (empty on a tree without step tables).
func normList(w *World) []string {
	if w.Normalised == nil {
		return []string{}
	}
	return w.Normalised
}

var theWorld *World
