package main

// Wire names. The properties speak about what the peer sees: the count reported in <a h='…'/>, the previd of
// <resume/>, the mechanism named in <auth/>, the <handshake/> element. For the tag-driven protocol elements the
// library's own round trip cannot notice a wrong name (both directions use the same tag), so the few names a property's
// statement depends on are compared with the protocol's (RFC 6120, XEP-0198, XEP-0114). A change of one of these names
// is never behaviour-preserving: it changes the bytes on the wire.

import (
	"fmt"
	"sort"
)

type wireField struct {
	field string // Go field
	name  string // XML local name ("" for character data / inner XML)
	attr  bool
}

type wireType struct {
	typeKey string // "stanza.SMAnswer"
	space   string
	local   string
	fields  []wireField
}

func wireRule(w *World, r *Report, rule string, what string, types ...wireType) {
	r.Rule(rule, "wire names: the protocol elements this property's statement depends on are serialised under the names the protocol gives them ("+what+")")
	for _, wt := range types {
		T := w.Named(wt.typeKey)
		cons := wt.typeKey + "#wire"
		sp, lo, has := xmlNameTag(T)
		bad := ""
		if !has || sp != wt.space || lo != wt.local {
			bad = fmt.Sprintf("the element is <%s xmlns='%s'>, the protocol's is <%s xmlns='%s'>", lo, sp, wt.local, wt.space)
		}
		tags := map[string]tagInfo{}
		for _, ti := range structTags(T) {
			tags[ti.Field.Name()] = ti
		}
		var names []string
		for _, f := range wt.fields {
			ti, ok := tags[f.field]
			switch {
			case !ok:
				bad = "field " + f.field + " is gone"
			case f.name == "":
				if !(ti.InnerXML || ti.CharData) {
					bad = "field " + f.field + " is not the element's content"
				}
			case ti.Name != f.name || ti.Attr != f.attr || ti.Skip:
				kind := map[bool]string{true: "attribute", false: "child element"}
				bad = fmt.Sprintf("field %s is written as %s %q, the protocol's is %s %q", f.field, kind[ti.Attr], ti.Name, kind[f.attr], f.name)
			}
			names = append(names, f.field)
		}
		sort.Strings(names)
		r.Check(bad == "", rule, cons, "-", "the peer does not see what the statement says it sees: "+bad, fmt.Sprintf("<%s xmlns='%s'> with %v as the protocol names them", wt.local, wt.space, names))
	}
}

const nsSM = "urn:xmpp:sm:3"

var (
	wireSMAnswer  = wireType{"stanza.SMAnswer", nsSM, "a", []wireField{{"H", "h", true}}}
	wireSMRequest = wireType{"stanza.SMRequest", nsSM, "r", nil}
	wireSMResume  = wireType{"stanza.SMResume", nsSM, "resume", []wireField{{"PrevId", "previd", true}, {"H", "h", true}}}
	wireSMResumed = wireType{"stanza.SMResumed", nsSM, "resumed", []wireField{{"PrevId", "previd", true}}}
	wireSMEnable  = wireType{"stanza.SMEnable", nsSM, "enable", []wireField{{"Resume", "resume", true}}}
	wireSMEnabled = wireType{"stanza.SMEnabled", nsSM, "enabled", []wireField{{"Id", "id", true}, {"Resume", "resume", true}}}
	wireSASLAuth  = wireType{"stanza.SASLAuth", "urn:ietf:params:xml:ns:xmpp-sasl", "auth", []wireField{{"Mechanism", "mechanism", true}, {"Value", "", false}}}
	wireBind      = wireType{"stanza.Bind", "urn:ietf:params:xml:ns:xmpp-bind", "bind", []wireField{{"Resource", "resource", false}, {"Jid", "jid", false}}}
	wireHandshake = wireType{"stanza.Handshake", "jabber:component:accept", "handshake", []wireField{{"Value", "", false}}}
)
