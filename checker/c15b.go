package main

// C15, idiom-independent parts: NewJid judged per success path over symbolic string terms (before/after the first
// separator), and the validators judged as "no rune of the string satisfies a predicate that is true for
// whitespace and for every rune of a table" — whichever library idiom computes them.

import (
	"fmt"
	"go/constant"
	"go/token"
	"sort"
	"strconv"
	"strings"

	"golang.org/x/tools/go/ssa"
)

// ---------------------------------------------------------------------------
// string terms on a path

type jidEval struct {
	w    *World
	fn   *ssa.Function
	path []ssa.Instruction
	obj  ssa.Value            // the *Jid being built
	snap map[ssa.Value]string // loads of the object's fields: the term held at that point of the path
	mem  map[string]string    // field -> term (as of the end of the path)
	memo map[ssa.Value]string
}

func (e *jidEval) res(v ssa.Value) ssa.Value {
	for i := 0; i < 8; i++ {
		n := valueOnPath(rvAny(v), e.path)
		switch x := n.(type) {
		case *ssa.ChangeType:
			n = x.X
		case *ssa.Convert:
			if isStringType(x.Type()) && isStringType(x.X.Type()) {
				n = x.X
			}
		}
		if n == v {
			return v
		}
		v = n
	}
	return v
}

// splitCall: v is strings.SplitN(t, sep, 2) (first-occurrence split) → t, sep
func (e *jidEval) splitCall(v ssa.Value) (ssa.Value, string, bool) {
	c, ok := e.res(v).(*ssa.Call)
	if !ok || e.w.callKey(c) != "strings.SplitN" || len(c.Call.Args) != 3 {
		return nil, "", false
	}
	sep, isS := stringConst(c.Call.Args[1])
	n, isN := intConst(c.Call.Args[2])
	if !isS || !isN || n != 2 || sep == "" {
		return nil, "", false
	}
	return c.Call.Args[0], sep, true
}

// indexCall: v is the index of the first occurrence of a constant separator in t
func (e *jidEval) indexCall(v ssa.Value) (ssa.Value, string, bool) {
	c, ok := e.res(v).(*ssa.Call)
	if !ok || len(c.Call.Args) != 2 {
		return nil, "", false
	}
	switch e.w.callKey(c) {
	case "strings.Index":
		if sep, isS := stringConst(c.Call.Args[1]); isS && sep != "" {
			return c.Call.Args[0], sep, true
		}
	case "strings.IndexByte", "strings.IndexRune":
		if k, isK := intConst(c.Call.Args[1]); isK && k > 0 && k < 128 {
			return c.Call.Args[0], string(rune(k)), true
		}
	}
	return nil, "", false
}

func (e *jidEval) term(v ssa.Value) string {
	if v == nil {
		return "?nil"
	}
	if t, ok := e.memo[v]; ok {
		return t
	}
	e.memo[v] = "?rec"
	t := e.term1(v)
	e.memo[v] = t
	return t
}

func (e *jidEval) term1(v0 ssa.Value) string {
	if t, ok := e.snap[v0]; ok {
		return t
	}
	v := e.res(v0)
	if t, ok := e.snap[v]; ok {
		return t
	}
	if s, ok := stringConst(v); ok {
		return strconv.Quote(s)
	}
	switch x := v.(type) {
	case *ssa.Parameter:
		if x.Parent() == e.fn && isStringType(x.Type()) {
			return "S"
		}
	case *ssa.UnOp:
		if x.Op != token.MUL {
			break
		}
		if ia, ok := x.X.(*ssa.IndexAddr); ok {
			if t, sep, ok := e.splitCall(ia.X); ok {
				k, isK := intConst(ia.Index)
				T := e.term(t)
				if isK && k == 0 {
					return "split0(" + T + "," + strconv.Quote(sep) + ")"
				}
				if isK && k == 1 {
					return "after(" + T + "," + strconv.Quote(sep) + ")"
				}
			}
			return "?elem"
		}
	case *ssa.Slice:
		T := e.term(x.X)
		if x.Low == nil && x.High != nil {
			if t, sep, ok := e.indexCall(x.High); ok && e.term(t) == T {
				return "before(" + T + "," + strconv.Quote(sep) + ")"
			}
		}
		if x.High == nil && x.Low != nil {
			if bo, ok := e.res(x.Low).(*ssa.BinOp); ok && bo.Op == token.ADD {
				for _, pair := range [][2]ssa.Value{{bo.X, bo.Y}, {bo.Y, bo.X}} {
					if t, sep, ok := e.indexCall(pair[0]); ok && e.term(t) == T {
						if k, isK := intConst(pair[1]); isK && int(k) == len(sep) {
							return "after(" + T + "," + strconv.Quote(sep) + ")"
						}
					}
				}
			}
		}
		return "?slice"
	}
	return "?" + v.Name()
}

// objField: addr is &obj.f → f
func (e *jidEval) objField(addr ssa.Value) (string, bool) {
	fa, ok := addr.(*ssa.FieldAddr)
	if !ok {
		return "", false
	}
	if rvAny(fa.X) != e.obj && fa.X != e.obj {
		return "", false
	}
	return fieldOfAddr(fa).Name(), true
}

type jidPathResult struct {
	facts map[string]bool
	mem   map[string]string
	at    string
}

// evalNewJidPath interprets one success path of NewJid.
func evalNewJidPath(w *World, fn *ssa.Function, path []ssa.Instruction, ret *ssa.Return) (*jidPathResult, string) {
	obj := rres(path, ret)[0]
	if _, ok := obj.(*ssa.Alloc); !ok {
		return nil, "the returned *Jid is not a value built in this function"
	}
	e := &jidEval{w: w, fn: fn, path: path, obj: obj, snap: map[ssa.Value]string{}, mem: map[string]string{}, memo: map[ssa.Value]string{}}
	forPath(path, func(i int, in ssa.Instruction) {
		switch x := in.(type) {
		case *ssa.Store:
			if f, ok := e.objField(x.Addr); ok {
				e.mem[f] = e.term(x.Val)
			}
		case *ssa.UnOp:
			if x.Op == token.MUL {
				if f, ok := e.objField(x.X); ok {
					t, set := e.mem[f]
					if !set {
						t = `""`
					}
					e.snap[x] = t
				}
			}
		}
	})
	facts := map[string]bool{}
	setFact := func(k string, v bool) {
		facts[k] = v
	}
	var visit func(c ssa.Value, truth bool, depth int)
	visit = func(c ssa.Value, truth bool, depth int) {
		if depth > 6 {
			return
		}
		c = e.res(c)
		if nc, neg := stripNot(c); neg {
			visit(nc, !truth, depth+1)
			return
		}
		switch x := c.(type) {
		case *ssa.Call:
			switch w.callKey(x) {
			case "stanza.isUsernameValid":
				setFact("validU("+e.term(x.Call.Args[0])+")", truth)
			case "stanza.isDomainValid":
				setFact("validD("+e.term(x.Call.Args[0])+")", truth)
			case "strings.Contains":
				if sep, ok := stringConst(x.Call.Args[1]); ok {
					setFact("has("+e.term(x.Call.Args[0])+","+strconv.Quote(sep)+")", truth)
				}
			case "strings.ContainsRune":
				if k, ok := intConst(x.Call.Args[1]); ok {
					setFact("has("+e.term(x.Call.Args[0])+","+strconv.Quote(string(rune(k)))+")", truth)
				}
			}
		case *ssa.BinOp:
			// string compared with ""
			for _, pr := range [][2]ssa.Value{{x.X, x.Y}, {x.Y, x.X}} {
				if s, isS := stringConst(pr[1]); isS && s == "" && (x.Op == token.EQL || x.Op == token.NEQ) && isStringType(pr[0].Type()) {
					setFact("nonempty("+e.term(pr[0])+")", (x.Op == token.NEQ) == truth)
					return
				}
			}
			// i == len(T) - len(sep), with i the index of the first sep in T: nothing follows the separator
			if x.Op == token.EQL || x.Op == token.NEQ {
				for _, pr := range [][2]ssa.Value{{x.X, x.Y}, {x.Y, x.X}} {
					t, sep, isIdx := e.indexCall(pr[0])
					if !isIdx {
						continue
					}
					if sub, ok := e.res(pr[1]).(*ssa.BinOp); ok && sub.Op == token.SUB {
						if n, isN := intConst(sub.Y); isN && int(n) == len(sep) {
							if lc, ok := e.res(sub.X).(*ssa.Call); ok && w.callKey(lc) == "builtin.len" && e.term(lc.Call.Args[0]) == e.term(t) {
								setFact("nonempty(after("+e.term(t)+","+strconv.Quote(sep)+"))", (x.Op == token.NEQ) == truth)
								return
							}
						}
					}
				}
			}
			k, isK := intConst(e.res(x.Y))
			if !isK {
				return
			}
			pred := func(n int64) bool {
				r := constant.Compare(constant.MakeInt64(n), x.Op, constant.MakeInt64(k))
				return r == truth
			}
			lhs := e.res(x.X)
			if lc, ok := lhs.(*ssa.Call); ok && w.callKey(lc) == "builtin.len" {
				arg := lc.Call.Args[0]
				if t, sep, ok := e.splitCall(arg); ok {
					// SplitN(_, _, 2) has length 1 (separator absent) or 2 (present)
					if pred(1) != pred(2) {
						setFact("has("+e.term(t)+","+strconv.Quote(sep)+")", pred(2))
					}
					return
				}
				if isStringType(arg.Type()) && pred(0) != pred(1) && pred(1) == pred(7) {
					setFact("nonempty("+e.term(arg)+")", pred(1))
				}
				return
			}
			if t, sep, ok := e.indexCall(lhs); ok {
				if pred(-1) != pred(0) && pred(0) == pred(1) && pred(1) == pred(1000) {
					setFact("has("+e.term(t)+","+strconv.Quote(sep)+")", pred(0))
				}
				// i == 0 / i != 0 / i > 0: nothing / something precedes the separator
				if pred(0) != pred(1) && pred(1) == pred(1000) {
					setFact("nonempty(before("+e.term(t)+","+strconv.Quote(sep)+"))", pred(1))
				}
			}
		}
	}
	pathEdges(path, func(b *ssa.BasicBlock, succ int) {
		if c, truth, ok := edgeAssertion(b, succ); ok {
			if curEdgeIdx >= 0 {
				c = resolveOn(c, curEdgeIdx, path)
			}
			visit(c, truth, 0)
		}
	})
	// canonical form of the parts: split0(T,sep) is before(T,sep) when the separator is present, T otherwise
	known := facts
	canon := func(t string) string {
		for i := 0; i < 4 && strings.Contains(t, "split0("); i++ {
			j := strings.LastIndex(t, "split0(")
			// find the matching close
			depth, k := 0, j+len("split0(")
			for ; k < len(t); k++ {
				if t[k] == '(' {
					depth++
				} else if t[k] == ')' {
					if depth == 0 {
						break
					}
					depth--
				}
			}
			inner := t[j+len("split0(") : k]
			// inner = T,"sep" — the separator is the last quoted string
			q := strings.LastIndex(inner, ",")
			T, sep := inner[:q], inner[q+1:]
			repl := "SPLIT0#(" + inner + ")" // not decided yet: masked for this pass, restored below
			if has, isKnown := known["has("+T+","+sep+")"]; isKnown {
				if has {
					repl = "before(" + T + "," + sep + ")"
				} else {
					repl = T
				}
			}
			t = t[:j] + repl + t[k+1:]
		}
		return strings.ReplaceAll(t, "SPLIT0#(", "split0(")
	}
	// facts about inner terms canonicalise the keys of facts about outer terms: iterate
	for round := 0; round < 3; round++ {
		next := map[string]bool{}
		for k, v := range known {
			next[canon(k)] = v
		}
		known = next
	}
	out := &jidPathResult{facts: known, mem: map[string]string{}, at: w.ipos(ret)}
	for f, t := range e.mem {
		out.mem[f] = canon(t)
	}
	return out, ""
}

// c15NewJid: R1 (gates) and R2 (parts) over every success path of NewJid.
func c15NewJid(w *World, r *Report, nj *ssa.Function) {
	gateNames := []string{`sjid != ""`, `local part != "" (when '@' present)`, `domain part != "" (when '@' present)`, "isUsernameValid(jid.Node)", "isDomainValid(jid.Domain)"}
	gateBad := map[string]string{}
	partsBad := ""
	n := 0
	var samples []string
	err := walkPaths(entryLoc(nj), nil, nil, 200000, func(path []ssa.Instruction, end pathEnd) {
		ret, ok := path[len(path)-1].(*ssa.Return)
		if !ok || end == endCycle || len(ret.Results) != 2 {
			return
		}
		if !isNilConst(rres(path, ret)[1]) {
			return
		}
		n++
		res, why := evalNewJidPath(w, nj, path, ret)
		if res == nil {
			partsBad = why
			return
		}
		get := func(f string) string {
			if t, ok := res.mem[f]; ok {
				return t
			}
			return `""`
		}
		fact := func(k string) (bool, bool) { v, ok := res.facts[k]; return v, ok }
		if v, ok := fact("nonempty(S)"); !ok || !v {
			gateBad[gateNames[0]] = "a path accepts without having tested the address for emptiness (return at " + res.at + ")"
		}
		hasAt, known := fact(`has(S,"@")`)
		if !known {
			partsBad = "a success path does not determine whether the address contains '@' (return at " + res.at + "): the split is not a first-occurrence split the engine recognises"
			return
		}
		wantNode, d0 := `""`, "S"
		if hasAt {
			wantNode, d0 = `before(S,"@")`, `after(S,"@")`
			if v, ok := fact("nonempty(" + wantNode + ")"); !ok || !v {
				gateBad[gateNames[1]] = "an address with '@' is accepted without the local part having been tested for emptiness (return at " + res.at + ")"
			}
			if v, ok := fact("nonempty(" + d0 + ")"); !ok || !v {
				gateBad[gateNames[2]] = "an address with '@' is accepted without the part after it having been tested for emptiness (return at " + res.at + ")"
			}
		}
		hasSl, knownSl := fact("has(" + d0 + `,"/")`)
		if !knownSl {
			partsBad = "a success path does not determine whether the domain part contains '/' (return at " + res.at + "): the resource is not split off at the first '/' of what follows the first '@'"
			return
		}
		wantDom, wantRes := d0, `""`
		if hasSl {
			wantDom, wantRes = "before("+d0+`,"/")`, "after("+d0+`,"/")`
		}
		got := fmt.Sprintf("Node=%s Domain=%s Resource=%s", get("Node"), get("Domain"), get("Resource"))
		want := fmt.Sprintf("Node=%s Domain=%s Resource=%s", wantNode, wantDom, wantRes)
		if got != want {
			partsBad = fmt.Sprintf("with '@' present=%v and '/' present=%v the parts are %s, required %s (return at %s)", hasAt, hasSl, got, want, res.at)
		} else if len(samples) < 4 {
			samples = append(samples, fmt.Sprintf("@=%v /=%v: %s", hasAt, hasSl, got))
		}
		if v, ok := fact("validU(" + wantNode + ")"); !ok || !v {
			gateBad[gateNames[3]] = "a JID is accepted without isUsernameValid having accepted its final local part (return at " + res.at + ")"
		}
		if v, ok := fact("validD(" + wantDom + ")"); !ok || !v {
			var ks []string
			for k, v := range res.facts {
				if strings.HasPrefix(k, "validD") {
					ks = append(ks, fmt.Sprintf("%s=%v", k, v))
				}
			}
			sort.Strings(ks)
			gateBad[gateNames[4]] = "a JID is accepted without isDomainValid having accepted its final domain — the part before the first '/' (return at " + res.at + "; validated: " + strings.Join(ks, " ") + ")"
		}
	})
	if err != nil {
		r.Undecided("R2", "stanza.NewJid#parts", w.pos(nj.Pos()), err.Error())
		return
	}
	if n == 0 {
		r.Undecided("R2", "stanza.NewJid#parts", w.pos(nj.Pos()), "NewJid has no success path")
		return
	}
	sort.Strings(samples)
	r.Check(partsBad == "", "R2", "stanza.NewJid#parts", w.pos(nj.Pos()), partsBad, fmt.Sprintf("%d success path(s); %s", n, strings.Join(samples, "; ")))
	for _, g := range gateNames {
		r.Check(gateBad[g] == "", "R1", "stanza.NewJid#gate:"+g, w.pos(nj.Pos()), "a JID can be accepted without passing the check "+g+": "+gateBad[g], fmt.Sprintf("holds on all %d success paths", n))
	}
}

// ---------------------------------------------------------------------------
// validators

// noneMatch: v (on this path) is "no rune of s satisfies P" → s, P; anyMatch the negation.
func matchForm(w *World, v ssa.Value, path []ssa.Instruction, depth int) (s, p ssa.Value, none bool, ok bool) {
	if depth > 6 {
		return nil, nil, false, false
	}
	v = valueOnPath(rvAny(v), path)
	if nv, neg := stripNot(v); neg {
		s, p, none, ok = matchForm(w, nv, path, depth+1)
		return s, p, !none, ok
	}
	if call, isCall := v.(*ssa.Call); isCall {
		if al := anyLoopOf(call.Call.StaticCallee()); al != nil {
			for i, prm := range call.Call.StaticCallee().Params {
				if prm == al.s && i < len(call.Call.Args) {
					return call.Call.Args[i], call, false, true // any rune of s satisfies the loop's predicate
				}
			}
		}
	}
	bo, isB := v.(*ssa.BinOp)
	if !isB {
		return nil, nil, false, false
	}
	c, isC := valueOnPath(rvAny(bo.X), path).(*ssa.Call)
	k, isK := intConst(bo.Y)
	if !isC || !isK || w.callKey(c) != "strings.IndexFunc" {
		return nil, nil, false, false
	}
	pred := func(n int64) bool {
		return constant.Compare(constant.MakeInt64(n), bo.Op, constant.MakeInt64(k))
	}
	if pred(-1) == pred(0) || pred(0) != pred(1) || pred(1) != pred(1000) {
		return nil, nil, false, false
	}
	return c.Call.Args[0], c.Call.Args[1], pred(-1), true
}

// runePredicate resolves the predicate value to its function and a resolver for its free variables.
func runePredicate(w *World, scope *ssa.Function, p ssa.Value) (*ssa.Function, func(ssa.Value) ssa.Value) {
	p = rvAny(p)
	bind := map[ssa.Value]ssa.Value{}
	resolve := func(v ssa.Value) ssa.Value {
		for i := 0; i < 6; i++ {
			if u, ok := v.(*ssa.UnOp); ok && u.Op == token.MUL {
				if b, ok := bind[u.X]; ok {
					v = b
					continue
				}
			}
			if b, ok := bind[v]; ok {
				v = b
				continue
			}
			if o := originIn(scope, v); o != v {
				v = o
				continue
			}
			break
		}
		return v
	}
	var mc *ssa.MakeClosure
	switch x := p.(type) {
	case *ssa.MakeClosure:
		mc = x
	case *ssa.Call:
		callee := x.Call.StaticCallee()
		if callee == nil || callee.Blocks == nil {
			return nil, nil
		}
		if anyLoopOf(callee) != nil {
			// the loop function itself carries the predicate; its other parameters are bound by this call
			for i, prm := range callee.Params {
				if i < len(x.Call.Args) {
					bind[prm] = x.Call.Args[i]
				}
			}
			return callee, resolve
		}
		// a factory: isInvalid(table) returns a closure over its parameter
		for i, prm := range callee.Params {
			if i < len(x.Call.Args) {
				bind[prm] = x.Call.Args[i]
			}
		}
		allInstrs(callee, func(in ssa.Instruction) {
			if rt, ok := in.(*ssa.Return); ok && len(rt.Results) == 1 {
				v := rt.Results[0]
				// the closure may pass through a local
				if u, ok := v.(*ssa.UnOp); ok {
					if al, ok := u.X.(*ssa.Alloc); ok {
						for _, rf := range *al.Referrers() {
							if st, ok := rf.(*ssa.Store); ok && st.Addr == ssa.Value(al) {
								v = st.Val
							}
						}
					}
				}
				if m, ok := v.(*ssa.MakeClosure); ok {
					mc = m
				}
			}
		})
	}
	if mc == nil {
		return nil, nil
	}
	fn, _ := mc.Fn.(*ssa.Function)
	if fn == nil {
		return nil, nil
	}
	if fn.Synthetic != "" && len(fn.FreeVars) == 1 && len(mc.Bindings) == 1 {
		// a method value (tbl.isInvalid): the predicate is the method, its receiver the bound value
		if real := w.unwrap(fn); real != nil && real != fn && real.Blocks != nil && len(real.Params) > 0 {
			bind[real.Params[0]] = mc.Bindings[0]
			return real, resolve
		}
	}
	for i, fv := range fn.FreeVars {
		if i < len(mc.Bindings) {
			b := mc.Bindings[i]
			// a captured variable is bound by address: the value is what is stored there
			if al, ok := b.(*ssa.Alloc); ok {
				for _, rf := range *al.Referrers() {
					if st, ok := rf.(*ssa.Store); ok && st.Addr == ssa.Value(al) {
						b = st.Val
					}
				}
			}
			bind[fv] = b
		}
	}
	return fn, resolve
}

// tableRunes: the runes of a table value: a []rune literal or a constant string.
func tableRunes(v ssa.Value) ([]rune, bool) {
	if s, ok := stringConst(v); ok {
		return []rune(s), true
	}
	// a package-level table that is initialised once and never written again
	if u, ok := v.(*ssa.UnOp); ok && u.Op == token.MUL && theWorld != nil {
		if g, ok := u.X.(*ssa.Global); ok {
			if iv := theWorld.constGlobalInit(g); iv != nil {
				v = iv
			}
		}
	}
	elems := sliceLitElems(v)
	if len(elems) == 0 {
		return nil, false
	}
	var out []rune
	for _, e := range elems {
		k, ok := intConst(e)
		if !ok {
			return nil, false
		}
		out = append(out, rune(k))
	}
	return out, true
}

// c15Predicate: P(c) is true for every whitespace rune and for every rune of a table containing '@' and '/'.
func c15Predicate(w *World, scope, pred *ssa.Function, resolve func(ssa.Value) ssa.Value) (okSpace bool, table []rune, okMember bool, why string) {
	var c ssa.Value
	start := entryLoc(pred)
	var again func(ssa.Instruction) bool
	if al := anyLoopOf(pred); al != nil {
		// one iteration of the loop: from the rune of this iteration to `return true` or to the next rune (predicate false)
		c = al.c
		start = after(al.c.(ssa.Instruction))
		again = func(in ssa.Instruction) bool { return in == ssa.Instruction(al.next) }
	} else {
		switch {
		case len(pred.Params) == 1:
			c = pred.Params[0]
		case len(pred.Params) == 2 && pred.Signature.Recv() != nil:
			c = pred.Params[1] // a method used as a method value: the receiver (the table) is bound
		default:
			return false, nil, false, "the predicate does not take one rune"
		}
	}
	isC := func(v ssa.Value) bool { return v == c || rvAny(v) == c || origin(v) == c }
	nSpaceTrue := 0
	okSpace, okMember = true, true
	nMemberTrue := 0
	var tbl []rune
	haveTable := false
	noteTable := func(v ssa.Value) {
		if rs, ok := tableRunes(resolve(v)); ok {
			tbl, haveTable = rs, true
		}
	}
	err := walkPaths(start, again, nil, 20000, func(path []ssa.Instruction, end pathEnd) {
		ret, isRet := path[len(path)-1].(*ssa.Return)
		var rv ssa.Value = ssaFalse // going on to the next rune: the predicate was false for this one
		if isRet {
			rv = valueOnPath(rres(path, ret)[0], path)
		} else if again == nil || !again(path[len(path)-1]) {
			return
		}
		retTrue := false
		if b, isB := boolConst(rv); isB {
			retTrue = b
		}
		spaceTrue, memberTrue := false, false
		check := func(cv ssa.Value, truth bool) {
			if nv, neg := stripNot(cv); neg {
				cv, truth = nv, !truth
			}
			switch x := cv.(type) {
			case *ssa.Call:
				switch w.callKey(x) {
				case "unicode.IsSpace":
					if isC(x.Call.Args[0]) && truth {
						spaceTrue = true
					}
				case "strings.ContainsRune":
					if isC(x.Call.Args[1]) {
						noteTable(x.Call.Args[0])
						if truth {
							memberTrue = true
						}
					}
				}
			case *ssa.BinOp:
				// c == table[i] inside a range over the table
				if x.Op == token.EQL || x.Op == token.NEQ {
					for _, pr := range [][2]ssa.Value{{x.X, x.Y}, {x.Y, x.X}} {
						if !isC(pr[0]) {
							continue
						}
						if u, ok := pr[1].(*ssa.UnOp); ok {
							if ia, ok := u.X.(*ssa.IndexAddr); ok {
								noteTable(ia.X)
								if (x.Op == token.EQL) == truth {
									memberTrue = true
								}
							}
						}
						// strings.IndexRune(table, c) >= 0
					}
				}
				if ic, ok := x.X.(*ssa.Call); ok && w.callKey(ic) == "strings.IndexRune" && isC(ic.Call.Args[1]) {
					if k, isK := intConst(x.Y); isK {
						pr := func(n int64) bool {
							return constant.Compare(constant.MakeInt64(n), x.Op, constant.MakeInt64(k)) == truth
						}
						noteTable(ic.Call.Args[0])
						if pr(0) && !pr(-1) {
							memberTrue = true
						}
					}
				}
			}
		}
		pathEdges(path, func(b *ssa.BasicBlock, succ int) {
			if cv, truth, ok := edgeAssertion(b, succ); ok {
				check(cv, truth)
			}
		})
		// `return IsSpace(c) || Contains(table, c)`: on the path where the first operand is false the result is the call itself
		if call, ok := rv.(*ssa.Call); ok {
			switch w.callKey(call) {
			case "unicode.IsSpace":
				if isC(call.Call.Args[0]) {
					nSpaceTrue++ // returns exactly IsSpace(c)
				}
			case "strings.ContainsRune":
				if isC(call.Call.Args[1]) {
					noteTable(call.Call.Args[0])
					nMemberTrue++ // returns exactly membership
				}
			}
		}
		if spaceTrue {
			nSpaceTrue++
			if !retTrue {
				okSpace = false
			}
		}
		if memberTrue {
			nMemberTrue++
			if !retTrue {
				okMember = false
			}
		}
	})
	if err != nil {
		return false, nil, false, err.Error()
	}
	if nSpaceTrue == 0 {
		okSpace = false
	}
	if nMemberTrue == 0 || !haveTable {
		okMember = false
	}
	return okSpace, tbl, okMember, ""
}

// c15Validators: R3.
func c15Validators(w *World, r *Report) {
	for _, spec := range []struct {
		key      string
		needLen0 bool
		required string // the characters the part may not contain (RFC 6122 A.5 names these for the local part, with '&', which this library has never refused: noted, not claimed)
	}{{"stanza.isUsernameValid", false, "@/'\":<>"}, {"stanza.isDomainValid", true, "@/"}} {
		fn := w.Func(spec.key)
		p := fn.Params[0]
		bad := ""
		nTrue, nEmpty := 0, 0
		emptyOK := true
		var predFn *ssa.Function
		var resolve func(ssa.Value) ssa.Value
		// a helper that is itself the rune loop is judged as "any rune satisfies P", not walked through
		savedInline := inlineOK
		inlineOK = func(f *ssa.Function) bool { return savedInline != nil && savedInline(f) && anyLoopOf(f) == nil }
		err := walkPaths(entryLoc(fn), nil, nil, 20000, func(path []ssa.Instruction, end pathEnd) {
			ret, isRet := path[len(path)-1].(*ssa.Return)
			if !isRet {
				return
			}
			// walking through a helper (hasForbiddenRune) makes its body part of the path; paths that end inside the
			// rune loop of a library call do not exist here (IndexFunc is a library call)
			rv := valueOnPath(rres(path, ret)[0], path)
			// is the string known to be empty on this path?
			isEmpty := pathAsserts(path, func(cv ssa.Value, truth bool) bool {
				bo, ok := cv.(*ssa.BinOp)
				if !ok {
					return false
				}
				if s, isS := stringConst(bo.Y); isS && s == "" && rvAny(bo.X) == ssa.Value(p) {
					return (bo.Op == token.EQL) == truth
				}
				if lc, ok := bo.X.(*ssa.Call); ok && w.callKey(lc) == "builtin.len" && rvAny(lc.Call.Args[0]) == ssa.Value(p) {
					if k, isK := intConst(bo.Y); isK {
						pr := func(n int64) bool {
							return constant.Compare(constant.MakeInt64(n), bo.Op, constant.MakeInt64(k)) == truth
						}
						return pr(0) && !pr(1)
					}
				}
				return false
			})
			if b, isB := boolConst(rv); isB {
				if isEmpty {
					nEmpty++
					if b {
						emptyOK = false
					}
				}
				if b {
					bad = "the validator accepts on a path that has not looked at the runes (return at " + w.ipos(ret) + ")"
				}
				return
			}
			if isEmpty {
				nEmpty++
				emptyOK = false // a computed result for the empty string: cannot tell
			}
			s, pv, none, ok := matchForm(w, rv, path, 0)
			if !ok || !none || rvAny(s) != ssa.Value(p) {
				bad = "the result is not \"no rune of the string satisfies the forbidden-rune predicate\" (return at " + w.ipos(ret) + ")"
				return
			}
			nTrue++
			if f, res := runePredicate(w, fn, pv); f != nil {
				predFn, resolve = f, res
			} else {
				bad = "the rune predicate is not a function literal the engine can see"
			}
		})
		inlineOK = savedInline
		if err != nil {
			r.Undecided("R3", spec.key+"#table", w.pos(fn.Pos()), err.Error())
			continue
		}
		if nTrue == 0 && bad == "" {
			bad = "no path computes the result from the runes of the string"
		}
		var table []rune
		okSpace, okMember := false, false
		if bad == "" && predFn != nil {
			var why string
			okSpace, table, okMember, why = c15Predicate(w, fn, predFn, resolve)
			if why != "" {
				bad = why
			}
		}
		has := func(q rune) bool {
			for _, t := range table {
				if t == q {
					return true
				}
			}
			return false
		}
		missing := ""
		for _, q := range spec.required {
			if !has(q) {
				missing += string(q)
			}
		}
		if missing != "" && bad == "" && okMember && has('@') && has('/') {
			r.Fail("R3", spec.key+"#table", w.pos(fn.Pos()), fmt.Sprintf("the forbidden-character table %q no longer contains %q: a part containing it is accepted", string(table), missing))
		} else {
			r.Check(bad == "" && okMember && has('@') && has('/'), "R3", spec.key+"#table", w.pos(fn.Pos()), fmt.Sprintf("the validator does not reject every string containing a rune of a table that includes '@' and '/' (%s; table %q, membership ⇒ rejected: %v)", bad, string(table), okMember), fmt.Sprintf("valid ⇔ no rune is whitespace or in %q", string(table)))
		}
		r.Check(bad == "" && okSpace, "R3", spec.key+"#space", w.pos(fn.Pos()), "whitespace is not rejected: "+bad, "unicode.IsSpace(c) ⇒ rejected")
		if spec.needLen0 {
			r.Check(nEmpty > 0 && emptyOK, "R3", spec.key+"#empty", w.pos(fn.Pos()), "an empty domain is not rejected", "false for the empty string")
		}
	}
}

// anyLoop: fn is a hand-written "does any rune of s satisfy P": it ranges over a string parameter, returns true from
// inside the loop and false when the string is exhausted. Returns the ranged parameter, the rune value of an iteration
// and the Next instruction.
type anyLoopInfo struct {
	s    *ssa.Parameter
	c    ssa.Value
	next *ssa.Next
}

func anyLoopOf(fn *ssa.Function) *anyLoopInfo {
	if fn == nil || fn.Blocks == nil {
		return nil
	}
	var info *anyLoopInfo
	n := 0
	allInstrs(fn, func(in ssa.Instruction) {
		nx, ok := in.(*ssa.Next)
		if !ok || !nx.IsString {
			return
		}
		n++
		rg, ok := nx.Iter.(*ssa.Range)
		if !ok {
			return
		}
		p, ok := rg.X.(*ssa.Parameter)
		if !ok {
			return
		}
		for _, rf := range *nx.Referrers() {
			if ex, ok := rf.(*ssa.Extract); ok && ex.Index == 2 {
				info = &anyLoopInfo{s: p, c: ex, next: nx}
			}
		}
	})
	if n != 1 || info == nil {
		return nil
	}
	// exhausted ⇒ false; the only other returns are `true` from inside the loop
	ok := true
	allInstrs(fn, func(in ssa.Instruction) {
		rt, isRet := in.(*ssa.Return)
		if !isRet || len(rt.Results) != 1 {
			return
		}
		if _, isC := boolConst(rt.Results[0]); !isC {
			ok = false
		}
	})
	if !ok {
		return nil
	}
	return info
}
