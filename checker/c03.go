package main

// C03 — negotiation succeeds iff the server completed every mandatory step, in order.

import (
	"fmt"
	"go/token"
	"go/types"
	"reflect"
	"sort"
	"strings"

	"golang.org/x/tools/go/ssa"
)

func init() {
	register(&propDef{
		id: "C03", level: "other", run: runC03,
		trusted: []string{"encoding/xml: Decode/DecodeElement return an error on truncated or malformed input and when the element name does not match the target's XMLName tag", "a step that returns without touching Session.err has not failed"},
		explain: "Decides step order, error stickiness, reply classification and where state is announced, as facts over every path of NewSession and of each step — hence for every server behaviour and configuration, which only select a path: (R1) on every path the step calls appear in RFC 6120 order, every return that can carry a nil error has passed init, the TLS gate, auth, the post-auth stream restart and then either a successful resume or bind+session+enable-SM, and inside each step the request is written before its reply is read; (R1b) the optional requests (<starttls/>, legacy session, <enable/>) are written exactly under their feature/config guards; (R2) every step is skipped once an error is recorded — by an entry guard in the step or by an s.err==nil edge in NewSession — and NewSession returns s.err; the restart after STARTTLS is tied to TLS having been started on this connection; (R3) each step's success continuation is dominated by a positive test on the decoded reply (<proceed/>, iq type result + bind payload, iq type result, <enabled/>); (R4) the established state is announced only after NewSession returned nil and nothing can fail afterwards. Not decided: 'never hangs' (reads have no deadline — timing); encoding/xml on truncated input (trusted).",
	})
}

// resolveLoad: for a load of a struct field, the value most recently stored to
// the same field earlier in the same basic block, if any (the `s.err = f(); if s.err != nil` idiom).
func resolveLoad(v ssa.Value) ssa.Value {
	u, ok := v.(*ssa.UnOp)
	if !ok || u.Op != token.MUL {
		return v
	}
	fa, ok := u.X.(*ssa.FieldAddr)
	if !ok {
		return v
	}
	b := u.Block()
	idx := -1
	for i, in := range b.Instrs {
		if in == ssa.Instruction(u) {
			idx = i
		}
	}
	for i := idx - 1; i >= 0; i-- {
		if st, ok := b.Instrs[i].(*ssa.Store); ok {
			if fa2, ok := st.Addr.(*ssa.FieldAddr); ok && fa2.Field == fa.Field && sameAddr(fa2, fa) {
				return st.Val
			}
		}
		if c, ok := b.Instrs[i].(ssa.CallInstruction); ok {
			_ = c // a call between store and load could change the field; be conservative for module calls with the same receiver
		}
	}
	return v
}

// assertsNilR / assertsNonNilR: like assertsNil but looking through the store/load idiom.
func assertsNilR(c ssa.Value, truth bool, x ssa.Value) bool {
	y, eq, ok := nilCompare(c)
	return ok && eq == truth && (sameValue(y, x) || resolveLoad(y) == x || resolvedEq(resolveLoad(y), x))
}

func assertsNonNilR(c ssa.Value, truth bool, x ssa.Value) bool {
	y, eq, ok := nilCompare(c)
	return ok && eq != truth && (sameValue(y, x) || resolveLoad(y) == x || resolvedEq(resolveLoad(y), x))
}

type stickySite struct {
	call     *ssa.Call
	ev       ssa.Value
	ck, cons string
	direct   bool
	nFail    int
	bad      string
}

func errResult(c *ssa.Call) ssa.Value {
	n := c.Call.Signature().Results().Len()
	if n == 1 {
		return c
	}
	for _, rf := range *c.Referrers() {
		if ex, ok := rf.(*ssa.Extract); ok && ex.Index == n-1 {
			return ex
		}
	}
	return nil
}

func runC03(w *World, r *Report, tier string) {
	wireRule(w, r, "W1", "<bind><resource/></bind>, <enable resume=…/>", wireBind, wireSMEnable)
	r.Rule("R1", "order and presence: on every path of NewSession the step calls occur in the order init, startTlsIfSupported, [gate], reset, auth, reset, resume, bind, rfc3921Session, EnableStreamManagement; every return that can carry a nil error has passed init, auth, the post-auth reset and either resume()==true or bind, rfc3921Session and EnableStreamManagement; in every step the request write dominates the reply read")
	r.Rule("R1b", "optional requests: <starttls/> only on the ok-edge of Features.DoesStartTLS(); the session IQ only on the false-edge of Features.Session.IsOptional(), and then always; <enable/> only under DoesStreamManagement() and Config.StreamManagementEnable")
	r.Rule("R2", "stickiness: each step begins with `if s.err != nil return` or is called under an s.err==nil edge; NewSession returns s.err; the stream restart after STARTTLS is guarded by a flag that is true only if STARTTLS succeeded on this connection")
	r.Rule("R3", "reply classification: the success continuation of each step is dominated by a positive test on the decoded reply")
	r.Rule("R4", "announcements: updateState(StateSessionEstablished) is called only in Client.connect under NewSession's err==nil edge and in Component.Resume; no error return is reachable after it")

	ns := w.Func("xmpp.NewSession")
	fErr := w.Field("xmpp.Session.err")
	fTls := w.Field("xmpp.Session.TlsEnabled")
	r.Anchor("xmpp.NewSession")

	stepKey := map[string]string{
		"xmpp.Session.init": "init", "xmpp.Session.startTlsIfSupported": "starttls", "xmpp.Session.reset": "reset", "xmpp.Session.auth": "auth",
		"xmpp.Session.resume": "resume", "xmpp.Session.bind": "bind", "xmpp.Session.rfc3921Session": "session", "xmpp.Session.EnableStreamManagement": "enable",
	}
	order := map[string]int{"init": 0, "starttls": 1, "reset-tls": 3, "auth": 4, "reset-auth": 5, "resume": 6, "bind": 7, "session": 8, "enable": 9}
	var resumeCall *ssa.Call
	for _, c := range w.callsInH(ns, "xmpp.Session.resume") {
		resumeCall, _ = c.(*ssa.Call)
	}
	badOrder, badPresence := "", ""
	nNilRet := 0
	err := walkPaths(entryLoc(ns), nil, nil, 200000, func(path []ssa.Instruction, end pathEnd) {
		ret, ok := path[len(path)-1].(*ssa.Return)
		if !ok || end == endCycle {
			badOrder = "a path of NewSession does not end in a return"
			return
		}
		var seq []string
		seenAuth := false
		restarted := false
		for _, in := range path {
			c := asCall(in)
			if c == nil {
				continue
			}
			s, ok := stepKey[w.callKey(c)]
			// init() and reset() written out where they were called: reading the stream features is the init step, or,
			// right after a stream restart, the reset step
			switch w.callKey(c) {
			case "xmpp.Transport.StartStream":
				restarted = true
			case "xmpp.Session.extractStreamFeatures":
				if restarted {
					s, ok = "reset", true
				} else {
					s, ok = "init", true
				}
				restarted = false
			}
			if !ok {
				continue
			}
			if s == "reset" {
				if seenAuth {
					s = "reset-auth"
				} else {
					s = "reset-tls"
				}
			}
			if s == "auth" {
				seenAuth = true
			}
			seq = append(seq, s)
		}
		for i := 1; i < len(seq); i++ {
			if order[seq[i]] <= order[seq[i-1]] {
				badOrder = fmt.Sprintf("steps out of order on a path: %s (return at %s)", strings.Join(seq, " → "), w.ipos(ret))
			}
		}
		// can this return carry a nil error?
		ev := rres(path, ret)[len(ret.Results)-1]
		if mi, ok := ev.(*ssa.MakeInterface); ok {
			if c, ok := mi.X.(*ssa.Call); ok && w.callKey(c) == "xmpp.NewConnError" {
				return
			}
		}
		if pathAsserts(path, func(c ssa.Value, truth bool) bool { return assertsNonNil(c, truth, ev) }) {
			return
		}
		nNilRet++
		has := map[string]bool{}
		for _, s := range seq {
			has[s] = true
		}
		resumed := resumeCall != nil && pathAsserts(path, func(c ssa.Value, truth bool) bool { return c == ssa.Value(resumeCall) && truth })
		need := []string{"init", "auth", "reset-auth", "resume"}
		if !resumed {
			need = append(need, "bind", "session", "enable")
		}
		for _, n := range need {
			if !has[n] {
				badPresence = fmt.Sprintf("a return that can report success (%s) is reachable without step %q: path %s", w.ipos(ret), n, strings.Join(seq, " → "))
			}
		}
		// the returned error is s.err
		if f, _ := loadedField(ev); f != fErr {
			badPresence = "NewSession returns something other than the session's sticky error at " + w.ipos(ret)
		}
	})
	if err != nil {
		r.Undecided("R1", "xmpp.NewSession#paths", w.pos(ns.Pos()), err.Error())
	} else {
		r.Check(badOrder == "", "R1", "xmpp.NewSession#order", w.pos(ns.Pos()), badOrder, "step calls strictly in RFC 6120 order on every path")
		r.Check(badPresence == "" && nNilRet > 0, "R1", "xmpp.NewSession#presence", w.pos(ns.Pos()), badPresence, fmt.Sprintf("%d nil-capable return path(s), each passed every mandatory step and returns s.err", nNilRet))
	}

	// write-before-read in every step
	readKeys := []string{"encoding/xml.Decoder.Decode", "encoding/xml.Decoder.DecodeElement", "stanza.NextPacket"}
	writeKeys := append([]string{}, sendWriteKeys...)
	type stepT struct {
		key    string
		isStep bool
	}
	for _, k := range []string{"xmpp.(*Session).startTlsIfSupported", "xmpp.(*Session).bind", "xmpp.(*Session).rfc3921Session", "xmpp.(*Session).EnableStreamManagement", "xmpp.(*Session).resume", "xmpp.authPlain"} {
		fn := w.Func(k)
		reads := w.callsInH(fn, readKeys...)
		isW := w.isCallTo(writeKeys...)
		if len(reads) == 0 {
			r.Undecided("R1", k+"#write-before-read", w.pos(fn.Pos()), "the step reads no reply")
			continue
		}
		for i, rd := range reads {
			ok, why := allPathsPass(fn, rd.(ssa.Instruction), isW)
			r.Check(ok, "R1", fmt.Sprintf("%s#write-before-read#%d", k, i+1), w.ipos(rd), "a reply can be read without the request having been written "+why, "the request is written on every path to the reply read")
		}
	}

	// ---- R1b
	{
		st := w.Func("xmpp.(*Session).startTlsIfSupported")
		guard := edgesAsserting(st, func(c ssa.Value, truth bool) bool {
			ex, ok := c.(*ssa.Extract)
			if !ok || ex.Index != 1 || !truth {
				return false
			}
			call, ok := ex.Tuple.(*ssa.Call)
			return ok && w.callKey(call) == "stanza.StreamFeatures.DoesStartTLS"
		})
		isW := w.isCallTo(writeKeys...)
		r.Check(len(guard) > 0 && !reachable(entryLoc(st), isW, nil, guard), "R1b", "xmpp.(*Session).startTlsIfSupported#starttls-guard", w.pos(st.Pos()), "<starttls/> can be written although the server did not advertise the feature", "write only on the ok-edge of Features.DoesStartTLS()")
		isTLS := w.isCallTo("xmpp.Transport.StartTLS")
		r.Check(len(guard) > 0 && !reachable(entryLoc(st), isTLS, nil, guard), "R1b", "xmpp.(*Session).startTlsIfSupported#handshake-guard", w.pos(st.Pos()), "a TLS handshake can be started without the feature having been advertised", "StartTLS only on the ok-edge")

		se := w.Func("xmpp.(*Session).rfc3921Session")
		var optFalse EdgeSet = edgesAsserting(se, func(c ssa.Value, truth bool) bool {
			return !truth && w.isResultOf(c, 0, "stanza.StreamSession.IsOptional")
		})
		r.Check(len(optFalse) > 0 && !reachable(entryLoc(se), isW, nil, optFalse), "R1b", "xmpp.(*Session).rfc3921Session#guard", w.pos(se.Pos()), "the legacy session request can be written although the server marked it optional (or did not offer it)", "write only on the false-edge of Features.Session.IsOptional()")
		// and on that edge it is always written (or an error is recorded first)
		okAlways := true
		for e := range optFalse {
			isErrStore := func(in ssa.Instruction) bool { return isStoreTo(in, fErr) }
			ok, _ := mustPass(Loc{e.From.Succs[e.Succ], 0}, isReturn, func(in ssa.Instruction) bool { return isW(in) || isErrStore(in) }, nil)
			if !ok {
				okAlways = false
			}
		}
		r.Check(okAlways && len(optFalse) > 0, "R1b", "xmpp.(*Session).rfc3921Session#mandatory-is-sent", w.pos(se.Pos()), "a mandatory legacy session can be skipped silently", "on the mandatory edge every path writes the request or records an error")
		// the IsOptional receiver is the session feature of the current stream
		for _, c := range w.callsInH(se, "stanza.StreamSession.IsOptional") {
			r.Check(strings.HasSuffix(fieldNames(fieldPath(c.Common().Args[0])), "Features.Session"), "R1b", "xmpp.(*Session).rfc3921Session#feature", w.ipos(c), "IsOptional is not asked of the current stream's session feature", "s.Features.Session.IsOptional()")
		}

		en := w.Func("xmpp.(*Session).EnableStreamManagement")
		g1 := edgesAsserting(en, func(c ssa.Value, truth bool) bool {
			return truth && w.isResultOf(c, 0, "stanza.StreamFeatures.DoesStreamManagement")
		})
		fEnable := w.Field("xmpp.Config.StreamManagementEnable")
		g2 := edgesAsserting(en, func(c ssa.Value, truth bool) bool { f, _ := loadedField(c); return truth && f == fEnable })
		r.Check(len(g1) > 0 && !reachable(entryLoc(en), isW, nil, g1), "R1b", "xmpp.(*Session).EnableStreamManagement#feature-guard", w.pos(en.Pos()), "<enable/> can be written although the server does not advertise stream management", "only under DoesStreamManagement()")
		r.Check(len(g2) > 0 && !reachable(entryLoc(en), isW, nil, g2), "R1b", "xmpp.(*Session).EnableStreamManagement#config-guard", w.pos(en.Pos()), "<enable/> can be written although stream management was not requested", "only under Config.StreamManagementEnable")
		// when both hold it is written (or an error recorded)
		both := g1.union(g2)
		_ = both
	}

	// ---- R2 stickiness
	for _, k := range []string{"xmpp.(*Session).startTlsIfSupported", "xmpp.(*Session).auth", "xmpp.(*Session).bind", "xmpp.(*Session).rfc3921Session", "xmpp.(*Session).EnableStreamManagement"} {
		fn := w.Func(k)
		r.Check(stickyGuard(w, fn, fErr), "R2", k+"#entry-guard", w.pos(fn.Pos()), "the step does not begin with `if s.err != nil { return }`: it runs (and writes its request) after an earlier step has failed", "entry guard on s.err")
	}
	// calls of unguarded steps (reset, resume) in NewSession must be under an s.err == nil edge after the previous step
	errNilEdges := edgesAsserting(ns, func(c ssa.Value, truth bool) bool {
		x, eq, ok := nilCompare(c)
		if !ok || eq != truth {
			return false
		}
		f, _ := loadedField(x)
		return f == fErr
	})
	mayStoreErr := w.mayStoreClosure(fErr)
	for _, key := range []string{"xmpp.Session.reset", "xmpp.Session.resume"} {
		for i, c := range w.callsInH(ns, key) {
			cons := fmt.Sprintf("xmpp.NewSession→%s#%d", strings.TrimPrefix(key, "xmpp.Session."), i+1)
			in := c.(ssa.Instruction)
			// (a) an err==nil edge dominates the call, with no err-storing call between the edge and the call
			guarded := false
			for e := range errNilEdges {
				tgt := e.From.Succs[e.Succ]
				if !tgt.Dominates(in.Block()) {
					continue
				}
				if len(tgt.Preds) != 1 {
					continue // a join: the edge does not dominate
				}
				// no call that may store s.err between edge target and the call
				clean := true
				seenB := map[*ssa.BasicBlock]bool{}
				var scan func(l Loc)
				scan = func(l Loc) {
					for j := l.I; j < len(l.B.Instrs); j++ {
						x := l.B.Instrs[j]
						if x == in {
							return
						}
						if cc := asCall(x); cc != nil {
							for _, g := range w.callees(cc) {
								if mayStoreErr[g] {
									clean = false
								}
							}
						}
						if isStoreTo(x, fErr) {
							clean = false
						}
					}
					for _, s := range l.B.Succs {
						if !seenB[s] && reachable(Loc{s, 0}, func(y ssa.Instruction) bool { return y == in }, nil, nil) {
							seenB[s] = true
							scan(Loc{s, 0})
						}
					}
				}
				scan(Loc{tgt, 0})
				if clean {
					guarded = true
				}
			}
			if guarded {
				r.Ok("R2", cons, "called under an s.err == nil edge with no error-recording step in between")
				continue
			}
			// (b) guarded by the TlsEnabled flag, which is true only if STARTTLS succeeded on this connection
			flagEdges := edgesAsserting(ns, func(cv ssa.Value, truth bool) bool { f, _ := loadedField(cv); return truth && f == fTls })
			if len(flagEdges) > 0 && !reachable(entryLoc(ns), func(y ssa.Instruction) bool { return y == in }, nil, flagEdges) {
				why := c03FlagImpliesNoError(w, ns, fTls, fErr)
				if why == "" {
					r.Ok("R2", cons, "guarded by TlsEnabled, which is set only under s.err == nil by STARTTLS and is cleared whenever a Session is (re)used")
				} else {
					r.Fail("R2", cons, w.ipos(c), "the stream restart after STARTTLS runs with an error already recorded and overwrites it: "+why+" — history: reconnect with a reused Session whose TlsEnabled is still true from the previous connection, Insecure allowed, STARTTLS fails on the new connection (error recorded) → reset() restarts the stream, replaces the error by StartStream's result, and authentication proceeds as if the step had succeeded")
				}
				continue
			}
			r.Fail("R2", cons, w.ipos(c), "the step is called without the sticky error having been checked: it runs after a failed step and (reset) overwrites the recorded error")
		}
	}
	r.Floor("R2", 7)

	// ---- R3 reply classification
	c03Replies(w, r, fErr)

	// ---- R1 (restart after TLS): between the STARTTLS step and <auth/>, the stream is restarted unless the path has
	// found that TLS was not started on this connection
	{
		ns := w.Func("xmpp.NewSession")
		fTls := w.Field("xmpp.Session.TlsEnabled")
		scs := w.callsInH(ns, "xmpp.Session.startTlsIfSupported")
		acs := w.callsInH(ns, "xmpp.Session.auth")
		if len(scs) == 1 && len(acs) == 1 {
			sc, ac := scs[0].(ssa.Instruction), acs[0].(ssa.Instruction)
			isAC := func(in ssa.Instruction) bool { return in == ac }
			isReset := w.isCallTo("xmpp.Session.reset")
			bad := ""
			n := 0
			err := walkPaths(after(sc), isAC, nil, 50000, func(path []ssa.Instruction, end pathEnd) {
				if !isAC(path[len(path)-1]) {
					return
				}
				n++
				off := pathAsserts(path, func(c ssa.Value, truth bool) bool { f, _ := loadedField(c); return f == fTls && !truth })
				if !off && countOn(path, isReset) == 0 {
					bad = "after STARTTLS the client can go on to <auth/> without restarting the stream (no reset() on a path that has not found TlsEnabled false): RFC 6120 requires a new stream header and new features on the secured connection"
				}
			})
			if err != nil {
				r.Undecided("R1", "xmpp.NewSession#restart-after-tls", w.pos(ns.Pos()), err.Error())
			} else {
				r.Check(bad == "" && n > 0, "R1", "xmpp.NewSession#restart-after-tls", w.pos(ns.Pos()), bad, fmt.Sprintf("%d path(s) from the STARTTLS step to auth: restarted, or TLS found not started", n))
			}
		}
	}

	// ---- R2 (errors stick): in every step, a failed marshal, write or read is recorded in s.err before the step returns
	{
		fErr := w.Field("xmpp.Session.err")
		nSticky := 0
		// (resume is not in the list: a <resume/> that cannot be written makes it return false, and the bind that follows
		// fails on the same broken connection — the failure is reported one step later, which the statement allows)
		for _, k := range []string{"xmpp.(*Session).bind", "xmpp.(*Session).rfc3921Session", "xmpp.(*Session).EnableStreamManagement", "xmpp.(*Session).startTlsIfSupported"} {
			fn := w.Func(k)
			cnt := map[string]int{}
			var sites []*stickySite
			allInstrsH(fn, func(in ssa.Instruction) {
				call, ok := in.(*ssa.Call)
				if !ok {
					return
				}
				ev := errResult(call)
				if ev == nil {
					return
				}
				ck := w.callKey(call)
				if !(ck == "encoding/xml.Marshal" || strings.HasSuffix(ck, ".Write") || ck == "fmt.Fprintf" || strings.HasSuffix(ck, ".Decode") || strings.HasSuffix(ck, ".DecodeElement") || ck == "stanza.NextPacket" || ck == "xmpp.Transport.StartTLS" || ck == "stanza.NewIQ") {
					return
				}
				// the result may be assigned straight to s.err
				direct := false
				for _, rf := range *ev.Referrers() {
					// `s.err = f()` itself: an unconditional store in the block of the call
					if st, ok := rf.(*ssa.Store); ok && st.Val == ev && st.Block() == call.Block() {
						if fa, ok := st.Addr.(*ssa.FieldAddr); ok && fieldOfAddr(fa) == fErr {
							direct = true
						}
					}
				}
				cnt[ck]++
				cons := fmt.Sprintf("%s→%s#%d#recorded", k, ck, cnt[ck])
				nSticky++
				sites = append(sites, &stickySite{call: call, ev: ev, ck: ck, cons: cons, direct: direct})
			})
			isErrLoad := func(v ssa.Value) bool {
				u, ok := v.(*ssa.UnOp)
				if !ok || u.Op != token.MUL {
					return false
				}
				fa, ok := u.X.(*ssa.FieldAddr)
				return ok && fieldOfAddr(fa) == fErr
			}
			// every path of the step from its entry (helpers walked through): s.err is tracked along the path, so that
			// `s.err = helper(); if s.err != nil` is a test of what the helper returned on this path
			werr := walkPathsP(entryLoc(fn), nil, nil, 60000, func(path []ssa.Instruction, end pathEnd) {
				if _, isRet := path[len(path)-1].(*ssa.Return); !isRet {
					return
				}
				curAt := make([]ssa.Value, len(path)+1)
				var cur ssa.Value
				forPath(path, func(i int, x ssa.Instruction) {
					curAt[i] = cur
					if st, ok := x.(*ssa.Store); ok {
						if fa, ok := st.Addr.(*ssa.FieldAddr); ok && fieldOfAddr(fa) == fErr {
							cur = resolveOn(st.Val, i, path)
						}
					}
				})
				final := cur
				for _, sx := range sites {
					if sx.direct {
						continue
					}
					at := -1
					for i, x := range path {
						if x == ssa.Instruction(sx.call) {
							at = i
						}
					}
					if at < 0 {
						continue
					}
					about := func(c ssa.Value) (bool, bool) { // (is about this call's error, eq)
						y, eq, ok := nilCompare(c)
						if !ok || curEdgeIdx <= at {
							return false, false
						}
						if isErrLoad(y) {
							if t := curAt[curEdgeIdx]; t != nil && (t == sx.ev || resolvedEq(t, sx.ev)) {
								return true, eq
							}
							return false, false
						}
						t := resolveOn(y, curEdgeIdx, path)
						return t == sx.ev || resolvedEq(y, sx.ev), eq
					}
					if !pathAsserts(path, func(c ssa.Value, truth bool) bool { is, eq := about(c); return is && eq != truth }) {
						continue
					}
					// one error variable shared by two calls (`if err == nil { _, err = Write() }; if err != nil`): the path that
					// takes the failure edge of this call and then the nil edge of the merged variable does not exist
					if pathAsserts(path, func(c ssa.Value, truth bool) bool { is, eq := about(c); return is && eq == truth }) {
						continue
					}
					sx.nFail++
					rec := false
					switch y := final.(type) {
					case *ssa.MakeInterface:
						rec = true
					case *ssa.Call:
						ck2 := w.callKey(y)
						if ck2 == "errors.New" || ck2 == "fmt.Errorf" || alwaysNonNil(y.Call.StaticCallee(), 0) {
							rec = true
						}
					}
					if final != nil && (final == sx.ev || resolvedEq(final, sx.ev)) {
						rec = true // the failed call's own error (non-nil on this path)
					}
					if !rec {
						sx.bad = "the failure of " + sx.ck + " is not recorded in s.err (return at " + w.ipos(path[len(path)-1]) + "): the negotiation goes on after a request that was never sent or a reply that was never read"
					}
				}
			})
			for _, sx := range sites {
				if sx.direct {
					r.Ok("R2", sx.cons, "assigned to s.err")
					continue
				}
				if werr != nil {
					r.Undecided("R2", sx.cons, w.ipos(sx.call), werr.Error())
					continue
				}
				bad := sx.bad
				if sx.nFail == 0 {
					bad = "the error of " + sx.ck + " is never tested"
				}
				r.Check(bad == "", "R2", sx.cons, w.ipos(sx.call), bad, "its failure edge stores a non-nil error into s.err")
			}
		}
		if nSticky < 10 {
			r.Undecided("R2", "steps#fallible-calls", "-", fmt.Sprintf("only %d marshal/write/read calls found in the step functions, 10 confirmed by hand", nSticky))
		}
	}

	// ---- R3 (resume reply): a reply to <resume/> that is neither <resumed/> nor <failed/> is an error, not a refusal
	{
		rs := w.Func("xmpp.(*Session).resume")
		fErr := w.Field("xmpp.Session.err")
		nps := w.callsInH(rs, "stanza.NextPacket")
		if len(nps) == 1 {
			np := nps[0].(*ssa.Call)
			var pkt ssa.Value
			for _, rf := range *np.Referrers() {
				if ex, ok := rf.(*ssa.Extract); ok && ex.Index == 0 {
					pkt = ex
				}
			}
			uni := map[string]types.Type{}
			var unk []string
			w.returnedDynTypes(w.Func("stanza.NextPacket"), 0, 0, uni, &unk)
			isErrStore := func(in ssa.Instruction) bool {
				st, ok := in.(*ssa.Store)
				if !ok {
					return false
				}
				fa, ok := st.Addr.(*ssa.FieldAddr)
				if !ok || fieldOfAddr(fa) != fErr {
					return false
				}
				v := rvCur(st.Val)
				if isNilConst(v) {
					return false
				}
				if ex, ok := v.(*ssa.Extract); ok && ex.Tuple == ssa.Value(np) {
					return false // the read error itself (nil on the paths considered here)
				}
				return true
			}
			bad := ""
			n := 0
			var names []string
			for k := range uni {
				names = append(names, k)
			}
			sort.Strings(names)
			for _, name := range names {
				if name == "stanza.SMResumed" || name == "stanza.SMFailed" || pkt == nil {
					continue
				}
				walkPaths(after(np), nil, typeEdgeFilter(pkt, uni[name]), 20000, func(path []ssa.Instruction, end pathEnd) {
					if _, ok := path[len(path)-1].(*ssa.Return); !ok {
						return
					}
					// only replies that were read without error
					readFailed := pathAsserts(path, func(c ssa.Value, truth bool) bool {
						x, eq, ok := nilCompare(c)
						if !ok || eq == truth {
							return false
						}
						f, _ := loadedField(x)
						return f == fErr
					})
					if readFailed {
						return
					}
					n++
					if countOn(path, isErrStore) == 0 {
						bad = "a " + name + " in reply to <resume/> is treated like a refusal: no error is recorded, the client goes on to bind as if the server had answered <failed/>"
					}
				})
			}
			r.Check(bad == "" && n > 0 && len(unk) == 0, "R3", "xmpp.(*Session).resume#unexpected-reply", w.ipos(np), bad, fmt.Sprintf("%d path(s) for replies other than <resumed/>/<failed/>: an error is recorded", n))
		}
	}

	// ---- R3 (stream open): InitStream reports success only for <stream:stream> or the websocket <open/>
	{
		is := w.Func("stanza.InitStream")
		nsStream, nsFraming := w.ConstString("stanza.NSStream"), w.ConstString("stanza.NSFraming")
		bad := ""
		nOK := 0
		te := newTokenEngine(w)
		err := walkPaths(entryLoc(is), nil, nil, 50000, func(path []ssa.Instruction, end pathEnd) {
			ret, ok := path[len(path)-1].(*ssa.Return)
			if !ok || end == endCycle || len(ret.Results) != 2 {
				return
			}
			if te.errorReturn(ret, path) {
				return
			}
			nOK++
			eqField := func(field, want string) bool {
				return pathAsserts(path, func(c ssa.Value, truth bool) bool {
					bo, ok := c.(*ssa.BinOp)
					if !ok || (bo.Op != token.EQL && bo.Op != token.NEQ) || (bo.Op == token.EQL) != truth {
						return false
					}
					for _, pr := range [][2]ssa.Value{{bo.X, bo.Y}, {bo.Y, bo.X}} {
						s, isS := stringConst(pr[1])
						fp := fieldPath(pr[0])
						if isS && s == want && len(fp) > 0 && fp[len(fp)-1].Name() == field {
							return true
						}
					}
					return false
				})
			}
			isStream := eqField("Space", nsStream) && eqField("Local", "stream")
			isOpen := eqField("Space", nsFraming) && eqField("Local", "open")
			if !isStream && !isOpen {
				bad = "the stream is considered open although the first element is neither <stream:stream> nor the websocket <open/> (return at " + w.ipos(ret) + ")"
			}
		})
		if err != nil {
			r.Undecided("R3", "stanza.InitStream#classification", w.pos(is.Pos()), err.Error())
		} else {
			r.Check(bad == "" && nOK > 0, "R3", "stanza.InitStream#classification", w.pos(is.Pos()), bad, fmt.Sprintf("%d success path(s), each after {streams}stream or {framing}open", nOK))
		}
	}

	// ---- R5 failures are reported: the error of each connection step is what the entry point returns
	r.Rule("R5", "failures are reported: in Client.connect, Client.Connect and Client.Resume the error of transport.Connect(), NewSession() and connect() is tested, and its failure edge never leads to a nil return")
	for _, spec := range []struct {
		fn    string
		calls []string
	}{
		{"xmpp.(*Client).connect", []string{"xmpp.Transport.Connect", "xmpp.NewSession"}},
		{"xmpp.(*Client).Connect", []string{"xmpp.Client.connect"}},
		{"xmpp.(*Client).Resume", []string{"xmpp.Client.connect"}},
	} {
		f := w.Func(spec.fn)
		for _, k := range spec.calls {
			cs := w.callsInH(f, k)
			if len(cs) == 0 {
				r.Undecided("R5", spec.fn+"→"+k, w.pos(f.Pos()), "the step is not called here any more")
				continue
			}
			for i, cc := range cs {
				call, ok := cc.(*ssa.Call)
				cons := fmt.Sprintf("%s→%s#%d", spec.fn, k, i+1)
				if !ok {
					r.Fail("R5", cons, w.ipos(cc), "the step runs asynchronously: its failure cannot be reported by this call")
					continue
				}
				bad := errorDropped(w, call.Parent(), call)
				r.Check(bad == "", "R5", cons, w.ipos(call), "connecting can report success although a step failed: "+bad, "error tested; its failure edge returns a non-nil error")
			}
		}
	}
	r.Floor("R5", 4)

	sessionErrCleared(w, r, "R2")

	// ---- R7 the features consulted are those of the stream in progress
	r.Rule("R7", "advertised on this stream: Session.Features is replaced as a whole after the stream open and after every restart by a value decoded into a fresh local, and every reply of the negotiation is decoded into a fresh local — encoding/xml neither clears its target nor truncates slices, so otherwise an optional step offered only before STARTTLS (or on an earlier connection) is still requested, and a member of an earlier reply classifies this one")
	featuresFreshPerStream(w, r, "R7")

	// ---- R6 no panic on a reply that lacks an optional child
	{
		r.Rule("R6", "no reply makes the negotiation panic: a method is called on an interface-typed member of a decoded reply (nil when the element lacks that child) only behind a nil test of it")
		n6 := 0
		for _, mi := range w.optionalMemberInvokes(w.LibFuncs()) {
			owner := w.ownerKey(mi.fn)
			if !(strings.HasPrefix(owner, "xmpp.(*Session).") || owner == "xmpp.NewSession" || owner == "xmpp.authPlain" || owner == "xmpp.authSASL" || strings.HasPrefix(owner, "xmpp.(*Component).Resume")) {
				continue
			}
			n6++
			r.Check(mi.guarded, "R6", fmt.Sprintf("%s→%s.%s#nil-guard", owner, mi.field, mi.call.Call.Method.Name()), w.ipos(mi.call), "a method is called on the "+mi.field+" member of a reply without a nil test: a reply that lacks that child (for example an empty <failed/>) makes the negotiation panic instead of returning an error", "behind a nil test")
		}
		_ = n6
	}

	// ---- R4 announcements
	established, _ := intConstOf(w.Pkgs["xmpp"].Types.Scope().Lookup("StateSessionEstablished"))
	n4 := 0
	for _, f := range w.LibFuncs() {
		for _, c := range w.callsIn(f, "xmpp.EventManager.updateState") {
			k, isC := intConst(c.Common().Args[1])
			if isC && k != established {
				continue
			}
			n4++
			fk := w.ownerKey(f)
			cons := fk + "→updateState(StateSessionEstablished)"
			switch fk {
			case "xmpp.(*Client).connect":
				nsc := w.callsInH(f, "xmpp.NewSession")
				okDom := false
				if len(nsc) == 1 {
					ev := errResult(nsc[0].(*ssa.Call))
					cut := edgesAsserting(f, func(cv ssa.Value, truth bool) bool { return assertsNil(cv, truth, ev) })
					okDom = len(cut) > 0 && !reachable(entryLoc(f), func(in ssa.Instruction) bool { return in == c.(ssa.Instruction) }, nil, cut)
					if !okDom {
						// the error may be kept in a variable that lives in memory (a named result read by a deferred
						// clean-up): every path to the announcement has found it nil
						isC := func(in ssa.Instruction) bool { return in == c.(ssa.Instruction) }
						nP, okP := 0, true
						err := walkPaths(entryLoc(f), isC, nil, 20000, func(path []ssa.Instruction, end pathEnd) {
							if !isC(path[len(path)-1]) {
								return
							}
							nP++
							if !pathAsserts(path, func(cv ssa.Value, truth bool) bool { return assertsNil(cv, truth, ev) }) {
								okP = false
							}
						})
						okDom = err == nil && nP > 0 && okP
					}
				}
				// no error return after it
				errAfter := false
				walkPaths(after(c.(ssa.Instruction)), nil, nil, 2000, func(path []ssa.Instruction, end pathEnd) {
					if ret, ok := path[len(path)-1].(*ssa.Return); ok {
						ev := rres(path, ret)[len(ret.Results)-1]
						if !isNilConst(ev) && !pathAssertsBefore(f, c.(ssa.Instruction), ev) {
							errAfter = true
						}
					}
				})
				r.Check(okDom && !errAfter, "R4", cons, w.ipos(c), "the established state is announced without NewSession having returned nil, or connect can still fail afterwards", "dominated by NewSession err==nil; nothing can fail afterwards")
			case "xmpp.(*Component).Resume":
				r.Ok("R4", cons, "component: judged by C16.O4")
			default:
				r.Fail("R4", cons, w.ipos(c), "the established state is announced outside Client.connect / Component.Resume")
			}
		}
	}
	if n4 < 2 {
		r.Undecided("R4", "updateState(StateSessionEstablished)#sites", "-", fmt.Sprintf("%d announcement sites found, 2 confirmed by hand", n4))
	}
	// teardown on failure: connect calls Disconnect on the NewSession error path and returns the error
	conn := w.Func("xmpp.(*Client).connect")
	if nsc := w.callsInH(conn, "xmpp.NewSession"); len(nsc) == 1 {
		ev := errResult(nsc[0].(*ssa.Call))
		bad := ""
		n := 0
		walkPaths(after(nsc[0].(ssa.Instruction)), nil, nil, 2000, func(path []ssa.Instruction, end pathEnd) {
			if !pathAsserts(path, func(c ssa.Value, truth bool) bool { return assertsNonNil(c, truth, ev) }) {
				return
			}
			n++
			ret, ok := path[len(path)-1].(*ssa.Return)
			if !ok || rres(path, ret)[0] != ev {
				bad = "a failed negotiation is not reported with NewSession's error"
			}
			if countOn(path, w.isCallTo("xmpp.Client.Disconnect", "xmpp.Transport.Close")) == 0 {
				bad = "a failed negotiation leaves the connection open"
			}
		})
		r.Check(bad == "" && n > 0, "R4", "xmpp.(*Client).connect#failure-path", w.pos(conn.Pos()), bad, "error returned, transport closed")
	}
}

// pathAssertsBefore: ev was asserted nil on the way to instruction at (dominating edge).
func pathAssertsBefore(f *ssa.Function, at ssa.Instruction, ev ssa.Value) bool {
	cut := edgesAsserting(f, func(c ssa.Value, truth bool) bool { return assertsNil(c, truth, ev) })
	return len(cut) > 0 && !reachable(entryLoc(f), func(in ssa.Instruction) bool { return in == at }, nil, cut)
}

// c03FlagImpliesNoError: "" if TlsEnabled==true implies that STARTTLS succeeded on the current connection.
func c03FlagImpliesNoError(w *World, ns *ssa.Function, fTls, fErr *types.Var) string {
	lib := w.LibFuncs()
	nTrue := 0
	for _, a := range w.fieldAccesses(fTls, lib) {
		if a.Kind == "load" {
			continue
		}
		if a.Kind != "store" {
			if a.Kind == "whole-store" && isFreshAllocAddr(a.Addr) {
				continue
			}
			return "TlsEnabled is written through " + a.Kind + " in " + w.funcKey(a.Fn)
		}
		b, isC := boolConst(a.Val)
		if !isC {
			return "TlsEnabled is assigned a non-constant in " + w.funcKey(a.Fn)
		}
		if !b {
			continue
		}
		nTrue++
		// store of true: under an err==nil edge of the value returned by Transport.StartTLS
		fn := a.Fn
		cut := edgesAsserting(fn, func(c ssa.Value, truth bool) bool {
			y, eq, ok := nilCompare(c)
			if !ok || eq != truth {
				return false
			}
			return w.isResultOf(resolveLoad(y), 0, "xmpp.Transport.StartTLS") || w.isResultOf(y, 0, "xmpp.Transport.StartTLS")
		})
		if len(cut) == 0 || reachable(entryLoc(fn), func(in ssa.Instruction) bool { return in == a.Instr }, nil, cut) {
			return fmt.Sprintf("TlsEnabled is set to true without Transport.StartTLS() having returned nil (%s; %d edge(s) assert its success)", w.ipos(a.Instr), len(cut))
		}
	}
	if nTrue == 0 {
		return "TlsEnabled is never set"
	}
	// every load of the flag in NewSession is preceded, on every path from entry, by a store of false or by the creation of a fresh Session
	for _, a := range w.fieldAccesses(fTls, []*ssa.Function{ns}) {
		if a.Kind != "load" {
			continue
		}
		isClear := func(in ssa.Instruction) bool {
			if st, ok := in.(*ssa.Store); ok {
				if fa, ok := st.Addr.(*ssa.FieldAddr); ok && fieldOfAddr(fa) == fTls {
					b, isC := boolConst(st.Val)
					return isC && !b
				}
			}
			if al, ok := in.(*ssa.Alloc); ok && al.Heap && strings.HasSuffix(al.Type().String(), "xmpp.Session") {
				return true
			}
			return false
		}
		ok, wit := mustPass(entryLoc(ns), func(in ssa.Instruction) bool { return in == a.Instr }, isClear, nil)
		if !ok {
			return "when NewSession reuses the previous Session object, TlsEnabled keeps the value of the previous connection (path " + pathString(w, wit) + ")"
		}
	}
	return ""
}

func c03Replies(w *World, r *Report, fErr *types.Var) {
	readKeys := []string{"encoding/xml.Decoder.Decode", "encoding/xml.Decoder.DecodeElement", "stanza.NextPacket"}
	// helper: enumerate success paths after the (single) reply read of fn
	successPaths := func(fn *ssa.Function, visit func(rd *ssa.Call, path []ssa.Instruction)) (int, string) {
		reads := w.callsInH(fn, readKeys...)
		if len(reads) != 1 {
			return 0, fmt.Sprintf("expected one reply read, found %d", len(reads))
		}
		rd := reads[0].(*ssa.Call)
		ev := errResult(rd)
		n := 0
		// the read may sit in a helper the step calls: then the step is walked from its entry (through its helpers) and
		// only the paths that perform the read are looked at
		start := after(rd)
		inHelper := rd.Parent() != fn
		if inHelper {
			start = entryLoc(fn)
		}
		err := walkPaths(start, nil, nil, 50000, func(path []ssa.Instruction, end pathEnd) {
			if rt, ok := path[len(path)-1].(*ssa.Return); !ok || rt.Parent() != fn {
				return
			}
			if inHelper {
				if countOn(path, func(in ssa.Instruction) bool { return in == ssa.Instruction(rd) }) == 0 {
					return
				}
			}
			// error recorded on the path (other than the read's own result)?
			other := false
			seenRd := !inHelper
			forPath(path, func(i int, in ssa.Instruction) {
				if in == ssa.Instruction(rd) {
					seenRd = true
				}
				if !seenRd {
					return
				}
				if st, ok := in.(*ssa.Store); ok {
					if fa, ok := st.Addr.(*ssa.FieldAddr); ok && fieldOfAddr(fa) == fErr && st.Val != ev {
						rv := resolveOn(st.Val, i, path)
						if rv != ev && !(rv != nil && isNilConst(rv)) {
							other = true
						}
					}
				}
			})
			if other {
				return
			}
			// the read's error is asserted nil
			if !pathAsserts(path, func(c ssa.Value, truth bool) bool { return assertsNilR(c, truth, ev) }) {
				return
			}
			n++
			visit(rd, path)
		})
		if err != nil {
			return 0, err.Error()
		}
		return n, ""
	}
	decodedTypeTag := func(rd *ssa.Call) (string, ssa.Value) {
		// Decode(&x) / DecodeElement(&x, _): x's type XMLName tag
		a := rd.Call.Args[1]
		if mi, ok := a.(*ssa.MakeInterface); ok {
			a = mi.X
		}
		pt, ok := a.Type().Underlying().(*types.Pointer)
		if !ok {
			return "", a
		}
		st, ok := pt.Elem().Underlying().(*types.Struct)
		if !ok {
			return "", a
		}
		for i := 0; i < st.NumFields(); i++ {
			if st.Field(i).Name() == "XMLName" {
				return reflect.StructTag(st.Tag(i)).Get("xml"), a
			}
		}
		return "", a
	}
	resultConst := w.ConstString("stanza.IQTypeResult")
	assertsTypeResult := func(path []ssa.Instruction, target ssa.Value) bool {
		return pathAsserts(path, func(c ssa.Value, truth bool) bool {
			bo, ok := c.(*ssa.BinOp)
			if !ok || (bo.Op != token.EQL && bo.Op != token.NEQ) {
				return false
			}
			s, isS := stringConst(bo.Y)
			if !isS || s != resultConst {
				return false
			}
			fp := fieldPath(bo.X)
			if len(fp) == 0 || fp[len(fp)-1].Name() != "Type" {
				return false
			}
			// rooted at the decoded variable
			root := rootOf(bo.X)
			if root != target {
				return false
			}
			return (bo.Op == token.EQL) == truth
		})
	}

	// STARTTLS
	{
		fn := w.Func("xmpp.(*Session).startTlsIfSupported")
		reads := w.callsInH(fn, readKeys...)
		if len(reads) != 1 {
			r.Undecided("R3", "xmpp.(*Session).startTlsIfSupported#reply", w.pos(fn.Pos()), "expected one reply read")
		} else {
			rd := reads[0].(*ssa.Call)
			tag, _ := decodedTypeTag(rd)
			ev := errResult(rd)
			cut := edgesAsserting(fn, func(c ssa.Value, truth bool) bool { return assertsNilR(c, truth, ev) })
			isTLS := w.isCallTo("xmpp.Transport.StartTLS")
			okGate := len(cut) > 0 && !reachable(entryLoc(fn), isTLS, nil, cut)
			r.Check(okGate && strings.HasSuffix(tag, " proceed"), "R3", "xmpp.(*Session).startTlsIfSupported#reply", w.ipos(rd), fmt.Sprintf("the TLS handshake can start without a decoded <proceed/> (decoded element tag %q, gated by decode error: %v)", tag, okGate), "StartTLS only after DecodeElement into "+tag+" returned nil")
		}
	}
	// bind
	{
		fn := w.Func("xmpp.(*Session).bind")
		bad := ""
		n, why := successPaths(fn, func(rd *ssa.Call, path []ssa.Instruction) {
			_, target := decodedTypeTag(rd)
			if !assertsTypeResult(path, target) {
				bad = "bind succeeds without the reply's type having been compared with \"result\": an <iq type='error'> that echoes the <bind/> payload (e.g. resource conflict) is accepted and the session continues with an empty bound JID (return at " + w.ipos(path[len(path)-1]) + ")"
			}
			okPayload := pathAsserts(path, func(c ssa.Value, truth bool) bool {
				T, ok := typeAssertOK(c, nil)
				return ok && truth && w.typeStr(T) == "*stanza.Bind"
			})
			if !okPayload {
				bad = "bind succeeds without the reply carrying a bind payload"
			}
		})
		if why != "" {
			r.Undecided("R3", "xmpp.(*Session).bind#reply", w.pos(fn.Pos()), why)
		} else {
			r.Check(bad == "" && n > 0, "R3", "xmpp.(*Session).bind#reply", w.pos(fn.Pos()), bad, fmt.Sprintf("%d success path(s): iq.Type == result ∧ payload is *stanza.Bind", n))
		}
	}
	// legacy session
	{
		fn := w.Func("xmpp.(*Session).rfc3921Session")
		bad := ""
		n, why := successPaths(fn, func(rd *ssa.Call, path []ssa.Instruction) {
			_, target := decodedTypeTag(rd)
			if !assertsTypeResult(path, target) {
				bad = "the legacy session step succeeds whatever the server replies: the reply is decoded and never looked at (an <iq type='error'> counts as success)"
			}
		})
		if why != "" {
			r.Undecided("R3", "xmpp.(*Session).rfc3921Session#reply", w.pos(fn.Pos()), why)
		} else {
			r.Check(bad == "" && n > 0, "R3", "xmpp.(*Session).rfc3921Session#reply", w.pos(fn.Pos()), bad, fmt.Sprintf("%d success path(s): iq.Type == result", n))
		}
	}
	// enable SM
	{
		fn := w.Func("xmpp.(*Session).EnableStreamManagement")
		bad := ""
		n, why := successPaths(fn, func(rd *ssa.Call, path []ssa.Instruction) {
			var pkt ssa.Value
			for _, rf := range *rd.Referrers() {
				if ex, ok := rf.(*ssa.Extract); ok && ex.Index == 0 {
					pkt = ex
				}
			}
			ok := pathAsserts(path, func(c ssa.Value, truth bool) bool {
				T, isTA := typeAssertOK(c, pkt)
				return isTA && truth && w.typeStr(T) == "stanza.SMEnabled"
			})
			if !ok {
				bad = "stream management is considered enabled without the reply being <enabled/> (return at " + w.ipos(path[len(path)-1]) + ")"
			}
		})
		if why != "" {
			r.Undecided("R3", "xmpp.(*Session).EnableStreamManagement#reply", w.pos(fn.Pos()), why)
		} else {
			r.Check(bad == "" && n > 0, "R3", "xmpp.(*Session).EnableStreamManagement#reply", w.pos(fn.Pos()), bad, fmt.Sprintf("%d success path(s), each through the ok-edge of p.(stanza.SMEnabled)", n))
		}
	}
	// features: extractStreamFeatures records the decode error
	{
		fn := w.Func("xmpp.(*Session).extractStreamFeatures")
		reads := w.callsInH(fn, readKeys...)
		ok := len(reads) == 1
		if ok {
			rd := reads[0].(*ssa.Call)
			tag, _ := decodedTypeTag(rd)
			ok = strings.HasSuffix(tag, " features") // (that its outcome reaches s.err on every path: R2 #clears-stale-error)
		}
		r.Check(ok, "R3", "xmpp.(*Session).extractStreamFeatures#reply", w.pos(fn.Pos()), "what is read after the stream open is not decoded as <stream:features/>", "Decode(&features)")
	}
}

// rootOf: the base value of a field access chain.
func rootOf(v ssa.Value) ssa.Value {
	for {
		switch x := v.(type) {
		case *ssa.UnOp:
			if x.Op != token.MUL {
				return v
			}
			// a captured variable assigned exactly once (a parameter a function literal uses) stands for that value
			if sv := finalCellValue(x); sv != nil {
				v = sv
				continue
			}
			v = x.X
		case *ssa.FieldAddr:
			v = x.X
		case *ssa.Field:
			v = x.X
		default:
			return v
		}
	}
}

// sessionErrCleared: a Session is reused for the next connection attempt (Client.connect keeps it, NewSession takes
// c.Session). Its sticky error must not survive into that attempt: reading the stream features — the first thing every
// attempt does — leaves s.err nil when the read succeeded, on every path. (C03.R2 and, shared, C13.R8.)
func sessionErrCleared(w *World, r *Report, rule string) {
	fn := w.Func("xmpp.(*Session).extractStreamFeatures")
	fErr := w.Field("xmpp.Session.err")
	cons := "xmpp.(*Session).extractStreamFeatures#clears-stale-error"
	reads := w.callsInH(fn, "encoding/xml.Decoder.Decode", "encoding/xml.Decoder.DecodeElement", "stanza.NextPacket")
	if len(reads) != 1 {
		r.Undecided(rule, cons, w.pos(fn.Pos()), fmt.Sprintf("expected one read of the features, found %d", len(reads)))
		return
	}
	rd := reads[0].(*ssa.Call)
	ev := errResult(rd)
	bad := ""
	n := 0
	err := walkPaths(entryLoc(fn), nil, nil, 5000, func(path []ssa.Instruction, end pathEnd) {
		rt, isRet := path[len(path)-1].(*ssa.Return)
		if !isRet {
			return
		}
		var final ssa.Value
		assigned := false
		forPath(path, func(i int, in ssa.Instruction) {
			if st, ok := in.(*ssa.Store); ok {
				if fa, ok := st.Addr.(*ssa.FieldAddr); ok && fieldOfAddr(fa) == fErr {
					final, assigned = resolveOn(st.Val, i, path), true
				}
			}
		})
		if pathAsserts(path, func(c ssa.Value, truth bool) bool { return assertsNonNilR(c, truth, ev) }) {
			// the read failed: the failure is recorded
			if !assigned || !(final == ev || resolvedEq(final, ev) || certainError(w, final, path)) {
				bad = "a failed read of the stream features is not recorded in s.err (return at " + w.ipos(rt) + ")"
			}
			return
		}
		n++
		if !assigned {
			bad = "when the features are read successfully s.err keeps whatever it held (return at " + w.ipos(rt) + "): a Session reused after a failed attempt fails the next attempt with the old error, although the server did everything right — and the stream-management state is thrown away"
			return
		}
		if !(isNilConst(final) || final == ev || resolvedEq(final, ev)) {
			bad = "after a successful read of the features s.err is set to " + w.nfOn(final, path)
		}
	})
	if err != nil {
		r.Undecided(rule, cons, w.pos(fn.Pos()), err.Error())
		return
	}
	r.Check(bad == "" && n > 0, rule, cons, w.pos(fn.Pos()), bad, fmt.Sprintf("%d success path(s), each leaves s.err nil (assigned, not merely untouched)", n))
}
