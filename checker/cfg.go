package main

// E2 — path queries on one function's SSA control-flow graph, and the small
// value matchers the rules are phrased in. Everything is keyed on resolved
// objects (types.Func / types.Var / ssa.Value identity), never on text.

import (
	"fmt"
	"go/constant"
	"go/token"
	"go/types"
	"os"
	"sort"
	"strings"

	"golang.org/x/tools/go/ssa"
)

type Loc struct {
	B *ssa.BasicBlock
	I int
}

type Edge struct {
	From *ssa.BasicBlock
	Succ int
}

type EdgeSet map[Edge]bool

func (s EdgeSet) union(t EdgeSet) EdgeSet {
	out := EdgeSet{}
	for e := range s {
		out[e] = true
	}
	for e := range t {
		out[e] = true
	}
	return out
}

func entryLoc(fn *ssa.Function) Loc { return Loc{fn.Blocks[0], 0} }

func locOf(in ssa.Instruction) Loc {
	b := in.Block()
	for i, x := range b.Instrs {
		if x == in {
			return Loc{b, i}
		}
	}
	die("instruction not in its block")
	return Loc{}
}

func after(in ssa.Instruction) Loc {
	l := locOf(in)
	l.I++
	return l
}

// reach: is an instruction satisfying target reachable from start (inclusive)
// when the instructions satisfying stop block the way and the edges in cut are
// deleted? Returns the witness block path, or nil.
func reach(start Loc, target func(ssa.Instruction) bool, stop func(ssa.Instruction) bool, cut EdgeSet) ([]*ssa.BasicBlock, ssa.Instruction) {
	type retPoint struct {
		b      *ssa.BasicBlock
		idx    int
		parent *retPoint
		depth  int
		fn     *ssa.Function
	}
	type item struct {
		b    *ssa.BasicBlock
		from int
		ret  *retPoint
		prev *item
	}
	type skey struct {
		b   *ssa.BasicBlock
		ret *retPoint
	}
	seen := map[skey]bool{}
	// a start inside a helper with a single call site continues in its caller after the helper returns
	var rootRet func(fn *ssa.Function, depth int) *retPoint
	rootRet = func(fn *ssa.Function, depth int) *retPoint {
		if depth >= 3 || theWorld == nil || !isHelper(fn) {
			return nil
		}
		sites := theWorld.callSitesOf(fn)
		if len(sites) != 1 {
			return nil
		}
		c := sites[0]
		idx := 0
		for i, in := range c.Block().Instrs {
			if in == ssa.Instruction(c) {
				idx = i + 1
			}
		}
		parent := rootRet(c.Parent(), depth+1)
		d := 1
		if parent != nil {
			d = parent.depth + 1
		}
		return &retPoint{b: c.Block(), idx: idx, parent: parent, depth: d, fn: c.Parent()}
	}
	queue := []*item{{start.B, start.I, rootRet(start.B.Parent(), 0), nil}}
	first := true
	anyDescend := false
	onStack := func(rp *retPoint, fn *ssa.Function) bool {
		for p := rp; p != nil; p = p.parent {
			if p.fn == fn {
				return true
			}
		}
		return false
	}
	for len(queue) > 0 {
		it := queue[0]
		queue = queue[1:]
		if !first || it.from == 0 {
			k := skey{it.b, it.ret}
			if it.from == 0 {
				if seen[k] {
					continue
				}
				seen[k] = true
			}
		}
		first = false
		blocked, descended := false, false
		for i := it.from; i < len(it.b.Instrs); i++ {
			in := it.b.Instrs[i]
			ret, isRet := in.(*ssa.Return)
			_ = ret
			if isRet && it.ret != nil {
				// return of a walked-through helper: continue in the caller
				queue = append(queue, &item{it.ret.b, it.ret.idx, it.ret.parent, it})
				descended = true
				break
			}
			if target != nil && target(in) {
				var path []*ssa.BasicBlock
				for p := it; p != nil; p = p.prev {
					if len(path) == 0 || path[0] != p.b {
						path = append([]*ssa.BasicBlock{p.b}, path...)
					}
				}
				if anyDescend && !confirmReach(start, target, stop, cut) {
					// the block-level witness runs through a walked-through helper and no feasible
					// path (helper results resolved per path) confirms it
					return nil, nil
				}
				return path, in
			}
			if stop != nil && stop(in) {
				blocked = true
				break
			}
			if c, ok := in.(*ssa.Call); ok && inlineOK != nil {
				callee := c.Call.StaticCallee()
				depth := 0
				if it.ret != nil {
					depth = it.ret.depth
				}
				if callee != nil && callee.Blocks != nil && depth < 3 && callee != it.b.Parent() && !onStack(it.ret, callee) && isHelper(callee) {
					rp := &retPoint{b: it.b, idx: i + 1, parent: it.ret, depth: depth + 1, fn: it.b.Parent()}
					queue = append(queue, &item{callee.Blocks[0], 0, rp, it})
					descended = true
					anyDescend = true
					break
				}
			}
		}
		if blocked || descended {
			continue
		}
		for si, s := range it.b.Succs {
			if cut[Edge{it.b, si}] {
				continue
			}
			queue = append(queue, &item{s, 0, it.ret, it})
		}
	}
	return nil, nil
}

// confirmReach re-establishes a reachability witness by enumerating feasible paths, on which the results of
// walked-through helpers are resolved (a helper returning a non-nil error on the remaining paths cannot be followed by
// the caller's err == nil branch). Exceeding the budget counts as reachable.
func confirmReach(start Loc, target func(ssa.Instruction) bool, stop func(ssa.Instruction) bool, cut EdgeSet) bool {
	found := false
	term := func(in ssa.Instruction) bool {
		return (target != nil && target(in)) || (stop != nil && stop(in))
	}
	err := walkPathsP(start, term, func(b *ssa.BasicBlock, succ int, path []ssa.Instruction) bool {
		if found || cut[Edge{b, succ}] {
			return false
		}
		return phiFeasible(b, succ, path)
	}, 300000, func(path []ssa.Instruction, end pathEnd) {
		if end == endTerminal && len(path) > 0 && target != nil && target(path[len(path)-1]) {
			found = true
			if os.Getenv("XDEBUG") != "" && theWorld != nil {
				for i, in := range path {
					if _, isIf := in.(*ssa.If); isIf {
						fmt.Fprintf(os.Stderr, "  confirmReach path[%d] %s: %s\n", i, theWorld.ipos(in), in.String())
					}
					if c, ok := in.(*ssa.Call); ok {
						fmt.Fprintf(os.Stderr, "  confirmReach path[%d] call %s\n", i, c.String())
					}
				}
			}
		}
	})
	return found || err != nil
}

func reachable(start Loc, target func(ssa.Instruction) bool, stop func(ssa.Instruction) bool, cut EdgeSet) bool {
	p, _ := reach(start, target, stop, cut)
	return p != nil
}

// mustPass: every path from start to an instruction in exits contains an
// instruction in via (equivalently: exits are unreachable once via blocks).
func mustPass(start Loc, exits, via func(ssa.Instruction) bool, cut EdgeSet) (bool, []*ssa.BasicBlock) {
	p, _ := reach(start, exits, via, cut)
	return p == nil, p
}

func isReturn(in ssa.Instruction) bool { _, ok := in.(*ssa.Return); return ok }

func pathString(w *World, p []*ssa.BasicBlock) string {
	var parts []string
	for _, b := range p {
		pos := "-"
		for _, in := range b.Instrs {
			if in.Pos().IsValid() {
				pos = w.pos(in.Pos())
				break
			}
		}
		parts = append(parts, fmt.Sprintf("b%d(%s)", b.Index, pos))
	}
	return strings.Join(parts, " -> ")
}

// ---------------------------------------------------------------------------
// conditions on branch edges

func stripNot(v ssa.Value) (ssa.Value, bool) {
	neg := false
	for {
		u, ok := v.(*ssa.UnOp)
		if !ok || u.Op != token.NOT {
			return v, neg
		}
		neg = !neg
		v = u.X
	}
}

// edgesAsserting returns the branch edges on which pred(cond, truth) holds:
// traversing such an edge means "cond evaluated to truth".
func edgesAsserting(fn *ssa.Function, pred func(c ssa.Value, truth bool) bool) EdgeSet {
	out := EdgeSet{}
	for _, f := range withHelpers(fn) {
		for _, b := range f.Blocks {
			if len(b.Instrs) == 0 {
				continue
			}
			iff, ok := b.Instrs[len(b.Instrs)-1].(*ssa.If)
			if !ok {
				continue
			}
			c, neg := stripNot(iff.Cond)
			if pred(c, !neg) {
				out[Edge{b, 0}] = true
			}
			if pred(c, neg) {
				out[Edge{b, 1}] = true
			}
		}
	}
	return out
}

// withHelpers: fn together with the walked-through helpers it (transitively) calls.
func withHelpers(fn *ssa.Function) []*ssa.Function {
	out := []*ssa.Function{fn}
	if inlineOK == nil {
		return out
	}
	seen := map[*ssa.Function]bool{fn: true}
	for i := 0; i < len(out) && len(out) < 32; i++ {
		for _, b := range out[i].Blocks {
			for _, in := range b.Instrs {
				if c, ok := in.(*ssa.Call); ok {
					if callee := c.Call.StaticCallee(); callee != nil && !seen[callee] && isHelper(callee) {
						seen[callee] = true
						out = append(out, callee)
					}
					// a function literal handed to a helper that only calls it
					for _, a := range c.Call.Args {
						if mc, isMC := a.(*ssa.MakeClosure); isMC {
							if lf, _ := mc.Fn.(*ssa.Function); lf != nil && !seen[lf] {
								if oc, _, _ := passedVia(lf); oc == c {
									seen[lf] = true
									out = append(out, lf)
								}
							}
						}
					}
				}
				if d, ok := in.(*ssa.Defer); ok {
					if callee := d.Call.StaticCallee(); callee != nil && !seen[callee] && callee.Parent() != nil && calledLiteral(callee) {
						seen[callee] = true
						out = append(out, callee)
					}
				}
			}
		}
	}
	return out
}

// edgeAssertions lists (cond, truth) asserted by edge b->succ, normalised.
func edgeAssertion(b *ssa.BasicBlock, succ int) (ssa.Value, bool, bool) {
	if len(b.Instrs) == 0 {
		return nil, false, false
	}
	iff, ok := b.Instrs[len(b.Instrs)-1].(*ssa.If)
	if !ok {
		return nil, false, false
	}
	c, neg := stripNot(iff.Cond)
	if succ == 0 {
		return c, !neg, true
	}
	return c, neg, true
}

// nilCompare: v is `x == nil` or `x != nil`.
func nilCompare(v ssa.Value) (x ssa.Value, isEq bool, ok bool) {
	b, isb := v.(*ssa.BinOp)
	if !isb || (b.Op != token.EQL && b.Op != token.NEQ) {
		return nil, false, false
	}
	if isNilConst(b.Y) {
		return b.X, b.Op == token.EQL, true
	}
	if isNilConst(b.X) {
		return b.Y, b.Op == token.EQL, true
	}
	return nil, false, false
}

func isNilConst(v ssa.Value) bool {
	c, ok := v.(*ssa.Const)
	return ok && c.Value == nil
}

// assertsNonNil: does traversing (c,truth) assert x != nil ?
func assertsNonNil(c ssa.Value, truth bool, x ssa.Value) bool {
	y, eq, ok := nilCompare(c)
	return ok && resolvedEq(y, x) && eq != truth
}

func assertsNil(c ssa.Value, truth bool, x ssa.Value) bool {
	y, eq, ok := nilCompare(c)
	return ok && resolvedEq(y, x) && eq == truth
}

// sameValue: identical SSA value, or two loads of the same address expression
// (go/ssa does no CSE, so `s.err` read twice is two loads).
func sameValue(a, b ssa.Value) bool {
	if a == b {
		return true
	}
	ua, ok1 := a.(*ssa.UnOp)
	ub, ok2 := b.(*ssa.UnOp)
	if ok1 && ok2 && ua.Op == token.MUL && ub.Op == token.MUL {
		return sameAddr(ua.X, ub.X)
	}
	// the same field of the same struct value, read twice
	fa, ok3 := a.(*ssa.Field)
	fb, ok4 := b.(*ssa.Field)
	if ok3 && ok4 && fa.Field == fb.Field {
		return fa.X == fb.X || sameValue(fa.X, fb.X)
	}
	return false
}

func sameAddr(a, b ssa.Value) bool {
	if a == b {
		return true
	}
	fa, ok1 := a.(*ssa.FieldAddr)
	fb, ok2 := b.(*ssa.FieldAddr)
	if ok1 && ok2 && fa.Field == fb.Field {
		if sameAddr(fa.X, fb.X) || sameValue(fa.X, fb.X) {
			return true
		}
		// the same object seen from a walked-through helper (its parameter) and from its caller
		if curPath != nil {
			if ra, rb := rvAny(fa.X), rvAny(fb.X); (ra != fa.X || rb != fb.X) && (ra == rb || sameValue(ra, rb)) {
				return true
			}
		}
		return false
	}
	// the same element of the same slice: x[i] read twice
	ia, ok3 := a.(*ssa.IndexAddr)
	ib, ok4 := b.(*ssa.IndexAddr)
	if ok3 && ok4 && ia.Index == ib.Index {
		return sameValue(ia.X, ib.X)
	}
	return false
}

// ---------------------------------------------------------------------------
// calls

// callKey names the callee of a call through type information:
//
//	"xmpp.Transport.IsSecure" (interface method), "xmpp.XMPPTransport.Connect"
//	(concrete method, pointer or value receiver), "xmpp.NewSession",
//	"encoding/xml.Decoder.DecodeElement", "fmt.Fprintf", "builtin.close".
func (w *World) callKey(c ssa.CallInstruction) string {
	cc := c.Common()
	if cc.IsInvoke() {
		return w.funcObjKey(cc.Method)
	}
	switch v := cc.Value.(type) {
	case *ssa.Builtin:
		return "builtin." + v.Name()
	case *ssa.Function:
		if v.Object() != nil {
			if f, ok := v.Object().(*types.Func); ok {
				return w.funcObjKey(f)
			}
		}
		if v.Parent() != nil {
			return w.funcKey(v)
		}
		// synthetic wrapper / bound method
		return w.funcKey(v)
	case *ssa.MakeClosure:
		if f, ok := v.Fn.(*ssa.Function); ok {
			if f.Synthetic != "" && strings.HasPrefix(f.Synthetic, "bound method wrapper") {
				// bound$: name is e.g. (*T).M$bound
				if f.Object() != nil {
					if fo, ok := f.Object().(*types.Func); ok {
						return w.funcObjKey(fo)
					}
				}
			}
			return w.funcKey(f)
		}
	case *ssa.Extract, *ssa.Lookup:
		// a function looked up in an effectively constant package-level table
		if t, _ := w.tableLookup(v); t != nil {
			set := map[string]bool{}
			for _, e := range t {
				f := funcOfValue(e.Val)
				if f == nil {
					return "dynamic"
				}
				if fo, ok := f.Object().(*types.Func); ok {
					set[w.funcObjKey(fo)] = true
				} else {
					set[w.funcKey(f)] = true
				}
			}
			var ks []string
			for k := range set {
				ks = append(ks, k)
			}
			sort.Strings(ks)
			if len(ks) == 1 {
				return ks[0]
			}
			if len(ks) > 1 {
				return "multi:" + strings.Join(ks, "|")
			}
		}
	case *ssa.Parameter:
		// a function-typed parameter of a helper: the functions its call sites pass
		if ks := w.funcParamKeys(v); len(ks) == 1 {
			return ks[0]
		} else if len(ks) > 1 {
			return "multi:" + strings.Join(ks, "|")
		}
	}
	return "dynamic"
}

// funcParamKeys: for a function-typed parameter of a walked-through helper, the keys of the functions passed at
// all of its call sites (method values, function values); nil when any site passes something else.
func (w *World) funcParamKeys(p *ssa.Parameter) []string {
	fn := p.Parent()
	if !isHelper(fn) {
		return nil
	}
	idx := -1
	for k, q := range fn.Params {
		if q == p {
			idx = k
		}
	}
	set := map[string]bool{}
	for _, site := range w.callSitesOf(fn) {
		if idx < 0 || idx >= len(site.Call.Args) {
			return nil
		}
		switch a := site.Call.Args[idx].(type) {
		case *ssa.MakeClosure:
			f, ok := a.Fn.(*ssa.Function)
			if !ok {
				return nil
			}
			if fo, ok := f.Object().(*types.Func); ok && f.Synthetic != "" {
				set[w.funcObjKey(fo)] = true
			} else {
				set[w.funcKey(f)] = true
			}
		case *ssa.Function:
			if fo, ok := a.Object().(*types.Func); ok {
				set[w.funcObjKey(fo)] = true
			} else {
				set[w.funcKey(a)] = true
			}
		default:
			return nil
		}
	}
	var out []string
	for k := range set {
		out = append(out, k)
	}
	sort.Strings(out)
	return out
}

func (w *World) funcObjKey(f *types.Func) string {
	sig := f.Type().(*types.Signature)
	pkg := ""
	if f.Pkg() != nil {
		pkg = w.shortPkg(f.Pkg())
	}
	if r := sig.Recv(); r != nil {
		t := r.Type()
		if p, ok := t.(*types.Pointer); ok {
			t = p.Elem()
		}
		if n, ok := t.(*types.Named); ok {
			if n.Obj().Pkg() != nil {
				pkg = w.shortPkg(n.Obj().Pkg())
			}
			return pkg + "." + n.Obj().Name() + "." + f.Name()
		}
		// method of an unnamed interface (embedded): use name only
		return pkg + ".?." + f.Name()
	}
	return pkg + "." + f.Name()
}

func asCall(in ssa.Instruction) ssa.CallInstruction {
	switch c := in.(type) {
	case *ssa.Call:
		return c
	case *ssa.Go:
		return c
	case *ssa.Defer:
		return c
	}
	return nil
}

// isCallTo builds an instruction predicate matching calls (plain, go, defer)
// whose resolved callee key is one of keys.
func (w *World) isCallTo(keys ...string) func(ssa.Instruction) bool {
	set := map[string]bool{}
	for _, k := range keys {
		set[k] = true
	}
	return func(in ssa.Instruction) bool {
		c := asCall(in)
		if c == nil {
			return false
		}
		k := w.callKey(c)
		if strings.HasPrefix(k, "multi:") {
			for _, one := range strings.Split(k[len("multi:"):], "|") {
				if set[one] {
					return true
				}
			}
			return false
		}
		return set[k]
	}
}

func (w *World) callsIn(fn *ssa.Function, keys ...string) []ssa.CallInstruction {
	pred := w.isCallTo(keys...)
	var out []ssa.CallInstruction
	for _, b := range fn.Blocks {
		for _, in := range b.Instrs {
			if pred(in) {
				out = append(out, asCall(in))
			}
		}
	}
	return out
}

func allInstrs(fn *ssa.Function, f func(ssa.Instruction)) {
	for _, b := range fn.Blocks {
		for _, in := range b.Instrs {
			f(in)
		}
	}
}

// callResult: v is the result of a call (or one component of it). Returns the call.
func callResult(v ssa.Value) (*ssa.Call, int) {
	switch x := v.(type) {
	case *ssa.Call:
		return x, -1
	case *ssa.Extract:
		if c, ok := x.Tuple.(*ssa.Call); ok {
			return c, x.Index
		}
	}
	return nil, -1
}

// isResultOf: v is (component idx of) the result of a call to one of keys.
func (w *World) isResultOf(v ssa.Value, idx int, keys ...string) bool {
	c, i := callResult(v)
	if c == nil {
		return false
	}
	if idx >= 0 && i != idx && !(i == -1 && idx == 0) {
		return false
	}
	k := w.callKey(c)
	for _, kk := range keys {
		if k == kk {
			return true
		}
	}
	return false
}

// ---------------------------------------------------------------------------
// fields

func fieldOfAddr(fa *ssa.FieldAddr) *types.Var {
	t := fa.X.Type().Underlying()
	p, ok := t.(*types.Pointer)
	if !ok {
		return nil
	}
	st, ok := p.Elem().Underlying().(*types.Struct)
	if !ok {
		return nil
	}
	return st.Field(fa.Field)
}

func fieldOfVal(f *ssa.Field) *types.Var {
	st, ok := f.X.Type().Underlying().(*types.Struct)
	if !ok {
		return nil
	}
	return st.Field(f.Field)
}

// loadedField: v is a load of a struct field; returns the field object and the
// base pointer/struct value.
func loadedField(v ssa.Value) (*types.Var, ssa.Value) {
	switch x := v.(type) {
	case *ssa.UnOp:
		if x.Op == token.MUL {
			if fa, ok := x.X.(*ssa.FieldAddr); ok {
				return fieldOfAddr(fa), fa.X
			}
		}
	case *ssa.Field:
		return fieldOfVal(x), x.X
	}
	return nil, nil
}

// fieldPath renders an access path like "c.config.Insecure" as the list of field objects.
func fieldPath(v ssa.Value) []*types.Var {
	var out []*types.Var
	for {
		switch x := v.(type) {
		case *ssa.UnOp:
			if x.Op != token.MUL {
				return out
			}
			v = x.X
		case *ssa.FieldAddr:
			out = append([]*types.Var{fieldOfAddr(x)}, out...)
			v = x.X
		case *ssa.Field:
			out = append([]*types.Var{fieldOfVal(x)}, out...)
			v = x.X
		default:
			return out
		}
	}
}

func lastField(v ssa.Value) *types.Var {
	p := fieldPath(v)
	if len(p) == 0 {
		return nil
	}
	// only when v itself is a load of / address of that field
	switch x := v.(type) {
	case *ssa.UnOp:
		if x.Op == token.MUL {
			if _, ok := x.X.(*ssa.FieldAddr); ok {
				return p[len(p)-1]
			}
		}
	case *ssa.Field, *ssa.FieldAddr:
		return p[len(p)-1]
	}
	return nil
}

// ---------------------------------------------------------------------------
// constants

func constString(v constant.Value) string {
	if v == nil {
		return ""
	}
	if v.Kind() == constant.String {
		return constant.StringVal(v)
	}
	return v.ExactString()
}

func constOf(v ssa.Value) (*ssa.Const, bool) {
	for {
		switch x := v.(type) {
		case *ssa.Const:
			return x, true
		case *ssa.Convert:
			v = x.X
		case *ssa.ChangeType:
			v = x.X
		default:
			return nil, false
		}
	}
}

func stringConst(v ssa.Value) (string, bool) {
	c, ok := constOf(v)
	if !ok || c.Value == nil || c.Value.Kind() != constant.String {
		return "", false
	}
	return constant.StringVal(c.Value), true
}

func intConst(v ssa.Value) (int64, bool) {
	c, ok := constOf(v)
	if !ok || c.Value == nil || c.Value.Kind() != constant.Int {
		return 0, false
	}
	i, ok2 := constant.Int64Val(c.Value)
	return i, ok2
}

func boolConst(v ssa.Value) (bool, bool) {
	c, ok := constOf(v)
	if !ok || c.Value == nil || c.Value.Kind() != constant.Bool {
		return false, false
	}
	return constant.BoolVal(c.Value), true
}

// ---------------------------------------------------------------------------
// path enumeration (small regions only)

type pathEnd int

const (
	endTerminal pathEnd = iota // reached an instruction of the terminal set (or a Return/Panic)
	endCycle                   // came back to a block already on the path
)

var errTooManyPaths = fmt.Errorf("more than the path budget")

// walkPaths enumerates every acyclic path from start (inclusive) until an
// instruction satisfying terminal, a return or a panic. edgeOK filters
// infeasible edges (nil: all feasible). visit gets the instructions on the path
// (terminal included) and how it ended.
func walkPaths(start Loc, terminal func(ssa.Instruction) bool, edgeOK func(b *ssa.BasicBlock, succ int) bool, budget int, visit func(path []ssa.Instruction, end pathEnd)) error {
	f := phiFeasible
	if edgeOK != nil {
		f = func(b *ssa.BasicBlock, succ int, path []ssa.Instruction) bool {
			return edgeOK(b, succ) && phiFeasible(b, succ, path)
		}
	}
	return walkPathsP(start, terminal, f, budget, visit)
}

// curScanIdx: index on the current path of the instruction a predicate is being asked about (countOn, indexOn,
// forPath); lets predicates resolve values in the right activation when a helper occurs several times on a path.
var curScanIdx = -1

// rvCur resolves v as seen by the instruction currently scanned (or, outside a scan, by its defining instruction).
func rvCur(v ssa.Value) ssa.Value {
	if curPath != nil && curScanIdx >= 0 {
		return rvI(v, curScanIdx)
	}
	return rvAny(v)
}

func countOn(path []ssa.Instruction, pred func(ssa.Instruction) bool) int {
	n := 0
	saved := curScanIdx
	for i, in := range path {
		curScanIdx = i
		if pred(in) {
			n++
		}
	}
	curScanIdx = saved
	return n
}

func indexOn(path []ssa.Instruction, pred func(ssa.Instruction) bool) int {
	saved := curScanIdx
	defer func() { curScanIdx = saved }()
	for i, in := range path {
		curScanIdx = i
		if pred(in) {
			return i
		}
	}
	return -1
}

// forPath iterates over the path with curScanIdx set.
func forPath(path []ssa.Instruction, f func(i int, in ssa.Instruction)) {
	saved := curScanIdx
	for i, in := range path {
		curScanIdx = i
		f(i, in)
	}
	curScanIdx = saved
}

// pathTakes: does the instruction path traverse an edge asserting pred?
// Edges are recovered from consecutive blocks on the path.
func pathEdges(path []ssa.Instruction, f func(b *ssa.BasicBlock, succ int)) {
	for i := 0; i+1 < len(path); i++ {
		if _, isIf := path[i].(*ssa.If); !isIf {
			continue
		}
		b1, b2 := path[i].Block(), path[i+1].Block()
		if b1.Parent() != b2.Parent() {
			continue
		}
		for si, s := range b1.Succs {
			if s == b2 {
				curEdgeAt, curEdgeIdx = path[i], i
				f(b1, si)
				curEdgeAt, curEdgeIdx = nil, -1
				break
			}
		}
	}
}

// curEdgeAt is the branch instruction whose edge is being reported by pathEdges (for value resolution).
var curEdgeAt ssa.Instruction

// curEdgeIdx is its index on the path.
var curEdgeIdx = -1

// resolvedEq: same value, directly or after resolution through walked-through helpers on the current path.
func resolvedEq(a, b ssa.Value) bool {
	if sameValue(a, b) {
		return true
	}
	if curPath == nil {
		return false
	}
	ra, rb := rvAny(a), rvAny(b)
	if sameValue(ra, rb) {
		return true
	}
	// a variable assigned on several branches (a phi) and the value it holds on this path
	pa, pb := valueOnPath(ra, curPath.path), valueOnPath(rb, curPath.path)
	if (pa != ra || pb != rb) && sameValue(pa, pb) {
		return true
	}
	// … and a variable kept in memory (a field, a captured local, a named result) read back at the branch being judged
	if curEdgeIdx >= 0 && curEdgeIdx < len(curPath.path) {
		qa, qb := resolveOn(a, curEdgeIdx, curPath.path), resolveOn(b, curEdgeIdx, curPath.path)
		return (qa != a || qb != b) && sameValue(qa, qb)
	}
	return false
}

func pathAsserts(path []ssa.Instruction, pred func(c ssa.Value, truth bool) bool) bool {
	found := false
	pathEdges(path, func(b *ssa.BasicBlock, succ int) {
		c, t, ok := edgeAssertion(b, succ)
		if !ok {
			return
		}
		if pred(c, t) {
			found = true
			return
		}
		// the condition may be the result of a walked-through helper (or a phi this path fixes): what the
		// edge asserts is then the condition the helper returned on this path
		if curPath != nil && curEdgeIdx >= 0 {
			rc := resolveOn(c, curEdgeIdx, path)
			for k := 0; rc != c && k < 6; k++ {
				nc, neg := stripNot(rc)
				if neg {
					t = !t
				}
				if pred(nc, t) {
					found = true
					return
				}
				c = nc
				rc = valueOnPath(rvAny(nc), path)
			}
		}
	})
	return found
}

// ---------------------------------------------------------------------------
// E3 — dynamic type refinement

// typeEdgeFilter: feasibility of branch edges when interface value v holds
// concrete type T: a `typeassert,ok v.(X)` succeeds iff T is X (or implements X).
func typeEdgeFilter(v ssa.Value, T types.Type) func(b *ssa.BasicBlock, succ int) bool {
	return func(b *ssa.BasicBlock, succ int) bool {
		c, truth, ok := edgeAssertion(b, succ)
		if !ok {
			return true
		}
		ex, isEx := c.(*ssa.Extract)
		if !isEx || ex.Index != 1 {
			return true
		}
		ta, isTA := ex.Tuple.(*ssa.TypeAssert)
		if !isTA || !ta.CommaOk || !sameIface(ta.X, v) {
			return true
		}
		return assertHolds(T, ta.AssertedType) == truth
	}
}

func sameIface(a, b ssa.Value) bool {
	if a == b {
		return true
	}
	if oa, ob := origin(a), origin(b); (oa != a || ob != b) && oa == ob {
		return true // the same value seen through a helper's parameter
	}
	if curPath != nil && resolvedEq(a, b) {
		return true // … or through the result a walked-through helper returned on this path
	}
	if ci, ok := a.(*ssa.ChangeInterface); ok {
		return sameIface(ci.X, b)
	}
	if ci, ok := b.(*ssa.ChangeInterface); ok {
		return sameIface(a, ci.X)
	}
	return false
}

func assertHolds(dyn, asserted types.Type) bool {
	if it, ok := asserted.Underlying().(*types.Interface); ok {
		return types.Implements(dyn, it)
	}
	return types.Identical(dyn, asserted)
}

// typeAssertOK: c is the ok component of `typeassert,ok v.(X)`; returns X.
func typeAssertOK(c ssa.Value, v ssa.Value) (types.Type, bool) {
	ex, isEx := c.(*ssa.Extract)
	if !isEx || ex.Index != 1 {
		return nil, false
	}
	ta, isTA := ex.Tuple.(*ssa.TypeAssert)
	if !isTA || !ta.CommaOk {
		return nil, false
	}
	if v != nil && !sameIface(ta.X, v) {
		return nil, false
	}
	return ta.AssertedType, true
}

// returnedDynTypes: concrete types that may be wrapped in result #idx of fn,
// following returns of static module callees. unknown reports a return the
// engine cannot follow.
func (w *World) returnedDynTypes(fn *ssa.Function, idx int, depth int, out map[string]types.Type, unknown *[]string) {
	if depth > 6 {
		*unknown = append(*unknown, w.funcKey(fn)+": depth")
		return
	}
	var val func(v ssa.Value, seen map[ssa.Value]bool)
	val = func(v ssa.Value, seen map[ssa.Value]bool) {
		if seen[v] {
			return
		}
		seen[v] = true
		switch x := v.(type) {
		case *ssa.MakeInterface:
			out[types.TypeString(x.X.Type(), w.qual)] = x.X.Type()
		case *ssa.Const:
			// nil interface
		case *ssa.ChangeInterface:
			val(x.X, seen)
		case *ssa.Phi:
			for _, e := range x.Edges {
				val(e, seen)
			}
		case *ssa.Call:
			if cs := w.dynCallees(fn, x); len(cs) > 0 {
				for _, callee := range cs {
					withBind(callee, x.Call.Args, func() { w.returnedDynTypes(callee, 0, depth+1, out, unknown) })
				}
			} else {
				*unknown = append(*unknown, w.ipos(x)+": dynamic call")
			}
		case *ssa.Extract:
			if c, ok := x.Tuple.(*ssa.Call); ok {
				if cs := w.dynCallees(fn, c); len(cs) > 0 {
					for _, callee := range cs {
						withBind(callee, c.Call.Args, func() { w.returnedDynTypes(callee, x.Index, depth+1, out, unknown) })
					}
					return
				}
			}
			*unknown = append(*unknown, "extract of non-static call")
		default:
			*unknown = append(*unknown, fmt.Sprintf("%s: %T", w.funcKey(fn), v))
		}
	}
	allInstrs(fn, func(in ssa.Instruction) {
		if r, ok := in.(*ssa.Return); ok && idx < len(r.Results) {
			val(r.Results[idx], map[ssa.Value]bool{})
		}
	})
}

func (w *World) qual(p *types.Package) string { return w.shortPkg(p) }

func (w *World) typeStr(t types.Type) string { return types.TypeString(t, w.qual) }

// intEdgeFilter: feasibility of branch edges when integer value v equals k.
func intEdgeFilter(v ssa.Value, k int64) func(b *ssa.BasicBlock, succ int) bool {
	return func(b *ssa.BasicBlock, succ int) bool {
		c, truth, ok := edgeAssertion(b, succ)
		if !ok {
			return true
		}
		bo, isB := c.(*ssa.BinOp)
		if !isB || (bo.Op != token.EQL && bo.Op != token.NEQ) {
			return true
		}
		var other ssa.Value
		if sameValue(bo.X, v) {
			other = bo.Y
		} else if sameValue(bo.Y, v) {
			other = bo.X
		} else {
			return true
		}
		cv, isC := intConst(other)
		if !isC {
			return true
		}
		holds := (cv == k) == (bo.Op == token.EQL)
		return holds == truth
	}
}

// isDynCallOfField: in is a call of a function value loaded from field f (e.g. c.ErrorHandler(err)).
func isDynCallOfField(in ssa.Instruction, f *types.Var) bool {
	c := asCall(in)
	if c == nil || c.Common().IsInvoke() {
		return false
	}
	lf, _ := loadedField(c.Common().Value)
	return lf == f
}

func intConstOf(obj types.Object) (int64, bool) {
	c, ok := obj.(*types.Const)
	if !ok {
		return 0, false
	}
	return constant.Int64Val(constant.ToInt(c.Val()))
}

// ---------------------------------------------------------------------------
// range loops over slices (go/ssa's rotated rangeindex form)

type rangeLoop struct {
	header, body, done *ssa.BasicBlock
	idx                ssa.Value // the incremented index used in the body
	slice              ssa.Value // the ranged slice (from the IndexAddr in the body), may be nil
}

func findRangeLoops(fn *ssa.Function) []rangeLoop {
	var out []rangeLoop
	for _, b := range fn.Blocks {
		if len(b.Instrs) < 4 {
			continue
		}
		iff, ok := b.Instrs[len(b.Instrs)-1].(*ssa.If)
		if !ok {
			continue
		}
		cmp, ok := iff.Cond.(*ssa.BinOp)
		if !ok || cmp.Op != token.LSS || cmp.Block() != b {
			continue
		}
		inc, ok := cmp.X.(*ssa.BinOp)
		if !ok || inc.Op != token.ADD || inc.Block() != b {
			continue
		}
		if one, ok := intConst(inc.Y); !ok || one != 1 {
			continue
		}
		phi, ok := inc.X.(*ssa.Phi)
		if !ok || phi.Block() != b {
			continue
		}
		startsMinus1, backEdge := false, false
		for _, e := range phi.Edges {
			if v, ok := intConst(e); ok && v == -1 {
				startsMinus1 = true
			}
			if e == ssa.Value(inc) {
				backEdge = true
			}
		}
		if !startsMinus1 || !backEdge {
			continue
		}
		// the block holds only phis, the increment, the comparison and the branch
		clean := true
		for _, in := range b.Instrs {
			switch in.(type) {
			case *ssa.Phi, *ssa.If, *ssa.DebugRef:
			case *ssa.BinOp:
				if in != ssa.Instruction(inc) && in != ssa.Instruction(cmp) {
					clean = false
				}
			default:
				clean = false
			}
		}
		if !clean {
			continue
		}
		rl := rangeLoop{header: b, body: b.Succs[0], done: b.Succs[1], idx: inc}
		for _, r := range *inc.Referrers() {
			if ia, ok := r.(*ssa.IndexAddr); ok && ia.Index == ssa.Value(inc) {
				rl.slice = ia.X
			}
		}
		out = append(out, rl)
	}
	// the same loop written with an explicit index: for i := 0; i < len(s) [&& …]; i++ { … s[i] … }
	for _, b := range fn.Blocks {
		if len(b.Instrs) < 2 {
			continue
		}
		iff, ok := b.Instrs[len(b.Instrs)-1].(*ssa.If)
		if !ok {
			continue
		}
		cmp, ok := iff.Cond.(*ssa.BinOp)
		if !ok || cmp.Op != token.LSS {
			continue
		}
		phi, ok := cmp.X.(*ssa.Phi)
		if !ok || phi.Block() != b {
			continue
		}
		lc, ok := cmp.Y.(*ssa.Call)
		if !ok {
			continue
		}
		if bi, isB := lc.Call.Value.(*ssa.Builtin); !isB || bi.Name() != "len" {
			continue
		}
		fromZero, stepOne := false, false
		for _, e := range phi.Edges {
			if v, ok := intConst(e); ok && v == 0 {
				fromZero = true
			}
			if inc, ok := e.(*ssa.BinOp); ok && inc.Op == token.ADD && inc.X == ssa.Value(phi) {
				if one, ok := intConst(inc.Y); ok && one == 1 {
					stepOne = true
				}
			}
		}
		if !fromZero || !stepOne || len(phi.Edges) != 2 {
			continue
		}
		// no other store to the index: it is an SSA phi, so the only updates are the two edges
		out = append(out, rangeLoop{header: b, body: b.Succs[0], done: b.Succs[1], idx: phi, slice: lc.Call.Args[0]})
	}
	return out
}

// sliceLitElems: elements of a slice literal `[]T{a, b}` (slice of a fresh array alloc).
func sliceLitElems(v ssa.Value) []ssa.Value {
	sl, ok := v.(*ssa.Slice)
	if !ok {
		return nil
	}
	al, ok := sl.X.(*ssa.Alloc)
	if !ok {
		return nil
	}
	elems := map[int64]ssa.Value{}
	for _, r := range *al.Referrers() {
		ia, ok := r.(*ssa.IndexAddr)
		if !ok {
			continue
		}
		i, ok := intConst(ia.Index)
		if !ok {
			continue
		}
		for _, r2 := range *ia.Referrers() {
			if st, ok := r2.(*ssa.Store); ok && st.Addr == ssa.Value(ia) {
				elems[i] = st.Val
			}
		}
	}
	var out []ssa.Value
	for i := int64(0); i < int64(len(elems)); i++ {
		out = append(out, elems[i])
	}
	return out
}

// valueOnPath resolves phis along a concrete instruction path: the value a phi
// takes given the predecessor block the path came through.
// assumed: hypotheses under which paths are enumerated — a value (typically a call result that flows into a flag
// variable instead of being branched on) taken to be true or false. Consulted wherever a value is resolved on a path.
var assumed = map[ssa.Value]bool{}

var (
	ssaTrue  = ssa.NewConst(constant.MakeBool(true), types.Typ[types.Bool])
	ssaFalse = ssa.NewConst(constant.MakeBool(false), types.Typ[types.Bool])
)

// withAssumption runs f with v taken to be b.
func withAssumption(v ssa.Value, b bool, f func()) {
	old, had := assumed[v]
	assumed[v] = b
	f()
	if had {
		assumed[v] = old
	} else {
		delete(assumed, v)
	}
}

func valueOnPath(v ssa.Value, path []ssa.Instruction) ssa.Value {
	r := valueOnPath0(v, path)
	if len(assumed) > 0 {
		if nv, neg := stripNot(r); neg {
			if b, ok := assumed[nv]; ok {
				if b {
					return ssaFalse
				}
				return ssaTrue
			}
		}
		if b, ok := assumed[r]; ok {
			if b {
				return ssaTrue
			}
			return ssaFalse
		}
	}
	return r
}

func valueOnPath0(v ssa.Value, path []ssa.Instruction) ssa.Value {
	limit := len(path)
	for depth := 0; depth < 8; depth++ {
		phi, ok := v.(*ssa.Phi)
		if !ok {
			return v
		}
		// find the first instruction of phi's block on the path and the block before it. What flows in over an edge was
		// computed before the block was entered: the next phi is looked up before that point (a block passed twice)
		var prev *ssa.BasicBlock
		found := false
		fi := -1
		for i, in := range path[:limit] {
			// a block is entered from a predecessor at its first instruction; coming back into the middle of it
			// after a walked-through call is not an entry
			if in == phi.Block().Instrs[0] && i > 0 && path[i-1].Block().Parent() == phi.Block().Parent() {
				prev = path[i-1].Block()
				found = true
				fi = i
				// keep the last entry into the block before the end of the path
			}
		}
		if !found || prev == nil {
			return v
		}
		limit = fi
		resolved := false
		for i, p := range phi.Block().Preds {
			if p == prev {
				v = phi.Edges[i]
				resolved = true
				break
			}
		}
		if !resolved {
			return v
		}
	}
	return v
}

// ---------------------------------------------------------------------------
// interprocedural path walking: helper functions that did not exist when the
// rules were written (see knownFuncs) are walked through, so that "extract
// function" refactorings are transparent to the path rules.

// frame is one activation on an enumerated path.
type frame struct {
	fn       *ssa.Function
	call     *ssa.Call // call site in the parent frame (nil for the root)
	parent   *frame
	retBlock *ssa.BasicBlock
	retIdx   int
	ret      *ssa.Return // the return taken on this path (set when the callee returns)
	depth    int
	// a deferred function run at its parent's RunDefers: the defer statement, and the deferred functions still to run
	// after this one before the parent goes on
	deferred *ssa.Defer
	rest     []*ssa.Defer
	// an activation the walk entered in the middle (the start of the walk, or the call site of the helper the walk
	// started in): where
	midB *ssa.BasicBlock
	midI int
}

// callCommon: the call that created this activation (a call, or a defer statement).
func (fr *frame) callCommon() *ssa.CallCommon {
	if fr.deferred != nil {
		return &fr.deferred.Call
	}
	if fr.call != nil {
		return &fr.call.Call
	}
	return nil
}

// pathCtx describes the path currently handed to a visit callback.
type pathCtx struct {
	path     []ssa.Instruction
	frames   []*frame // parallel to path
	children map[*frame]map[*ssa.Call]*frame
}

// curPath is valid only during a visit callback of walkPaths/walkPathsP.
var curPath *pathCtx

// inlineOK decides which static module callees are walked through (nil: none).
var inlineOK func(callee *ssa.Function) bool

func (pc *pathCtx) frameOf(in ssa.Instruction) *frame {
	if pc == nil {
		return nil
	}
	for i := len(pc.path) - 1; i >= 0; i-- {
		if pc.path[i] == in {
			return pc.frames[i]
		}
	}
	return nil
}

// res resolves a value seen in frame fr through parameter bindings and through the
// results of walked-through calls, as far as this path determines them.
func (pc *pathCtx) res(v ssa.Value, fr *frame) (ssa.Value, *frame) {
	for i := 0; i < 32 && v != nil; i++ {
		switch x := v.(type) {
		case *ssa.Parameter:
			if fr == nil || fr.parent == nil || x.Parent() != fr.fn {
				return v, fr
			}
			idx := -1
			for k, p := range fr.fn.Params {
				if p == x {
					idx = k
				}
			}
			cc := fr.callCommon()
			if cc == nil {
				return v, fr
			}
			args := cc.Args
			if idx < 0 || idx >= len(args) {
				return v, fr
			}
			v, fr = args[idx], fr.parent
			continue
		case *ssa.Call:
			if ch := pc.child(fr, x); ch != nil && ch.ret != nil && len(ch.ret.Results) == 1 {
				v, fr = ch.ret.Results[0], ch
				continue
			}
		case *ssa.Extract:
			if c, ok := x.Tuple.(*ssa.Call); ok {
				if ch := pc.child(fr, c); ch != nil && ch.ret != nil && x.Index < len(ch.ret.Results) {
					v, fr = ch.ret.Results[x.Index], ch
					continue
				}
			}
		}
		return v, fr
	}
	return v, fr
}

func (pc *pathCtx) child(fr *frame, c *ssa.Call) *frame {
	if pc == nil || pc.children == nil {
		return nil
	}
	return pc.children[fr][c]
}

// rv resolves v as seen by instruction `at` on the current path and drops the frame.
func rv(v ssa.Value, at ssa.Instruction) ssa.Value {
	if curPath == nil {
		return v
	}
	r, _ := curPath.res(v, curPath.frameOf(at))
	return r
}

// rvI resolves v as seen by the instruction at index i of the current path.
func rvI(v ssa.Value, i int) ssa.Value {
	if curPath == nil || i < 0 || i >= len(curPath.frames) {
		return v
	}
	r, _ := curPath.res(v, curPath.frames[i])
	return r
}

// rvLast resolves v as seen at the end of the path walked so far (for edge filters).
func rvLast(v ssa.Value) ssa.Value {
	if curPath == nil || len(curPath.path) == 0 {
		return v
	}
	return resolveOn(v, len(curPath.path)-1, curPath.path)
}

// rvAny resolves a value whose frame is not known: tries the frame of its defining instruction.
func rvAny(v ssa.Value) ssa.Value {
	if curPath == nil || v == nil {
		return v
	}
	if in, ok := v.(ssa.Instruction); ok {
		if fr := curPath.frameOf(in); fr != nil {
			r, _ := curPath.res(v, fr)
			return r
		}
	}
	if p, ok := v.(*ssa.Parameter); ok {
		// find a frame of that function on the path
		for i := len(curPath.frames) - 1; i >= 0; i-- {
			if curPath.frames[i] != nil && curPath.frames[i].fn == p.Parent() {
				r, _ := curPath.res(v, curPath.frames[i])
				return r
			}
		}
	}
	return v
}

// walkPathsP enumerates acyclic paths like walkPaths; the edge filter sees the path
// walked so far. Calls to functions accepted by inlineOK are walked through:
// the call instruction is followed on the path by the callee's instructions and,
// after its return, by the rest of the caller.
func walkPathsP(start Loc, terminal func(ssa.Instruction) bool, edgeOK func(b *ssa.BasicBlock, succ int, path []ssa.Instruction) bool, budget int, visit func(path []ssa.Instruction, end pathEnd)) error {
	n := 0
	type key struct {
		fr *frame
		b  *ssa.BasicBlock
	}
	onPath := map[key]bool{}
	pc := &pathCtx{children: map[*frame]map[*ssa.Call]*frame{}}
	var build func(fn *ssa.Function, depth int) *frame
	build = func(fn *ssa.Function, depth int) *frame {
		fr := &frame{fn: fn}
		if oc, h, ic := passedVia(fn); oc != nil && depth < 3 && theWorld != nil {
			// a literal handed to a helper that calls it: literal ← helper ← the function that wrote the literal
			outerFr := build(oc.Parent(), depth+1)
			hfr := &frame{fn: h, call: oc, parent: outerFr, retBlock: oc.Block(), depth: outerFr.depth + 1}
			for i, in := range oc.Block().Instrs {
				if in == ssa.Instruction(oc) {
					hfr.retIdx = i + 1
				}
			}
			outerFr.midB, outerFr.midI = oc.Block(), hfr.retIdx
			if pc.children[outerFr] == nil {
				pc.children[outerFr] = map[*ssa.Call]*frame{}
			}
			pc.children[outerFr][oc] = hfr
			fr.parent, fr.call, fr.retBlock, fr.depth = hfr, ic, ic.Block(), hfr.depth+1
			for i, in := range ic.Block().Instrs {
				if in == ssa.Instruction(ic) {
					fr.retIdx = i + 1
				}
			}
			hfr.midB, hfr.midI = ic.Block(), fr.retIdx
			if pc.children[hfr] == nil {
				pc.children[hfr] = map[*ssa.Call]*frame{}
			}
			pc.children[hfr][ic] = fr
			return fr
		}
		if depth < 3 && theWorld != nil && isHelper(fn) {
			if sites := theWorld.callSitesOf(fn); len(sites) == 1 {
				c := sites[0]
				parent := build(c.Parent(), depth+1)
				fr.parent, fr.call, fr.retBlock, fr.depth = parent, c, c.Block(), parent.depth+1
				for i, in := range c.Block().Instrs {
					if in == ssa.Instruction(c) {
						fr.retIdx = i + 1
					}
				}
				parent.midB, parent.midI = c.Block(), fr.retIdx
				if pc.children[parent] == nil {
					pc.children[parent] = map[*ssa.Call]*frame{}
				}
				pc.children[parent][c] = fr
			}
		}
		return fr
	}
	root := build(start.B.Parent(), 0)
	if start.B != start.B.Parent().Blocks[0] || start.I != 0 {
		root.midB, root.midI = start.B, start.I
	}
	emit := func(end pathEnd) error {
		n++
		if n > budget {
			return errTooManyPaths
		}
		saved := curPath
		curPath = pc
		visit(pc.path, end)
		curPath = saved
		return nil
	}
	onStack := func(fr *frame, fn *ssa.Function) bool {
		for f := fr; f != nil; f = f.parent {
			if f.fn == fn {
				return true
			}
		}
		return false
	}
	revisited := map[key]bool{}
	var rec func(b *ssa.BasicBlock, from int, fr *frame) error
	// recExit: b is passed again (its instructions are appended to the path; no call in it is walked through a second
	// time) and left through the successors that are not on the path
	recExit := func(b *ssa.BasicBlock, fr *frame) error {
		mark := len(pc.path)
		defer func() { pc.path, pc.frames = pc.path[:mark], pc.frames[:mark] }()
		for _, in := range b.Instrs {
			if _, isCall := in.(*ssa.Call); isCall {
				return nil // keep it simple: loop heads that compute their condition with a call are not re-passed
			}
			pc.path = append(pc.path, in)
			pc.frames = append(pc.frames, fr)
		}
		for si, s := range b.Succs {
			if onPath[key{fr, s}] {
				continue
			}
			if edgeOK != nil {
				saved := curPath
				curPath = pc
				ok := edgeOK(b, si, pc.path)
				curPath = saved
				if !ok {
					continue
				}
			}
			if err := rec(s, 0, fr); err != nil {
				return err
			}
		}
		return nil
	}
	rec = func(b *ssa.BasicBlock, from int, fr *frame) error {
		mark := len(pc.path)
		defer func() { pc.path, pc.frames = pc.path[:mark], pc.frames[:mark] }()
		for i := from; i < len(b.Instrs); i++ {
			in := b.Instrs[i]
			pc.path = append(pc.path, in)
			pc.frames = append(pc.frames, fr)
			if terminal != nil && terminal(in) {
				return emit(endTerminal)
			}
			switch x := in.(type) {
			case *ssa.Panic:
				return emit(endTerminal)
			case *ssa.Return:
				if fr.parent == nil {
					return emit(endTerminal)
				}
				if fr.deferred != nil && len(fr.rest) > 0 {
					// the next deferred function of the same activation
					if nf := deferFrame(fr.rest, fr.parent, fr.retBlock, fr.retIdx); nf != nil {
						return rec(nf.fn.Blocks[0], 0, nf)
					}
				}
				fr.ret = x
				err := rec(fr.retBlock, fr.retIdx, fr.parent)
				fr.ret = nil
				return err
			case *ssa.RunDefers:
				// the function literals and helpers this activation has deferred on this path run here, last first
				if inlineOK != nil && theWorld != nil && fr.depth < 3 {
					var ds []*ssa.Defer
					for j := len(pc.path) - 1; j >= 0; j-- {
						if d, ok := pc.path[j].(*ssa.Defer); ok && pc.frames[j] == fr {
							ds = append(ds, d)
						}
					}
					if fr.midB != nil {
						// entered in the middle: what was deferred before that point on every way to it
						for _, db := range fr.fn.Blocks {
							for di := len(db.Instrs) - 1; di >= 0; di-- {
								if d, ok := db.Instrs[di].(*ssa.Defer); ok {
									if (db == fr.midB && di < fr.midI) || (db != fr.midB && db.Dominates(fr.midB)) {
										ds = append(ds, d)
									}
								}
							}
						}
					}
					if nf := deferFrame(ds, fr, b, i+1); nf != nil && !onStack(fr, nf.fn) {
						return rec(nf.fn.Blocks[0], 0, nf)
					}
				}
			case *ssa.Call:
				callee := x.Call.StaticCallee()
				viaValue := false
				if callee != nil && callee.Parent() != nil && inlineOK != nil && theWorld != nil && theWorld.inModule(callee) {
					viaValue = true // a function literal called where it is defined
				}
				if callee == nil && !x.Call.IsInvoke() && inlineOK != nil && theWorld != nil {
					// a call through a function value that this path determines (a function-typed parameter of a
					// walked-through helper bound to a function literal or a named function by the caller)
					fv, _ := pc.res(x.Call.Value, fr)
					if _, isLit := fv.(*ssa.MakeClosure); isLit || fv != x.Call.Value {
						// (captured variables of a function literal stay symbolic: they are not resolved through frames)
						// only function literals and helpers: a function the rules know by name is judged by its own rules
						if f := funcOfValue(fv); f != nil && f.Blocks != nil && theWorld.inModule(f) && !theWorld.TestSupport[f] && (f.Parent() != nil || inlineOK(f)) {
							callee, viaValue = f, true
						}
					}
				}
				if inlineOK != nil && callee != nil && callee.Blocks != nil && fr.depth < 3 && !onStack(fr, callee) && (viaValue || inlineOK(callee)) {
					nf := &frame{fn: callee, call: x, parent: fr, retBlock: b, retIdx: i + 1, depth: fr.depth + 1}
					if pc.children[fr] == nil {
						pc.children[fr] = map[*ssa.Call]*frame{}
					}
					// (the call may already stand for the activation the walk started in — a loop that comes back to it)
					prevChild, hadChild := pc.children[fr][x]
					pc.children[fr][x] = nf
					err := rec(callee.Blocks[0], 0, nf)
					if hadChild {
						pc.children[fr][x] = prevChild
					} else {
						delete(pc.children[fr], x)
					}
					return err
				}
			}
		}
		if from == 0 {
			onPath[key{fr, b}] = true
			defer delete(onPath, key{fr, b})
		}
		for si, s := range b.Succs {
			if edgeOK != nil {
				saved := curPath
				curPath = pc
				ok := edgeOK(b, si, pc.path)
				curPath = saved
				if !ok {
					continue
				}
			}
			if onPath[key{fr, s}] {
				if err := emit(endCycle); err != nil {
					return err
				}
				// a loop that ends through a flag its body sets (`for done := false; !done; {…}`): the exit is taken from
				// the loop's head on the way back, so (on request) the head is passed a second time and left through
				// the branches not yet on the path
				if (walkLoopExits || forceLoopExits) && !revisited[key{fr, s}] {
					revisited[key{fr, s}] = true
					err := recExit(s, fr)
					delete(revisited, key{fr, s})
					if err != nil {
						return err
					}
				}
				continue
			}
			if err := rec(s, 0, fr); err != nil {
				return err
			}
		}
		return nil
	}
	return rec(start.B, start.I, root)
}

// deferFrame: the activation of the first deferred function of ds that is walked through (a function literal or a
// helper of the module), with the remaining ones queued behind it; nil if none is.
func deferFrame(ds []*ssa.Defer, parent *frame, retBlock *ssa.BasicBlock, retIdx int) *frame {
	for k, d := range ds {
		callee := d.Call.StaticCallee()
		if callee == nil || callee.Blocks == nil || !theWorld.inModule(callee) || theWorld.TestSupport[callee] {
			continue
		}
		if callee.Parent() == nil && !inlineOK(callee) {
			continue // a function the rules know by name: the defer statement itself is what they look at
		}
		return &frame{fn: callee, deferred: d, rest: ds[k+1:], parent: parent, retBlock: retBlock, retIdx: retIdx, depth: parent.depth + 1}
	}
	return nil
}

// frameOfValue: the value defined by instruction in is the same runtime value for the branches at path indices i and j:
// both see the activation in which it was computed last before i (a helper walked through twice computes it twice).
func frameOfValue(in ssa.Instruction, i, j int) bool {
	if curPath == nil {
		return true
	}
	last := -1
	for k := 0; k <= j && k < len(curPath.path); k++ {
		if curPath.path[k] == in {
			if k <= i {
				last = k
			} else {
				return false // computed again between the two branches
			}
		}
	}
	_ = last
	return true
}

// walkLoopExits: see walkPathsP (set by a rule around its walk).
var walkLoopExits bool

// forceLoopExits: every walk passes a loop head a second time and leaves through the branches not yet on the path, so
// that what a loop carries out after an iteration is seen (XLOOPEXITS=0 switches it off, for comparison).
var forceLoopExits = os.Getenv("XLOOPEXITS") != "0"

// phiFeasible prunes edges whose condition is decided once phis are resolved
// along the path: `x != nil` with x a phi of nil / MakeInterface, and
// comparisons of two constants.
func phiFeasible(b *ssa.BasicBlock, succ int, path []ssa.Instruction) bool {
	c, truth, ok := edgeAssertion(b, succ)
	if !ok {
		return true
	}
	// a condition that this path has already fixed: the result of a walked-through helper, a phi of constants
	{
		r := resolveOn(c, len(path)-1, path)
		if os.Getenv("XDEBUG") == "2" && theWorld != nil {
			fmt.Fprintf(os.Stderr, "  phiFeasible %s cond %s -> %s (%T)\n", theWorld.ipos(path[len(path)-1]), c.Name(), r.String(), r)
		}
		if bv, isC := boolConst(r); isC {
			return bv == truth
		}
		// the same condition (the same value in the same activation) tested earlier on this path with the other outcome:
		// `case a && b: … case a:` tests a twice
		if !walkLoopExits && curPath != nil && len(curPath.frames) >= len(path) {
			rn, neg := stripNot(r)
			want := truth != neg
			for i := 0; i+1 < len(path)-1; i++ {
				iff, isIf := path[i].(*ssa.If)
				if !isIf || path[i+1].Block().Parent() != iff.Block().Parent() {
					continue
				}
				for si, sb := range iff.Block().Succs {
					if sb != path[i+1].Block() {
						continue
					}
					if pc2, pt, ok2 := edgeAssertion(iff.Block(), si); ok2 {
						pr, pneg := stripNot(resolveOn(pc2, i, path))
						if _, isConst := pr.(*ssa.Const); !isConst && pr == rn {
							if in, isIn := pr.(ssa.Instruction); !isIn || frameOfValue(in, i, len(path)-1) {
								if (pt != pneg) != want {
									return false
								}
							}
						}
					}
					break
				}
			}
		}
	}
	// the ok of a lookup in an effectively constant table with a key this path fixes to a constant
	if ex, isEx := c.(*ssa.Extract); isEx && ex.Index == 1 && theWorld != nil {
		if lk, isLk := ex.Tuple.(*ssa.Lookup); isLk && lk.CommaOk {
			if t, _ := theWorld.tableLookup(lk); t != nil {
				if k, isS := stringConst(resolveOn(lk.Index, len(path)-1, path)); isS {
					found := false
					for _, e := range t {
						if e.Key == k {
							found = true
						}
					}
					return found == truth
				}
			}
		}
	}
	if x, eq, isN := nilCompare(c); isN {
		v := resolveOn(x, len(path)-1, path)
		if os.Getenv("XDEBUG") == "2" && theWorld != nil {
			fmt.Fprintf(os.Stderr, "    nil-compare of %s -> %s\n", x.String(), v.String())
		}
		// contradiction with an earlier nil test of the same (resolved) value on this path
		if !isNilConst(v) {
			contra := false
			for i := 0; i+1 < len(path); i++ {
				iff, isIf := path[i].(*ssa.If)
				if !isIf || path[i].Block().Parent() != path[i+1].Block().Parent() {
					continue
				}
				pb := iff.Block()
				for si, sb := range pb.Succs {
					if sb != path[i+1].Block() {
						continue
					}
					if pc2, pt, ok2 := edgeAssertion(pb, si); ok2 {
						if px, peq, isN2 := nilCompare(pc2); isN2 {
							pv := resolveOn(px, i, path)
							if pv == v && (peq == pt) != (eq == truth) {
								contra = true
							}
						}
					}
					break
				}
			}
			if contra {
				return false
			}
		}
		if c, isCall := v.(*ssa.Call); isCall && alwaysNonNil(c.Call.StaticCallee(), 0) {
			return eq != truth
		}
		switch v.(type) {
		case *ssa.MakeInterface, *ssa.Alloc, *ssa.MakeSlice, *ssa.MakeMap, *ssa.MakeClosure, *ssa.FieldAddr:
			return eq != truth // x is non-nil: edge asserting x == nil infeasible
		case *ssa.Const:
			if isNilConst(v) {
				return eq == truth
			}
		}
		return true
	}
	if bo, isB := c.(*ssa.BinOp); isB && (bo.Op == token.EQL || bo.Op == token.NEQ) {
		x, y := resolveOn(bo.X, len(path)-1, path), resolveOn(bo.Y, len(path)-1, path)
		cx, okx := constOf(x)
		cy, oky := constOf(y)
		if okx && oky && cx.Value != nil && cy.Value != nil {
			same := constant.Compare(cx.Value, token.EQL, cy.Value)
			return (same == (bo.Op == token.EQL)) == truth
		}
	}
	return true
}

// alwaysNonNil: a function with one result that is never nil — the standard error constructors, or a module
// function each of whose returns is a MakeInterface, an allocation, or a call of such a function.
func alwaysNonNil(fn *ssa.Function, depth int) bool {
	if fn == nil || depth > 3 {
		return false
	}
	switch fn.String() {
	case "errors.New", "fmt.Errorf", "golang.org/x/xerrors.New", "golang.org/x/xerrors.Errorf":
		return true
	}
	if fn.Blocks == nil || fn.Signature.Results().Len() != 1 {
		return false
	}
	ok, n := true, 0
	allInstrs(fn, func(in ssa.Instruction) {
		rt, isR := in.(*ssa.Return)
		if !isR {
			return
		}
		n++
		switch x := rt.Results[0].(type) {
		case *ssa.MakeInterface, *ssa.Alloc, *ssa.MakeSlice, *ssa.MakeMap, *ssa.MakeClosure:
		case *ssa.Call:
			if !alwaysNonNil(x.Call.StaticCallee(), depth+1) {
				ok = false
			}
		default:
			ok = false
		}
	})
	return ok && n > 0
}

// rres: the results of a return as this path determines them — a result that is the outcome of a walked-through
// helper is replaced by what the helper returned on this path (and, if that is a phi, by the edge the path took).
// Results that involve no helper are returned unchanged.
func rres(path []ssa.Instruction, ret *ssa.Return) []ssa.Value {
	if curPath == nil {
		return ret.Results
	}
	idx := -1
	for i := len(path) - 1; i >= 0; i-- {
		if path[i] == ssa.Instruction(ret) {
			idx = i
			break
		}
	}
	if idx < 0 {
		return ret.Results
	}
	out := make([]ssa.Value, len(ret.Results))
	for i, v := range ret.Results {
		// resolved through walked-through helpers, then through the phis this path fixes
		out[i] = resolveOn(v, idx, path)
	}
	return out
}

// dynBind: parameter → argument bindings of the calls currently being descended into by an interprocedural summary
// (a generic dispatcher that receives its table as a parameter is judged per caller).
var dynBind = map[ssa.Value]ssa.Value{}

func withBind(callee *ssa.Function, args []ssa.Value, f func()) {
	var set []ssa.Value
	for i, p := range callee.Params {
		if i < len(args) {
			if _, had := dynBind[p]; !had {
				dynBind[p] = args[i]
				set = append(set, p)
			}
		}
	}
	f()
	for _, p := range set {
		delete(dynBind, p)
	}
}

// dynCallees: the module functions a call may run — its static callee, or, for a call through a function value, the
// entries of the effectively constant table it was looked up in. nil if unknown.
func (w *World) dynCallees(scope *ssa.Function, c *ssa.Call) []*ssa.Function {
	if callee := c.Call.StaticCallee(); callee != nil {
		if callee.Blocks != nil {
			return []*ssa.Function{callee}
		}
		return nil
	}
	if c.Call.IsInvoke() {
		return nil
	}
	v := c.Call.Value
	if ex, ok := v.(*ssa.Extract); ok && ex.Index == 0 {
		v = ex.Tuple
	}
	lk, ok := v.(*ssa.Lookup)
	if !ok {
		return nil
	}
	src := originIn(scope, lk.X)
	if curPath != nil {
		src = rvCur(src) // on an enumerated path the frames say which caller's table this is
	}
	for i := 0; i < 4; i++ {
		b, bound := dynBind[src]
		if !bound {
			break
		}
		src = b
	}
	u, ok := src.(*ssa.UnOp)
	if !ok {
		return nil
	}
	g, ok := u.X.(*ssa.Global)
	if !ok {
		return nil
	}
	var out []*ssa.Function
	for _, e := range w.constMapTable(g) {
		f := w.unwrap(funcOfValue(e.Val))
		if f == nil || f.Blocks == nil {
			return nil
		}
		out = append(out, f)
	}
	return out
}

// resolveOn: v as the instruction at index idx of the path sees it — through the parameters and results of
// walked-through helpers and through the phis the path fixes, repeatedly (a flag variable that receives a helper's
// result is a phi of a call result).
func resolveOn(v ssa.Value, idx int, path []ssa.Instruction) ssa.Value {
	for i := 0; i < 6; i++ {
		pp := path
		if idx >= 0 && idx+1 < len(path) {
			pp = path[:idx+1] // a block passed twice (walkLoopExits): the entry that precedes the use decides
		}
		n := valueOnPath(rvI(v, idx), pp)
		if n == v {
			// a field read back right after it was assigned on this path (`s.err = helper(); if s.err != nil`)
			if m, at := fieldLoadOnPath(v, idx, path); m != nil {
				v, idx = m, at
				continue
			}
			// a local variable that lives in memory (captured by a function literal, or a named result of a function
			// with defers) read after it was assigned on this path
			if m, at := cellLoadOnPath(v, idx, path); m != nil {
				v, idx = m, at
				continue
			}
			return v
		}
		v = n
	}
	return v
}

// cellOf: the local variable (Alloc) an address stands for in activation fr — the Alloc itself, or, for a captured
// variable of a function literal, the variable of the enclosing activation it is bound to. nil if unknown.
func cellOf(addr ssa.Value, fr *frame) (*ssa.Alloc, *frame) {
	for k := 0; k < 4; k++ {
		switch x := addr.(type) {
		case *ssa.Alloc:
			if x.Heap && len(*x.Referrers()) == 0 {
				return nil, nil
			}
			return x, fr
		case *ssa.FreeVar:
			if fr == nil || fr.fn != x.Parent() || fr.parent == nil || curPath == nil {
				return nil, nil
			}
			cc := fr.callCommon()
			if cc == nil {
				return nil, nil
			}
			fv, pf := curPath.res(cc.Value, fr.parent)
			mc, ok := fv.(*ssa.MakeClosure)
			if !ok || mc.Fn != ssa.Value(fr.fn) {
				return nil, nil
			}
			idx := -1
			for i, f := range fr.fn.FreeVars {
				if f == x {
					idx = i
				}
			}
			if idx < 0 || idx >= len(mc.Bindings) {
				return nil, nil
			}
			addr, fr = mc.Bindings[idx], pf
		default:
			return nil, nil
		}
	}
	return nil, nil
}

// cellLoadOnPath: for a load of a local variable that lives in memory, the value the nearest earlier store on the path
// assigned to that variable (in this activation or, through a captured variable, in a function literal walked through
// on the path). Gives up at a call that is not walked through and may run a literal that captures the variable.
func cellLoadOnPath(v ssa.Value, idx int, path []ssa.Instruction) (ssa.Value, int) {
	u, ok := v.(*ssa.UnOp)
	if !ok || u.Op != token.MUL || curPath == nil || len(curPath.frames) < len(path) {
		return nil, 0
	}
	switch u.X.(type) {
	case *ssa.Alloc, *ssa.FreeVar:
	default:
		return nil, 0
	}
	if idx >= len(path) {
		idx = len(path) - 1
	}
	at := -1
	for i := idx; i >= 0; i-- {
		if path[i] == ssa.Instruction(u) {
			at = i
			break
		}
	}
	if at < 0 {
		return nil, 0
	}
	cell, cfr := cellOf(u.X, curPath.frames[at])
	if os.Getenv("XDEBUG") == "3" {
		fmt.Fprintf(os.Stderr, "cellLoad %s at=%d cell=%v frame=%v\n", u.String(), at, cell, curPath.frames[at] != nil)
	}
	if cell == nil {
		return nil, 0
	}
	// the function literals that capture the variable, and whether one of them is kept somewhere (stored, started as a
	// goroutine): then any call that is not walked through may run it
	capturing := map[ssa.Value]bool{}
	escaped, deferredCap := false, false
	for _, rf := range *cell.Referrers() {
		mc, isMC := rf.(*ssa.MakeClosure)
		if !isMC {
			continue
		}
		capturing[mc] = true
		for _, r2 := range *mc.Referrers() {
			switch y := r2.(type) {
			case *ssa.Call, *ssa.DebugRef:
			case *ssa.Defer:
				deferredCap = true
				_ = y
			default:
				escaped = true
			}
		}
	}
	walked := func(i int) bool { return i+1 < len(path) && path[i+1].Parent() != path[i].Parent() }
	for i := at - 1; i >= 0; i-- {
		switch x := path[i].(type) {
		case *ssa.Store:
			if c2, f2 := cellOf(x.Addr, curPath.frames[i]); c2 == cell && f2 == cfr {
				return x.Val, i
			}
		case *ssa.Alloc:
			if x == cell && curPath.frames[i] == cfr {
				return nil, 0 // declared here: zero value, nothing stored yet
			}
		case *ssa.RunDefers:
			if deferredCap && curPath.frames[i] == cfr && !walked(i) {
				// a capturing literal deferred on this path (or possibly before the walk's start) ran here unseen
				pending := cfr != nil && cfr.midB != nil
				for j := 0; j < i; j++ {
					if d, ok := path[j].(*ssa.Defer); ok && curPath.frames[j] == cfr && capturing[d.Call.Value] {
						pending = true
					}
				}
				if pending {
					return nil, 0
				}
			}
		case *ssa.Call:
			if len(capturing) == 0 || walked(i) {
				continue
			}
			if escaped {
				return nil, 0
			}
			if capturing[x.Call.Value] {
				return nil, 0
			}
			for _, a := range x.Call.Args {
				if capturing[a] {
					return nil, 0
				}
			}
		}
	}
	return nil, 0
}

// fieldLoadOnPath: for a load of a struct field, the value stored to the same field of the same object by the nearest
// earlier store on the path, provided that no call that is not walked through lies in between (it could assign the
// field). Returns the stored value and the index of the store.
func fieldLoadOnPath(v ssa.Value, idx int, path []ssa.Instruction) (ssa.Value, int) {
	u, ok := v.(*ssa.UnOp)
	if !ok || u.Op != token.MUL {
		return nil, 0
	}
	fa, ok := u.X.(*ssa.FieldAddr)
	if !ok {
		return nil, 0
	}
	if idx >= len(path) {
		idx = len(path) - 1
	}
	// the load itself must lie on the path at or before idx
	at := -1
	for i := idx; i >= 0; i-- {
		if path[i] == ssa.Instruction(u) {
			at = i
			break
		}
	}
	if at < 0 {
		return nil, 0
	}
	for i := at - 1; i >= 0; i-- {
		switch x := path[i].(type) {
		case *ssa.Store:
			if fa2, ok := x.Addr.(*ssa.FieldAddr); ok && fa2.Field == fa.Field && fieldOfAddr(fa2) == fieldOfAddr(fa) {
				if sameAddr(fa2, fa) || sameValue(rvI(fa2.X, i), rvI(fa.X, at)) {
					return x.Val, i
				}
				return nil, 0 // a store to that field of an object that may or may not be the same one
			}
		case *ssa.Call:
			if i+1 < len(path) && path[i+1].Parent() != x.Parent() && path[i+1].Parent() != nil && i+1 <= at {
				continue // walked through: its instructions are on the path
			}
			callee := x.Call.StaticCallee()
			if callee != nil && (theWorld == nil || !theWorld.inModule(callee)) {
				continue // the standard library does not assign the module's fields
			}
			if x.Call.IsInvoke() || callee == nil || callee.Blocks != nil {
				return nil, 0
			}
		case *ssa.Go, *ssa.Defer:
		}
	}
	return nil, 0
}
