package main

// E5 — lock regions. For one function and one mutex (identified by the field
// object of the sync.Mutex/RWMutex), a forward must-hold dataflow gives the
// lock state at every instruction and the identity of the critical section
// (the acquiring instruction) it lies in.

import (
	"go/types"
	"strings"

	"golang.org/x/tools/go/ssa"
)

type lockState struct {
	mode     int             // 0 none, 1 read, 2 write, -1 inconsistent (held on some paths only)
	region   ssa.Instruction // acquiring instruction; nil if none/inconsistent
	deferred bool            // a deferred release is pending
}

type lockInfo struct {
	fn      *ssa.Function
	at      map[ssa.Instruction]lockState // state *before* the instruction
	issues  []string                      // pairing problems
	nAcq    int
	mutexOf func(c ssa.CallInstruction) *types.Var
}

// mutexCall classifies a call as an operation on a mutex field.
// Returns the field object identifying the mutex and the op (Lock, RLock, Unlock, RUnlock).
func mutexCall(w *World, c ssa.CallInstruction) (*types.Var, string) {
	k := w.callKey(c)
	var op string
	switch k {
	case "sync.RWMutex.Lock", "sync.Mutex.Lock":
		op = "Lock"
	case "sync.RWMutex.RLock":
		op = "RLock"
	case "sync.RWMutex.Unlock", "sync.Mutex.Unlock":
		op = "Unlock"
	case "sync.RWMutex.RUnlock":
		op = "RUnlock"
	default:
		return nil, ""
	}
	args := c.Common().Args
	if len(args) == 0 {
		return nil, ""
	}
	recv := args[0]
	// receiver is &x.f  or  load of a *sync.RWMutex field
	if fa, ok := recv.(*ssa.FieldAddr); ok {
		return fieldOfAddr(fa), op
	}
	if f, _ := loadedField(recv); f != nil {
		return f, op
	}
	return nil, op
}

var lockDepth int

func analyseLocks(w *World, fn *ssa.Function, mutex *types.Var) *lockInfo {
	li := &lockInfo{fn: fn, at: map[ssa.Instruction]lockState{}}
	in := map[*ssa.BasicBlock]lockState{}
	have := map[*ssa.BasicBlock]bool{}
	meet := func(a, b lockState) lockState {
		if a.mode == b.mode && a.region == b.region && a.deferred == b.deferred {
			return a
		}
		if a.mode == b.mode && a.mode != 0 {
			return lockState{mode: a.mode, region: nil, deferred: a.deferred && b.deferred}
		}
		return lockState{mode: -1}
	}
	// a function literal handed to a helper that calls it with the lock held (`r.withLock(func() { … })`) starts, and
	// must end, in that state; the critical section is the one of this hand-over
	entry := lockState{}
	if oc, h, ic := passedVia(fn); oc != nil && lockDepth < 3 {
		lockDepth++
		hl := analyseLocks(w, h, mutex)
		lockDepth--
		if st := hl.at[ic]; st.mode > 0 {
			entry = lockState{mode: st.mode, region: oc}
		}
	}
	reported := map[string]bool{}
	issue := func(s string) {
		if !reported[s] {
			reported[s] = true
			li.issues = append(li.issues, s)
		}
	}
	transfer := func(b *ssa.BasicBlock, st lockState, record bool) lockState {
		for _, ins := range b.Instrs {
			if record {
				li.at[ins] = st
			}
			switch x := ins.(type) {
			case *ssa.Call, *ssa.Defer:
				c := x.(ssa.CallInstruction)
				m, op := mutexCall(w, c)
				if m != mutex || op == "" {
					continue
				}
				_, isDefer := x.(*ssa.Defer)
				switch op {
				case "Lock", "RLock":
					if isDefer {
						continue
					}
					if st.mode > 0 {
						if record {
							issue("lock acquired at " + w.ipos(ins) + " while already held (self-deadlock)")
						}
					}
					if st.mode == -1 && record {
						issue("lock acquired at " + w.ipos(ins) + " while it may already be held on some path")
					}
					st = lockState{mode: map[string]int{"Lock": 2, "RLock": 1}[op], region: ins}
					if record {
						li.nAcq++
					}
				case "Unlock", "RUnlock":
					if isDefer {
						st.deferred = true
						continue
					}
					want := map[string]int{"Unlock": 2, "RUnlock": 1}[op]
					if st.mode != want && record {
						if st.mode == 0 {
							issue("release at " + w.ipos(ins) + " without the lock being held")
						} else if st.mode == -1 {
							issue("release at " + w.ipos(ins) + " although the lock is held on some paths only")
						} else {
							issue("release at " + w.ipos(ins) + " does not match the mode in which the lock is held")
						}
					}
					st = lockState{}
				}
			case *ssa.RunDefers:
				if st.deferred {
					st = lockState{}
				}
			case *ssa.Return:
				if entry.mode != 0 {
					if st.mode != entry.mode && record {
						issue("return at " + w.ipos(ins) + " of a function that is called with the lock held, in a different lock state")
					}
					continue
				}
				if st.mode != 0 && record {
					if st.mode == -1 {
						issue("return at " + w.ipos(ins) + " with the lock held on some paths")
					} else {
						issue("return at " + w.ipos(ins) + " with the lock still held")
					}
				}
			case *ssa.Panic:
			}
		}
		return st
	}
	// iterate to fixpoint
	work := []*ssa.BasicBlock{fn.Blocks[0]}
	in[fn.Blocks[0]] = entry
	have[fn.Blocks[0]] = true
	for iter := 0; len(work) > 0 && iter < 10000; iter++ {
		b := work[0]
		work = work[1:]
		out := transfer(b, in[b], false)
		for _, s := range b.Succs {
			if !have[s] {
				have[s] = true
				in[s] = out
				work = append(work, s)
			} else {
				m := meet(in[s], out)
				if m != in[s] {
					in[s] = m
					work = append(work, s)
				}
			}
		}
	}
	for _, b := range fn.Blocks {
		if have[b] {
			transfer(b, in[b], true)
		}
	}
	return li
}

// holdsW / holds: state before instruction.
func (li *lockInfo) holdsW(in ssa.Instruction) bool { return li.at[in].mode == 2 }
func (li *lockInfo) holds(in ssa.Instruction) bool  { return li.at[in].mode >= 1 }

// sameRegion: both instructions lie in the critical section opened by the same acquire.
func (li *lockInfo) sameRegion(a, b ssa.Instruction) bool {
	sa, sb := li.at[a], li.at[b]
	return sa.mode >= 1 && sb.mode >= 1 && sa.region != nil && sa.region == sb.region
}

// calledWithLockHeld: every call site of fn in the module holds the mutex (mode>=min).
func calledWithLock(w *World, fn *ssa.Function, mutex *types.Var, minMode int) (bool, []string) {
	key := ""
	if fn.Object() != nil {
		key = w.funcObjKey(fn.Object().(*types.Func))
	}
	var sites []string
	all := true
	n := 0
	for _, f := range w.LibFuncs() {
		calls := w.callsIn(f, key)
		if len(calls) == 0 {
			continue
		}
		li := analyseLocks(w, f, mutex)
		for _, c := range calls {
			n++
			ok := li.at[c.(ssa.Instruction)].mode >= minMode
			if !ok {
				all = false
			}
			sites = append(sites, w.ipos(c)+"="+map[bool]string{true: "held", false: "NOT held"}[ok])
		}
	}
	return all && n > 0, sites
}

func mutexName(m *types.Var) string {
	return strings.TrimSpace(m.Name())
}
