package main

// C01, rules added from the mutation campaign (DESIGN.md 7.4): three necessary conditions of "what was parsed is what
// was sent" that live in the hand-written decoders and that the table rules R4/R5 do not see.

import (
	"fmt"
	"go/types"
	"strings"

	"golang.org/x/tools/go/ssa"
)

func c01Decoders(w *World, r *Report) {
	r.Rule("R11", "hand-written decoders keep what they read: a number parsed from an attribute is stored only where the parse succeeded and is read in base 10; a child decoded into a local variable is then used (stored into the value) — never decoded and dropped")
	nDec := 0
	for _, fn := range w.LibFuncs() {
		if fn.Name() != "UnmarshalXML" || fn.Signature.Recv() == nil || len(fn.Params) != 3 || fn.Pkg == nil || fn.Pkg.Pkg.Path() != pkgStanza {
			continue
		}
		pt, ok := fn.Params[0].Type().Underlying().(*types.Pointer)
		if !ok {
			continue
		}
		if _, ok := pt.Elem().Underlying().(*types.Struct); !ok {
			continue
		}
		nDec++
		fk := w.funcKey(fn)
		// --- numbers parsed from attributes
		nParse := 0
		allInstrsH(fn, func(in ssa.Instruction) {
			c, ok := in.(*ssa.Call)
			if !ok {
				return
			}
			k := w.callKey(c)
			if !(k == "strconv.ParseUint" || k == "strconv.ParseInt" || k == "strconv.Atoi") {
				return
			}
			ev := errResult(c)
			var val ssa.Value
			for _, rf := range *c.Referrers() {
				if ex, ok := rf.(*ssa.Extract); ok && ex.Index == 0 {
					val = ex
				}
			}
			if ev == nil || val == nil {
				return
			}
			nParse++
			cons := fmt.Sprintf("%s#parse#%d", fk, nParse)
			bad := ""
			if k != "strconv.Atoi" {
				if b, isC := intConst(c.Call.Args[1]); !isC || b != 10 {
					bad = "the attribute is written in decimal but read in another base"
				}
				// the widest type the parsed number is converted to (the field's type): the bit size must not be narrower
				widest := int64(0)
				for _, rf := range *val.Referrers() {
					if cv, ok := rf.(*ssa.Convert); ok {
						if bt, ok := cv.Type().Underlying().(*types.Basic); ok {
							sz := int64(64)
							switch bt.Kind() {
							case types.Uint32, types.Int32:
								sz = 32
							case types.Uint16, types.Int16:
								sz = 16
							case types.Uint8, types.Int8:
								sz = 8
							}
							if sz > widest {
								widest = sz
							}
						}
					}
				}
				if widest == 0 {
					widest = 64
				}
				if bs, isC := intConst(c.Call.Args[2]); !isC || !(bs == 0 || bs >= widest) {
					bad = "the attribute is read with a bit size that rejects values the field can hold (and the encoder writes)"
				}
			}
			// every store that depends on the parsed value lies behind the err == nil edge
			pf := c.Parent()
			okEdges := edgesAsserting(pf, func(cv ssa.Value, truth bool) bool { return assertsNil(cv, truth, ev) })
			allInstrs(pf, func(x ssa.Instruction) {
				s, ok := x.(*ssa.Store)
				if !ok || !dependsOn(s.Val, val, 0) {
					return
				}
				if len(okEdges) == 0 || reachable(after(c), func(y ssa.Instruction) bool { return y == x }, nil, okEdges) {
					bad = "a number parsed from an attribute is stored (" + w.ipos(x) + ") where the parse has not been found to succeed: on malformed input the field gets a meaningless value, on well-formed input it may not be set at all"
				}
			})
			r.Check(bad == "", "R11", cons, w.ipos(c), bad, "base 10; stored only on the err == nil edge")
		})
		// --- children decoded into a local are used afterwards
		nLocal := 0
		allInstrsH(fn, func(in ssa.Instruction) {
			c, ok := in.(*ssa.Call)
			if !ok || !strings.HasSuffix(w.callKey(c), "Decoder.DecodeElement") || len(c.Call.Args) < 3 {
				return
			}
			a := c.Call.Args[1]
			var via ssa.Value
			if mi, ok := a.(*ssa.MakeInterface); ok {
				via, a = mi, mi.X
			}
			al, ok := a.(*ssa.Alloc)
			if !ok {
				return
			}
			nLocal++
			used := false
			for _, rf := range *al.Referrers() {
				switch x := rf.(type) {
				case *ssa.DebugRef:
				case *ssa.MakeInterface:
					if ssa.Value(x) == via {
						// the conversion made for this DecodeElement: used only if it also goes somewhere else
						for _, r2 := range *x.Referrers() {
							if r2 != ssa.Instruction(c) {
								if _, isDbg := r2.(*ssa.DebugRef); !isDbg {
									used = true
								}
							}
						}
						continue
					}
					used = true
				case *ssa.Store:
					if x.Val == ssa.Value(al) {
						used = true // the pointer itself is stored
					}
					// a store *into* the local (its zero value, a literal) is not a use
				case *ssa.FieldAddr:
					// reading a field of the decoded value; a store into a field (initialising the literal) is not a use
					if x.Referrers() != nil {
						for _, r2 := range *x.Referrers() {
							if st, isSt := r2.(*ssa.Store); !isSt || st.Addr != ssa.Value(x) {
								if _, isDbg := r2.(*ssa.DebugRef); !isDbg {
									used = true
								}
							}
						}
					}
				case *ssa.Call:
					if x != c {
						used = true
					}
				default:
					used = true
				}
			}
			r.Check(used, "R11", fmt.Sprintf("%s#decoded-local#%d", fk, nLocal), w.ipos(c), "a child element is decoded into a local variable that is never looked at again: the element is consumed and dropped, the parsed value lacks it", "the decoded local is stored or read afterwards")
			// fresh per element: a target filled inside the token loop is a variable of that iteration, or is reset there
			if cb := c.Block(); blockReaches(cb, cb) && al.Parent() == c.Parent() {
				fresh := al.Block() == cb || (blockReaches(cb, al.Block()) && blockReaches(al.Block(), cb))
				why := ""
				if !fresh {
					reset := false
					for _, rf := range *al.Referrers() {
						if st, ok := rf.(*ssa.Store); ok && st.Addr == ssa.Value(al) && blockReaches(cb, st.Block()) && (st.Block() == cb || st.Block().Dominates(cb)) {
							reset = true
						}
					}
					switch {
					case !reset:
						why = "a child element is decoded inside the token loop into a variable declared outside it: encoding/xml neither clears its target nor truncates its slices, so a second child of the same name is merged with the first"
					case addrRetained(al, c, via):
						why = "a child element is decoded inside the token loop into a variable declared outside it whose address is kept: every such child ends up as the same object"
					}
					if why != "" && addrRetained(al, c, via) {
						why += " (and its address is retained, so all of them alias one object holding the last one read)"
					}
				}
				r.Check(why == "", "R11", fmt.Sprintf("%s#decoded-local#%d#fresh", fk, nLocal), w.ipos(c), why, "the target is a variable of the loop iteration")
			}
		})
	}
	if nDec < 10 {
		r.Undecided("R11", "decoders#instances", "-", fmt.Sprintf("only %d hand-written decoders found, 12 confirmed by hand", nDec))
	}
	// every attribute of the start element is looked at: a loop over start.Attr is left by exhaustion, or with an error
	nAttrLoops := 0
	for _, fn := range w.LibFuncs() {
		if fn.Pkg == nil || fn.Pkg.Pkg.Name() != "stanza" || len(fn.Blocks) == 0 {
			continue
		}
		seenLoop := map[*ssa.BasicBlock]bool{}
		for _, b := range fn.Blocks {
			for _, in := range b.Instrs {
				ia, ok := in.(*ssa.IndexAddr)
				if !ok || !blockReaches(b, b) {
					continue
				}
				sl, ok := ia.X.Type().Underlying().(*types.Slice)
				if !ok || !strings.HasSuffix(sl.Elem().String(), "encoding/xml.Attr") {
					continue
				}
				// the loop: blocks on a cycle with b; its head: the one entered from outside
				inLoop := map[*ssa.BasicBlock]bool{}
				for _, x := range fn.Blocks {
					if x == b || (blockReaches(b, x) && blockReaches(x, b)) {
						inLoop[x] = true
					}
				}
				var head *ssa.BasicBlock
				for x := range inLoop {
					for _, p := range x.Preds {
						if !inLoop[p] && (head == nil || x.Index < head.Index) {
							head = x
						}
					}
				}
				if head == nil || seenLoop[head] {
					continue
				}
				seenLoop[head] = true
				nAttrLoops++
				bad := ""
				// (a search for one attribute may stop at the first hit: nothing else is being collected)
				targets := map[string]bool{}
				for x := range inLoop {
					for _, in2 := range x.Instrs {
						if st, isSt := in2.(*ssa.Store); isSt {
							if fa, isFA := st.Addr.(*ssa.FieldAddr); isFA {
								if f := fieldOfAddr(fa); f != nil {
									targets["field:"+f.Name()] = true
								}
							} else {
								targets[fmt.Sprintf("%p", st.Addr)] = true
							}
						}
					}
				}
				for x := range inLoop {
					if x == head || len(targets) <= 1 {
						continue
					}
					for _, sx := range x.Succs {
						if inLoop[sx] {
							continue
						}
						// leaving from inside the body: only with an error
						okExit := false
						if rt, isRet := sx.Instrs[len(sx.Instrs)-1].(*ssa.Return); isRet && len(sx.Instrs) <= 3 {
							for _, rv := range rt.Results {
								if types.Identical(rv.Type(), types.Universe.Lookup("error").Type()) && !isNilConst(rv) {
									okExit = true
								}
							}
						}
						if !okExit {
							bad = "the loop over the element's attributes can be left before the last attribute (to " + w.ipos(sx.Instrs[0]) + ") without an error: an attribute that comes later is never read, whichever it is"
						}
					}
				}
				r.Check(bad == "", "R11", w.funcKey(fn)+"#attr-loop@"+fmt.Sprint(head.Index), w.ipos(in), bad, "left only when the attributes are exhausted (or with an error)")
			}
		}
	}
	if nAttrLoops < 4 {
		r.Undecided("R11", "decoders#attr-loops", "-", fmt.Sprintf("only %d loops over start.Attr found, 4 confirmed by hand", nAttrLoops))
	}
}

// blockReaches: b is reachable from a through at least one edge.
func blockReaches(a, b *ssa.BasicBlock) bool {
	seen := map[*ssa.BasicBlock]bool{}
	stack := append([]*ssa.BasicBlock{}, a.Succs...)
	for len(stack) > 0 {
		x := stack[len(stack)-1]
		stack = stack[:len(stack)-1]
		if x == b {
			return true
		}
		if seen[x] {
			continue
		}
		seen[x] = true
		stack = append(stack, x.Succs...)
	}
	return false
}

// addrRetained: the address of the local goes somewhere besides the decode call (stored, appended, converted for another use, passed on).
func addrRetained(al *ssa.Alloc, c *ssa.Call, via ssa.Value) bool {
	for _, rf := range *al.Referrers() {
		switch x := rf.(type) {
		case *ssa.DebugRef, *ssa.FieldAddr, *ssa.UnOp:
		case *ssa.Store:
			if x.Val == ssa.Value(al) {
				return true
			}
		case *ssa.MakeInterface:
			if ssa.Value(x) == via {
				for _, r2 := range *x.Referrers() {
					if r2 != ssa.Instruction(c) {
						if _, isDbg := r2.(*ssa.DebugRef); !isDbg {
							return true
						}
					}
				}
				continue
			}
			return true
		case *ssa.Call:
			if x != c {
				return true
			}
		default:
			return true
		}
	}
	return false
}
