package main

// C11 — resume only with the previous id and count; drop stale state.

import (
	"fmt"
	"go/token"
	"go/types"
	"strings"

	"golang.org/x/tools/go/ssa"
)

func init() {
	register(&propDef{
		id: "C11", level: "other", run: runC11,
		trusted: []string{"encoding/xml writes previd and h of SMResume from the struct fields"},
		explain: "Decides every clause that is about the client's own behaviour, as path facts in Session.resume and NewSession: <resume/> is written only when stream management is advertised and a stored id exists (R1); its previd is the stored id and its h the inbound counter (R2); after the reply is read, every path either reports success through SMResumed with previd equal to the stored id, or zeroes the stored state (R3); the success path stores nothing to the SM state or the bound JID and NewSession does not bind or enable SM after it (R4); after a refusal NewSession always goes on to bind, whose sticky-error guard turns an error into a failed connection, and <failed/> itself sets no error (R5); the stored id only ever comes from <enabled/> (R6). Not decided: what the server does with the request; the case where the new connection does not advertise stream management (the state is kept; reported as a note because the statement conditions the reset on a reply).",
	})
}

// typeAssertSource: v is (a field load from) the value bound by `x := pkt.(T)`.
// Returns T and the field path from the bound value.
func typeAssertSource(v ssa.Value, pkt ssa.Value) (types.Type, string) {
	var names []string
	cur := v
	for i := 0; i < 8; i++ {
		switch x := cur.(type) {
		case *ssa.UnOp:
			if x.Op != token.MUL {
				return nil, ""
			}
			cur = x.X
		case *ssa.FieldAddr:
			names = append([]string{fieldOfAddr(x).Name()}, names...)
			cur = x.X
		case *ssa.Field:
			names = append([]string{fieldOfVal(x).Name()}, names...)
			cur = x.X
		case *ssa.Alloc:
			// a struct parameter of a helper spilled to a local: go on from the argument
			var spilled ssa.Value
			nst := 0
			for _, r := range *x.Referrers() {
				if st, ok := r.(*ssa.Store); ok && st.Addr == x {
					nst++
					if p, ok := st.Val.(*ssa.Parameter); ok {
						if o := origin(p); o != ssa.Value(p) {
							spilled = o
						}
					}
				}
			}
			if nst == 1 && spilled != nil {
				cur = spilled
				continue
			}
			for _, r := range *x.Referrers() {
				if st, ok := r.(*ssa.Store); ok && st.Addr == x {
					if ex, ok := st.Val.(*ssa.Extract); ok && ex.Index == 0 {
						if ta, ok := ex.Tuple.(*ssa.TypeAssert); ok && (pkt == nil || sameIface(ta.X, pkt)) {
							return ta.AssertedType, strings.Join(names, ".")
						}
					}
					if ta, ok := st.Val.(*ssa.TypeAssert); ok && !ta.CommaOk && (pkt == nil || sameIface(ta.X, pkt)) {
						return ta.AssertedType, strings.Join(names, ".")
					}
				}
			}
			return nil, ""
		case *ssa.Parameter:
			if o := origin(x); o != ssa.Value(x) {
				cur = o
				continue
			}
			return nil, ""
		case *ssa.Extract:
			if ta, ok := x.Tuple.(*ssa.TypeAssert); ok && x.Index == 0 && (pkt == nil || sameIface(ta.X, pkt)) {
				return ta.AssertedType, strings.Join(names, ".")
			}
			return nil, ""
		case *ssa.TypeAssert:
			if !x.CommaOk && (pkt == nil || sameIface(x.X, pkt)) {
				return x.AssertedType, strings.Join(names, ".")
			}
			return nil, ""
		default:
			return nil, ""
		}
	}
	return nil, ""
}

// stickyGuard: fn begins with `if recv.err != nil { return }` before any call or store.
func stickyGuard(w *World, fn *ssa.Function, fErr *types.Var) bool {
	b := fn.Blocks[0]
	for _, in := range b.Instrs {
		switch x := in.(type) {
		case *ssa.FieldAddr, *ssa.UnOp, *ssa.BinOp, *ssa.DebugRef, *ssa.Alloc:
			_ = x
		case *ssa.Store:
			// a parameter captured by a function literal is spilled to a local before anything else happens
			if _, isP := x.Val.(*ssa.Parameter); !isP {
				return false
			}
			if _, isL := x.Addr.(*ssa.Alloc); !isL {
				return false
			}
		case *ssa.If:
			c, truth, _ := edgeAssertion(b, 0)
			y, eq, ok := nilCompare(c)
			if !ok {
				return false
			}
			f, _ := loadedField(y)
			if f != fErr {
				return false
			}
			// edge on which err != nil
			errEdge := 0
			if eq == truth { // edge 0 asserts err == nil
				errEdge = 1
			}
			tb := b.Succs[errEdge]
			for _, i2 := range tb.Instrs {
				switch i2.(type) {
				case *ssa.Return:
					return true
				case *ssa.RunDefers, *ssa.DebugRef:
				default:
					return false
				}
			}
			return false
		default:
			return false
		}
	}
	return false
}

func runC11(w *World, r *Report, tier string) {
	wireRule(w, r, "W1", "<resume previd=… h=…/>, <resumed previd=…/>, <enabled id=… resume=…/>", wireSMResume, wireSMResumed, wireSMEnabled)
	r.Rule("R1", "guard: the write of <resume/> is unreachable once the edges asserting SMState.Id != \"\" are deleted, and once the true-edge of DoesStreamManagement() is deleted; no other library code sends an SMResume")
	r.Rule("R2", "content: SMResume.PrevId is a load of SMState.Id and H the address of SMState.Inbound")
	r.Rule("R3", "reset or match: after the reply is read, every path returns true through SMResumed with PrevId == SMState.Id, or stores the zero SMState")
	r.Rule("R4", "resumed ⇒ continue: the success path stores nothing to SMState/BindJid; in NewSession the true-edge of resume() reaches neither bind nor EnableStreamManagement")
	r.Rule("R5", "refused ⇒ fresh or fail: every nil-capable return of NewSession after resume()==false passes bind; bind starts with the sticky-error guard; the SMFailed path sets no error")
	r.Rule("R6", "provenance: SMState.Id is stored only from SMEnabled.Id (and zero resets)")

	fn := w.Func("xmpp.(*Session).resume")
	ns := w.Func("xmpp.NewSession")
	r.Anchor("xmpp.(*Session).resume")
	fID := w.Field("xmpp.SMState.Id")
	fInbound := w.Field("xmpp.SMState.Inbound")
	fSessSM := w.Field("xmpp.Session.SMState")
	fErr := w.Field("xmpp.Session.err")
	fBindJid := w.Field("xmpp.Session.BindJid")
	lib := w.LibFuncs()

	// locate sends of SMResume anywhere
	type rsend struct {
		fn      *ssa.Function
		marshal ssa.CallInstruction
		lit     ssa.Value
	}
	var sends []rsend
	for _, f := range lib {
		for _, c := range w.callsIn(f, "xmpp.Client.Send", "xmpp.Sender.Send", "xmpp.Component.Send", "xmpp.StreamClient.Send", "encoding/xml.Marshal", "encoding/xml.MarshalIndent", "encoding/xml.Encoder.Encode") {
			for _, arg := range c.Common().Args {
				if mi, ok := arg.(*ssa.MakeInterface); ok {
					ts := w.typeStr(mi.X.Type())
					if ts == "stanza.SMResume" || ts == "*stanza.SMResume" {
						sends = append(sends, rsend{f, c, mi.X})
					}
				}
			}
		}
	}
	if len(sends) == 0 {
		r.Undecided("R1", "SMResume#send-sites", "-", "no site that serialises an SMResume was found")
	}
	var np *ssa.Call
	for _, s := range sends {
		cons := w.ownerKey(s.fn) + "→marshal(SMResume)"
		if !w.ownedOnlyBy(s.fn, "xmpp.(*Session).resume") {
			r.Fail("R1", cons, w.ipos(s.marshal), "a <resume/> is produced outside Session.resume, where none of the guards apply")
			continue
		}
		// the write of the marshalled bytes
		var writes []ssa.Instruction
		mc, isCall := s.marshal.(*ssa.Call)
		if isCall {
			allInstrsH(fn, func(in ssa.Instruction) {
				c := asCall(in)
				if c == nil {
					return
				}
				k := w.callKey(c)
				if !strings.HasSuffix(k, ".Write") && !strings.HasSuffix(k, ".sendWithWriter") {
					return
				}
				for _, a := range c.Common().Args {
					if ex, ok := a.(*ssa.Extract); ok && ex.Tuple == ssa.Value(mc) && ex.Index == 0 {
						writes = append(writes, in)
					}
				}
			})
		}
		if len(writes) != 1 {
			r.Undecided("R1", cons+"#write", w.ipos(s.marshal), fmt.Sprintf("expected exactly one write of the marshalled <resume/>, found %d", len(writes)))
			continue
		}
		wr := writes[0]
		isWr := func(in ssa.Instruction) bool { return in == wr }
		idEdges := edgesAsserting(fn, func(c ssa.Value, truth bool) bool {
			bo, ok := c.(*ssa.BinOp)
			if !ok || (bo.Op != token.EQL && bo.Op != token.NEQ) {
				return false
			}
			var other ssa.Value
			if f, _ := loadedField(bo.X); f == fID {
				other = bo.Y
			} else if f, _ := loadedField(bo.Y); f == fID {
				other = bo.X
			} else {
				return false
			}
			s, isS := stringConst(other)
			if !isS || s != "" {
				return false
			}
			// edge asserts Id != ""
			return (bo.Op == token.NEQ) == truth
		})
		smEdges := edgesAsserting(fn, func(c ssa.Value, truth bool) bool {
			return truth && w.isResultOf(c, 0, "stanza.StreamFeatures.DoesStreamManagement")
		})
		r.Check(len(idEdges) > 0 && !reachable(entryLoc(fn), isWr, nil, idEdges), "R1", cons+"#needs-id", w.ipos(wr), "<resume/> can be written although no resumption id is stored", fmt.Sprintf("unreachable after deleting %d Id!=\"\" edge(s)", len(idEdges)))
		r.Check(len(smEdges) > 0 && !reachable(entryLoc(fn), isWr, nil, smEdges), "R1", cons+"#needs-feature", w.ipos(wr), "<resume/> can be written although the server does not advertise stream management", fmt.Sprintf("unreachable after deleting %d DoesStreamManagement() edge(s)", len(smEdges)))

		// R2 content
		fields, al := complitFields(s.lit)
		if al == nil {
			r.Undecided("R2", cons, w.ipos(s.marshal), "the SMResume sent is not a local literal")
		} else {
			pv, has := fields["PrevId"]
			pf, _ := loadedField(pv)
			r.Check(has && pf == fID && strings.HasSuffix(fieldNames(fieldPath(pv)), "SMState.Id"), "R2", cons+"#PrevId", w.ipos(al), "previd is not the stored resumption id: "+describeOpt(w, pv), "PrevId = load SMState.Id")
			hv, hasH := fields["H"]
			r.Check(hasH && addrOfFieldOrCopy(hv, fInbound), "R2", cons+"#H", w.ipos(al), "h is not the session's inbound counter: "+describeOpt(w, hv), "H = &SMState.Inbound")
		}
		// reply read after the write
		for _, c := range w.callsInH(fn, "stanza.NextPacket") {
			if cc, ok := c.(*ssa.Call); ok && reachable(after(wr), func(in ssa.Instruction) bool { return in == ssa.Instruction(cc) }, nil, nil) {
				np = cc
			}
		}
	}
	r.Floor("R1", 2)
	r.Floor("R2", 2)

	// R3 / R4 / R5(SMFailed)
	if np == nil {
		r.Undecided("R3", "xmpp.(*Session).resume#reply", w.pos(fn.Pos()), "no NextPacket read of the reply after the write of <resume/>")
	} else {
		var pkt ssa.Value
		for _, rf := range *np.Referrers() {
			if ex, ok := rf.(*ssa.Extract); ok && ex.Index == 0 {
				pkt = ex
			}
		}
		isZeroStateStore := func(in ssa.Instruction) bool {
			st, ok := in.(*ssa.Store)
			if !ok {
				return false
			}
			fa, ok := st.Addr.(*ssa.FieldAddr)
			return ok && fieldOfAddr(fa) == fSessSM && isZeroValue(st.Val)
		}
		// … or the same thing field by field: every field of the state receives its zero value on the path
		zeroesEveryField := func(path []ssa.Instruction) bool {
			stT, ok := fSessSM.Type().Underlying().(*types.Struct)
			if !ok {
				return false
			}
			done := map[string]bool{}
			forPath(path, func(i int, in ssa.Instruction) {
				st, ok := in.(*ssa.Store)
				if !ok {
					return
				}
				fa, ok := st.Addr.(*ssa.FieldAddr)
				if !ok {
					return
				}
				outer, ok := fa.X.(*ssa.FieldAddr)
				if !ok || fieldOfAddr(outer) != fSessSM {
					return
				}
				v := st.Val
				if rv := resolveOn(v, i, path); rv != nil {
					v = rv
				}
				if f := fieldOfAddr(fa); f != nil {
					done[f.Name()] = isZeroValue(v)
				}
			})
			for i := 0; i < stT.NumFields(); i++ {
				if !done[stT.Field(i).Name()] {
					return false
				}
			}
			return true
		}
		nTrue, nOther := 0, 0
		bad3, bad4 := "", ""
		// before the reply has been read nothing can have been resumed: every return on the way there says false
		{
			isNP := func(in ssa.Instruction) bool { return in == ssa.Instruction(np) }
			badEarly := ""
			nEarly := 0
			errE := walkPaths(entryLoc(fn), isNP, nil, 20000, func(path []ssa.Instruction, end pathEnd) {
				ret, isRet := path[len(path)-1].(*ssa.Return)
				if !isRet || len(ret.Results) != 1 {
					return
				}
				nEarly++
				if b, isC := boolConst(resolveOn(rres(path, ret)[0], len(path)-1, path)); !isC || b {
					badEarly = "resume reports a successful resumption before any reply has been read (return at " + w.ipos(ret) + "): NewSession returns an established session although <resume/> was not even sent"
				}
			})
			if errE != nil {
				r.Undecided("R3", "xmpp.(*Session).resume#before-reply", w.pos(fn.Pos()), errE.Error())
			} else {
				r.Check(badEarly == "", "R3", "xmpp.(*Session).resume#before-reply", w.pos(fn.Pos()), badEarly, fmt.Sprintf("%d return(s) before the reply, all false", nEarly))
			}
		}
		err := walkPaths(after(np), nil, nil, 20000, func(path []ssa.Instruction, end pathEnd) {
			last := path[len(path)-1]
			ret, isRet := last.(*ssa.Return)
			if end == endCycle || !isRet || len(ret.Results) != 1 {
				bad3 = "a path after the reply does not end in a return (loop or panic) at " + w.ipos(last)
				return
			}
			b, isC := boolConst(resolveOn(rres(path, ret)[0], len(path)-1, path))
			if isC && !b {
				nOther++
				if countOn(path, isZeroStateStore) == 0 && !zeroesEveryField(path) {
					bad3 = "a path that does not report a successful resumption keeps the stale SM state: ends at " + w.ipos(last)
				}
				return
			}
			nTrue++
			if !isC {
				bad3 = "resume returns a non-constant result at " + w.ipos(last)
				return
			}
			// success: must assert SMResumed and PrevId == Id
			okType := pathAsserts(path, func(c ssa.Value, truth bool) bool {
				T, ok := typeAssertOK(c, pkt)
				return ok && truth && w.typeStr(T) == "stanza.SMResumed"
			})
			okEq := pathAsserts(path, func(c ssa.Value, truth bool) bool {
				bo, ok := c.(*ssa.BinOp)
				if !ok || (bo.Op != token.EQL && bo.Op != token.NEQ) {
					return false
				}
				isPrev := func(v ssa.Value) bool {
					T, fp := typeAssertSource(v, pkt)
					return T != nil && w.typeStr(T) == "stanza.SMResumed" && fp == "PrevId"
				}
				isID := func(v ssa.Value) bool { f, _ := loadedField(rvAny(v)); return f == fID }
				if !((isPrev(bo.X) && isID(bo.Y)) || (isPrev(bo.Y) && isID(bo.X))) {
					return false
				}
				return (bo.Op == token.EQL) == truth
			})
			okErr := pathAsserts(path, func(c ssa.Value, truth bool) bool {
				x, eq, ok := nilCompare(c)
				if !ok || eq != truth {
					return false
				}
				if f, _ := loadedField(x); f == fErr {
					return true
				}
				if ex, ok := x.(*ssa.Extract); ok && ex.Tuple == ssa.Value(np) && ex.Index == 1 {
					return true
				}
				return false
			})
			if !okType || !okEq || !okErr {
				bad3 = fmt.Sprintf("a path reports a successful resumption without (reply read without error=%v, reply is <resumed/>=%v, previd equals the stored id=%v); ends at %s", okErr, okType, okEq, w.ipos(last))
			}
			// R4: stores nothing to SMState / BindJid
			for _, in := range path {
				if st, ok := in.(*ssa.Store); ok {
					for _, f := range fieldPath(st.Addr) {
						if f == fSessSM || f == fBindJid {
							bad4 = "the success path writes " + f.Name() + " at " + w.ipos(in)
						}
					}
				}
			}
		})
		if err != nil {
			r.Undecided("R3", "xmpp.(*Session).resume#reply-paths", w.ipos(np), err.Error())
		} else {
			r.Check(bad3 == "" && nTrue >= 1 && nOther >= 1, "R3", "xmpp.(*Session).resume#reply-paths", w.ipos(np), bad3+fmt.Sprintf(" (success paths=%d, other paths=%d)", nTrue, nOther), fmt.Sprintf("%d success path(s) gated by SMResumed ∧ PrevId==Id; %d other path(s) all zero the state", nTrue, nOther))
			r.Check(bad4 == "", "R4", "xmpp.(*Session).resume#success-path", w.ipos(np), bad4, "no store to SMState/BindJid on the success path")
		}
		// R5: SMFailed path sets no error other than the (nil) read error
		var failedT types.Type
		uni := map[string]types.Type{}
		var unk []string
		w.returnedDynTypes(w.Func("stanza.NextPacket"), 0, 0, uni, &unk)
		failedT = uni["stanza.SMFailed"]
		if failedT == nil {
			r.Undecided("R5", "xmpp.(*Session).resume#type:stanza.SMFailed", "-", "SMFailed not in the packet universe")
		} else {
			bad := ""
			n := 0
			walkPaths(after(np), nil, typeEdgeFilter(pkt, failedT), 20000, func(path []ssa.Instruction, end pathEnd) {
				// only paths on which the read error is nil
				if !pathAsserts(path, func(c ssa.Value, truth bool) bool {
					x, eq, ok := nilCompare(c)
					if !ok || eq != truth {
						return false
					}
					f, _ := loadedField(x)
					return f == fErr
				}) {
					return
				}
				n++
				for pi, in := range path[1:] {
					if st, ok := in.(*ssa.Store); ok {
						if fa, ok := st.Addr.(*ssa.FieldAddr); ok && fieldOfAddr(fa) == fErr {
							if ex, ok := st.Val.(*ssa.Extract); ok && ex.Tuple == ssa.Value(np) {
								continue
							}
							if isNilConst(resolveOn(st.Val, pi+1, path)) {
								continue // records "no error" (the nil a helper returned on this path)
							}
							bad = "an error is recorded on the <failed/> path at " + w.ipos(in) + ": the fallback bind would be skipped"
						}
					}
				}
				if ret, ok := path[len(path)-1].(*ssa.Return); ok {
					if b, isC := boolConst(rres(path, ret)[0]); !isC || b {
						bad = "<failed/> is reported as a successful resumption"
					}
				}
			})
			r.Check(bad == "" && n >= 1, "R5", "xmpp.(*Session).resume#type:stanza.SMFailed", w.ipos(np), bad, fmt.Sprintf("%d path(s): no error stored, returns false, state zeroed (R3)", n))
		}
	}

	// R7: the state that is reset is the state the next attempt will read. NewSession negotiates on the client's own
	// Session object when there is one — on a copy, every reset of the stale state would be lost whenever the attempt fails
	{
		r.Rule("R7", "identity: when the client already has a Session, NewSession negotiates (and resets stale resumption state) on that very object, not on a copy")
		fSess := w.Field("xmpp.Client.Session")
		rcs := w.callsInH(ns, "xmpp.Session.resume")
		if len(rcs) == 1 {
			rc0 := rcs[0].(*ssa.Call)
			isRC := func(in ssa.Instruction) bool { return in == ssa.Instruction(rc0) }
			bad := ""
			nReuse := 0
			err := walkPaths(entryLoc(ns), isRC, nil, 50000, func(path []ssa.Instruction, end pathEnd) {
				if !isRC(path[len(path)-1]) {
					return
				}
				reused := pathAsserts(path, func(c ssa.Value, truth bool) bool {
					x, eq, ok := nilCompare(c)
					if !ok || eq == truth {
						return false
					}
					f, _ := loadedField(x)
					if f == fSess {
						return true
					}
					f2, _ := loadedField(resolveOn(x, curEdgeIdx, path))
					return f2 == fSess
				})
				if !reused {
					return
				}
				nReuse++
				recv := resolveOn(rc0.Call.Args[0], len(path)-1, path)
				if f, _ := loadedField(recv); f != fSess {
					bad = "with a previous Session present, resume() runs on " + w.nfOn(recv, path) + ", not on the client's Session: what it resets when the resumption is not confirmed is lost if this attempt fails, and the stale id is presented again"
				}
			})
			if err != nil {
				r.Undecided("R7", "xmpp.NewSession→resume#receiver", w.ipos(rc0), err.Error())
			} else {
				r.Check(bad == "" && nReuse > 0, "R7", "xmpp.NewSession→resume#receiver", w.ipos(rc0), bad, fmt.Sprintf("%d path(s) with a previous Session: resume() on c.Session itself", nReuse))
			}
		}
	}

	// R4/R5 in NewSession
	resCalls := w.callsInH(ns, "xmpp.Session.resume")
	if len(resCalls) != 1 {
		r.Undecided("R4", "xmpp.NewSession→resume", w.pos(ns.Pos()), fmt.Sprintf("expected one call of resume, found %d", len(resCalls)))
	} else {
		rc := resCalls[0].(*ssa.Call)
		var trueT, falseT *ssa.BasicBlock
		for _, b := range ns.Blocks {
			for si := range b.Succs {
				if c, truth, ok := edgeAssertion(b, si); ok && c == ssa.Value(rc) {
					if truth {
						trueT = b.Succs[si]
					} else {
						falseT = b.Succs[si]
					}
				}
			}
		}
		if trueT == nil || falseT == nil {
			r.Undecided("R4", "xmpp.NewSession→resume#branch", w.ipos(rc), "the result of resume() does not decide a branch")
		} else {
			fresh := w.isCallTo("xmpp.Session.bind", "xmpp.Session.EnableStreamManagement", "xmpp.Session.rfc3921Session")
			r.Check(!reachable(Loc{trueT, 0}, fresh, nil, nil), "R4", "xmpp.NewSession→resume#true-edge", w.ipos(rc), "after a successful resumption NewSession still binds / opens a session / enables stream management", "bind, rfc3921Session, EnableStreamManagement unreachable from the true edge")
			okPass, wit := mustPass(Loc{falseT, 0}, isReturn, w.isCallTo("xmpp.Session.bind"), nil)
			r.Check(okPass, "R5", "xmpp.NewSession→resume#false-edge", w.ipos(rc), "after a refused resumption NewSession can return without binding: "+pathString(w, wit), "every return after resume()==false passes bind")
		}
	}
	bind := w.Func("xmpp.(*Session).bind")
	r.Check(stickyGuard(w, bind, fErr), "R5", "xmpp.(*Session).bind#sticky-guard", w.pos(bind.Pos()), "bind does not begin with `if s.err != nil { return }`: an error recorded by resume would not fail the connection", "entry guard on s.err")

	// R6 provenance of Id
	n6 := 0
	for _, a := range w.fieldAccesses(fID, lib) {
		if a.Kind != "store" {
			if a.Kind == "addr" {
				r.Undecided("R6", w.funcKey(a.Fn)+"#addr:SMState.Id", w.ipos(a.Instr), "address of the resumption id escapes")
			}
			continue
		}
		n6++
		cons := fmt.Sprintf("%s#store:SMState.Id#%d", w.funcKey(a.Fn), n6)
		// (a helper with several callers: the argument of each)
		okP := true
		for _, v := range originsAll(a.Val) {
			T, fp := typeAssertSource(v, nil)
			okV := T != nil && w.typeStr(T) == "stanza.SMEnabled" && fp == "Id"
			if s, isS := stringConst(v); isS && s == "" {
				okV = true
			}
			okP = okP && okV
		}
		r.Check(okP, "R6", cons, w.ipos(a.Instr), "the resumption id is set from something other than the id of <enabled/>: "+describe(w, a.Val), "from SMEnabled.Id")
	}
	r.Floor("R6", 1)

	// note: not advertised
	r.Note("when the new connection does not advertise stream management, resume() returns false before any reply is read and keeps the stored state; a later connection will present that id. The statement conditions the reset on a reply, so this is a note, not a violation.")
}
