package main

// C13 — StreamManager re-establishes exactly one working session after each loss.

import (
	"fmt"
	"go/types"
	"os"
	"sort"
	"strings"

	"golang.org/x/tools/go/ssa"
)

func init() {
	register(&propDef{
		id: "C13", level: "other", run: runC13,
		trusted: []string{"xerrors.As finds a ConnError in the chain", "sync.WaitGroup semantics"},
		explain: "Decides the structural preconditions of the statement: both session-establishing entry points (Connect, Resume) start the receive loop and the keepalive on the same quit channel on every path that can report success (R1 — sibling agreement); every exit of the receive loop announces the disconnection that triggers reconnection (R2); each ConnError site reachable from Connect/Resume carries the permanence its cause demands — dial, stream-open and feature-read failures retryable, credential/TLS-policy/mechanism failures permanent (R3); the manager's event handler starts exactly one retry loop on Disconnected and none on PermanentError (R4); the retry loop only leaves through success or a permanent error, waits between attempts and calls PostConnect exactly once after it (R5); Run/Stop pair the WaitGroup correctly (R6); the Disconnected event is only emitted by the receive loop of an established session (R7 — otherwise a failed reconnect attempt starts a second, concurrent retry loop). Not decided: timing (\"as soon as\"), the number of sessions under arbitrary fault sequences beyond these necessary conditions.",
	})
}

func runC13(w *World, r *Report, tier string) {
	r.Rule("R1", "sibling agreement: in Client.Connect and Client.Resume every return reachable after connect()==nil either passes `go recv(q)` and `go keepalive(transport, KeepaliveInterval, q)` or returns an error asserted non-nil")
	r.Rule("R2", "session end ⇒ event: every exit of Client.recv passes disconnected()")
	r.Rule("R3", "permanence table: each NewConnError site reachable from Client.Connect/Resume/NewClient has the permanence its cause demands")
	r.Rule("R4", "handler table: StateDisconnected ⇒ exactly one sm.resume(); StatePermanentError and StateSessionEstablished ⇒ none")
	r.Rule("R5", "retry loop: leaves only through Resume()==nil or a permanent ConnError; the failure edge passes backoff.wait(); PostConnect is called exactly once, after the loop")
	r.Rule("R6", "stop: SetHandler(nil) ≺ Disconnect ≺ wg.Done in Stop; wg.Add(1) ≺ connect ≺ wg.Wait in Run, wg.Done on the failure return")
	r.Rule("R7", "the Disconnected event is emitted only by Client.recv (the receive loop of an established session)")

	lib := w.LibFuncs()
	// ---- R1
	for _, k := range []string{"xmpp.(*Client).Connect", "xmpp.(*Client).Resume"} {
		f := w.Func(k)
		conn := w.callsInH(f, "xmpp.Client.connect")
		if len(conn) != 1 {
			r.Undecided("R1", k, w.pos(f.Pos()), "expected exactly one connect() call")
			continue
		}
		cc := conn[0].(*ssa.Call)
		// start at the edge asserting connect()==nil
		var starts []Loc
		for _, b := range f.Blocks {
			for si := range b.Succs {
				if c, truth, ok := edgeAssertion(b, si); ok && assertsNil(c, truth, cc) {
					starts = append(starts, Loc{b.Succs[si], 0})
				}
			}
		}
		if len(starts) != 1 {
			r.Undecided("R1", k, w.ipos(cc), "the result of connect() is not tested against nil exactly once")
			continue
		}
		isRecv := func(in ssa.Instruction) bool {
			_, g := in.(*ssa.Go)
			return g && w.callKey(asCall(in)) == "xmpp.Client.recv"
		}
		isKA := func(in ssa.Instruction) bool {
			_, g := in.(*ssa.Go)
			return g && w.callKey(asCall(in)) == "xmpp.keepalive"
		}
		bad := ""
		nStart, nErr := 0, 0
		err := walkPaths(starts[0], nil, nil, 20000, func(path []ssa.Instruction, end pathEnd) {
			last := path[len(path)-1]
			ret, isRet := last.(*ssa.Return)
			if !isRet || end == endCycle {
				bad = "a path after connect() does not end in a return"
				return
			}
			nr, nk := countOn(path, isRecv), countOn(path, isKA)
			if nr == 1 && nk == 1 {
				nStart++
				// same channel, right interval, right transport
				var rc, kc ssa.CallInstruction
				for _, in := range path {
					if isRecv(in) {
						rc = asCall(in)
					}
					if isKA(in) {
						kc = asCall(in)
					}
				}
				if len(rc.Common().Args) < 2 || len(kc.Common().Args) < 3 {
					bad = "keepalive and recv are not both handed one fresh quit channel when they are started"
					return
				}
				ch1, ch2 := chanOrigin(rc.Common().Args[1]), chanOrigin(kc.Common().Args[2])
				if _, isMk := ch1.(*ssa.MakeChan); ch1 != ch2 || !isMk {
					bad = "keepalive and recv do not share one fresh quit channel"
				}
				if fieldNames(fieldPath(kc.Common().Args[1])) != "config.KeepaliveInterval" {
					bad = "keepalive is not started with Config.KeepaliveInterval"
				}
				if fieldNames(fieldPath(kc.Common().Args[0])) != "transport" {
					bad = "keepalive is not started on the client's transport"
				}
				// Resume is what the retry loop calls: an error return makes it try again, while a receive loop that is
				// already running reports its own loss and starts a second loop. Once the loops are started, Resume
				// has succeeded — whatever can still fail (the post-resume hook) comes before them.
				if k == "xmpp.(*Client).Resume" {
					res := resolveOn(rres(path, ret)[len(ret.Results)-1], len(path)-1, path)
					if !isNilConst(res) {
						// failing steps after the start of the loops
						iStart := indexOn(path, isRecv)
						for _, in := range path[iStart+1:] {
							if c := asCall(in); c != nil {
								if _, isGo := in.(*ssa.Go); !isGo && c.Common().Signature().Results().Len() > 0 {
									bad = fmt.Sprintf("Resume can still fail (%s) after it has started the receive loop: the retry loop tries again while the running receiver reports its own loss — two reconnection loops, two sessions for one loss", w.ipos(in))
								}
							}
						}
					}
				}
				return
			}
			if nr == 0 && nk == 0 {
				// allowed only if the returned error is asserted non-nil on the path
				res := rres(path, ret)[len(ret.Results)-1]
				if pathAsserts(path, func(c ssa.Value, truth bool) bool { return assertsNonNil(c, truth, res) }) {
					nErr++
					return
				}
				bad = fmt.Sprintf("a path that can report success (return at %s) starts neither the receive loop nor the keepalive: the client is deaf on this session and is never told about its loss", w.ipos(last))
				return
			}
			bad = fmt.Sprintf("a path starts recv %d time(s) and keepalive %d time(s)", nr, nk)
		})
		if err != nil {
			r.Undecided("R1", k, w.pos(f.Pos()), err.Error())
			continue
		}
		r.Check(bad == "" && nStart > 0, "R1", k, w.pos(f.Pos()), bad, fmt.Sprintf("%d success path(s) start recv+keepalive on one channel; %d error-only path(s)", nStart, nErr))
	}

	// ---- R2
	recv := w.Func("xmpp.(*Client).recv")
	rl, err := analyseRecvLoop(w, recv)
	if err != nil {
		r.Undecided("R2", "xmpp.(*Client).recv#loop", w.pos(recv.Pos()), err.Error())
	} else {
		isDisc := w.isCallTo("xmpp.EventManager.disconnected")
		check := func(cons string, start Loc, filter func(*ssa.BasicBlock, int) bool) {
			bad := ""
			n := 0
			walkPaths(start, rl.isNextPacket, filter, 20000, func(path []ssa.Instruction, end pathEnd) {
				last := path[len(path)-1]
				if _, isRet := last.(*ssa.Return); !isRet {
					return
				}
				n++
				if countOn(path, isDisc) != 1 {
					bad = fmt.Sprintf("the receive loop ends at %s without announcing the disconnection: the StreamManager never reconnects", w.ipos(last))
				}
			})
			if n > 0 {
				r.Check(bad == "", "R2", cons, w.pos(recv.Pos()), bad, fmt.Sprintf("%d exit path(s), each announces the disconnection once", n))
			}
		}
		check("xmpp.(*Client).recv#exit:read-error", rl.brStart, rl.errOnly(nil))
		for _, name := range rl.typeNames(rl.universe) {
			check("xmpp.(*Client).recv#exit:after:"+name, rl.brStart, rl.okOnly(typeEdgeFilter(rl.pkt, rl.universe[name])))
		}
	}

	// ---- R3 permanence
	var roots []ssa.CallInstruction
	for _, k := range []string{"xmpp.(*Client).Connect", "xmpp.(*Client).Resume"} {
		allInstrs(w.Func(k), func(in ssa.Instruction) {
			if c := asCall(in); c != nil {
				roots = append(roots, c)
			}
		})
	}
	scope := w.closureFrom(roots, nil)
	scope[w.Func("xmpp.NewClient")] = true
	scope[w.Func("xmpp.(*Client).Connect")] = true
	scope[w.Func("xmpp.(*Client).Resume")] = true
	required := map[string]bool{
		"net.DialTimeout":          false,
		"net.Dial":                 false,
		"nhooyr.io/websocket.Dial": false,
		"fmt.Fprintf":              false,
		"stanza.InitStream":        false,
		"field:Session.err":        false,
		"errors.New":               true,
		"fmt.Errorf":               true,
		"global:ServerDoesNotSupportXmppOverWebsocket": true,
	}
	why := map[bool]string{false: "a connection/stream-open failure is transient: the manager must keep retrying until the server accepts connections again", true: "a credential, TLS-policy, mechanism or protocol-support failure is permanent: retrying cannot help"}
	type site struct {
		fn     *ssa.Function
		call   ssa.CallInstruction
		origin string
		perm   string
	}
	var judged, listed []site
	for _, f := range lib {
		for _, c := range w.callsIn(f, "xmpp.NewConnError") {
			args := c.Common().Args
			s := site{fn: f, call: c, origin: errOrigin(w, args[0])}
			if b, ok := boolConst(args[1]); ok {
				s.perm = fmt.Sprint(b)
			} else {
				s.perm = "non-constant"
			}
			if scope[f] {
				judged = append(judged, s)
			} else {
				listed = append(listed, s)
			}
		}
	}
	sort.Slice(judged, func(i, j int) bool { return w.ipos(judged[i].call) < w.ipos(judged[j].call) })
	cnt := map[string]int{}
	for _, s := range judged {
		k := w.funcKey(s.fn) + "#NewConnError(" + s.origin + ")"
		cnt[k]++
		cons := k
		if cnt[k] > 1 {
			cons = fmt.Sprintf("%s#%d", k, cnt[k])
		}
		req, known := required[s.origin]
		if !known && strings.HasPrefix(s.origin, "phi(") {
			// one wrapping site for several causes: they must all be in the table and demand the same permanence
			parts := strings.Split(strings.TrimSuffix(strings.TrimPrefix(s.origin, "phi("), ")"), "|")
			allKnown, first := true, true
			for _, p := range parts {
				q, ok := required[p]
				if !ok {
					allKnown = false
					break
				}
				if first {
					req, first = q, false
				} else if q != req {
					allKnown = false
				}
			}
			known = allKnown && !first
		}
		if !known {
			r.Undecided("R3", cons, w.ipos(s.call), "cause of the error not in the permanence table: "+s.origin)
			continue
		}
		r.Check(s.perm == fmt.Sprint(req), "R3", cons, w.ipos(s.call), fmt.Sprintf("permanent=%s but %s", s.perm, why[req]), fmt.Sprintf("permanent=%s as required for cause %s", s.perm, s.origin))
	}
	// a ConnError must not wrap an error that may already be a classified ConnError: xerrors.As finds the outermost
	// one, so the inner permanence (rejected credentials) would be hidden behind the wrapper's
	{
		fErr := w.Field("xmpp.Session.err")
		memoRet := map[*ssa.Function]int{}
		var mayReturnConnErr func(f *ssa.Function, depth int) bool
		mayReturnConnErr = func(f *ssa.Function, depth int) bool {
			if f == nil || f.Blocks == nil || depth > 5 {
				return false
			}
			if v, ok := memoRet[f]; ok {
				return v == 1
			}
			memoRet[f] = 0
			res := false
			allInstrs(f, func(in ssa.Instruction) {
				rt, ok := in.(*ssa.Return)
				if !ok || len(rt.Results) == 0 {
					return
				}
				v := rt.Results[len(rt.Results)-1]
				if mi, ok := v.(*ssa.MakeInterface); ok {
					v = mi.X
				}
				if ex, ok := v.(*ssa.Extract); ok {
					v = ex.Tuple
				}
				if c, ok := v.(*ssa.Call); ok {
					if w.callKey(c) == "xmpp.NewConnError" || mayReturnConnErr(c.Call.StaticCallee(), depth+1) {
						res = true
					}
				}
			})
			if res {
				memoRet[f] = 1
			}
			return res
		}
		storesErr := func(f *ssa.Function) (stores bool, connErr bool) {
			seen := map[*ssa.Function]bool{}
			var visit func(g *ssa.Function, depth int)
			visit = func(g *ssa.Function, depth int) {
				if g == nil || g.Blocks == nil || seen[g] || depth > 5 || !w.inModule(g) {
					return
				}
				seen[g] = true
				allInstrs(g, func(in ssa.Instruction) {
					if st, ok := in.(*ssa.Store); ok {
						if fa, ok := st.Addr.(*ssa.FieldAddr); ok && fieldOfAddr(fa) == fErr {
							stores = true
							v := st.Val
							if mi, ok := v.(*ssa.MakeInterface); ok {
								v = mi.X
							}
							if ex, ok := v.(*ssa.Extract); ok {
								v = ex.Tuple
							}
							if c, ok := v.(*ssa.Call); ok {
								if w.callKey(c) == "xmpp.NewConnError" || mayReturnConnErr(c.Call.StaticCallee(), 0) {
									connErr = true
								}
							}
						}
					}
					if c, ok := in.(*ssa.Call); ok {
						visit(c.Call.StaticCallee(), depth+1)
					}
				})
			}
			visit(f, 0)
			return
		}
		nRW := 0
		for _, s := range judged {
			if s.origin != "field:Session.err" {
				continue
			}
			nRW++
			cons := w.funcKey(s.fn) + "#NewConnError(field:Session.err)#not-rewrapped"
			if nRW > 1 {
				cons = fmt.Sprintf("%s#%d", cons, nRW)
			}
			fn := s.fn
			isSite := func(in ssa.Instruction) bool { return in == s.call.(ssa.Instruction) }
			bad := ""
			nP := 0
			err := walkPaths(entryLoc(fn), isSite, nil, 100000, func(path []ssa.Instruction, end pathEnd) {
				if !isSite(path[len(path)-1]) {
					return
				}
				nP++
				for i := len(path) - 2; i >= 0; i-- {
					c, ok := path[i].(*ssa.Call)
					if !ok {
						continue
					}
					callee := c.Call.StaticCallee()
					if callee == nil || !w.inModule(callee) {
						continue
					}
					st, ce := storesErr(callee)
					if !st {
						continue
					}
					if ce {
						bad = "the error wrapped here can be the classified error that " + w.funcKey(callee) + " recorded (" + w.ipos(c) + "): the new ConnError hides its permanence from the retry loop, so rejected credentials are retried for ever"
					}
					break
				}
			})
			if err != nil {
				r.Undecided("R3", cons, w.ipos(s.call), err.Error())
				continue
			}
			r.Check(bad == "" && nP > 0, "R3", cons, w.ipos(s.call), bad, "the last step that records an error before this site never records a ConnError")
		}
	}
	r.Floor("R3", 10)
	var ls []string
	for _, s := range listed {
		ls = append(ls, fmt.Sprintf("%s %s permanent=%s (component: listed, not judged)", w.ipos(s.call), s.origin, s.perm))
	}
	r.Tables["R3.component_sites"] = ls

	// ---- R4 handler
	run := w.Func("xmpp.(*StreamManager).Run")
	var handler *ssa.Function
	for _, c := range w.callsInH(run, "xmpp.StreamClient.SetHandler") {
		v := chanOrigin(c.Common().Args[0])
		if mc, ok := v.(*ssa.MakeClosure); ok {
			handler, _ = mc.Fn.(*ssa.Function)
			// a method value (sm.handleEvent): the wrapper stands for the method
			if handler != nil && handler.Synthetic != "" {
				if fo, ok := handler.Object().(*types.Func); ok {
					if decl := w.Prog.FuncValue(fo); decl != nil && decl.Blocks != nil {
						handler = decl
					}
				}
			}
		}
		if f, ok := v.(*ssa.Function); ok && f.Blocks != nil {
			handler = f
		}
	}
	if handler == nil {
		r.Undecided("R4", "xmpp.(*StreamManager).Run#handler", w.pos(run.Pos()), "the event handler installed by Run is neither a local closure nor a method/function of the module")
	} else {
		// the switched value: load of e.State.state
		var sw ssa.Value
		allInstrs(handler, func(in ssa.Instruction) {
			if u, ok := in.(*ssa.UnOp); ok {
				if fieldNames(fieldPath(u)) == "State.state" {
					sw = u
				}
			}
		})
		if sw == nil {
			r.Undecided("R4", "xmpp.(*StreamManager).Run$1#switch", w.pos(handler.Pos()), "the handler does not switch on the event's state")
		} else {
			states := map[string]int64{}
			for _, n := range []string{"StateDisconnected", "StateResuming", "StateSessionEstablished", "StateStreamError", "StatePermanentError"} {
				c := w.Pkgs["xmpp"].Types.Scope().Lookup(n)
				if c == nil {
					die("unresolved anchor: const %s", n)
				}
				v, _ := intConstOf(c)
				states[n] = v
			}
			isResume := w.isCallTo("xmpp.StreamManager.resume", "xmpp.StreamManager.connect", "xmpp.StreamClient.Resume", "xmpp.StreamClient.Connect")
			want := map[string][2]int{"StateDisconnected": {1, 1}, "StatePermanentError": {0, 0}, "StateSessionEstablished": {0, 0}, "StateResuming": {0, 0}, "StateStreamError": {0, 1}}
			for _, n := range []string{"StateDisconnected", "StatePermanentError", "StateSessionEstablished", "StateResuming", "StateStreamError"} {
				lo, hi := 1<<30, -1
				walkPaths(entryLoc(handler), nil, intEdgeFilter(sw, states[n]), 20000, func(path []ssa.Instruction, end pathEnd) {
					c := countOn(path, isResume)
					if c < lo {
						lo = c
					}
					if c > hi {
						hi = c
					}
				})
				wnt := want[n]
				r.Check(lo == wnt[0] && hi == wnt[1], "R4", "xmpp.(*StreamManager).Run$1#state:"+n, w.pos(handler.Pos()), fmt.Sprintf("on %s the handler starts between %d and %d reconnections, expected %d..%d", n, lo, hi, wnt[0], wnt[1]), fmt.Sprintf("%d..%d reconnection(s)", lo, hi))
			}
			// the Disconnected case returns resume's result (a permanent error is not swallowed)
		}
	}

	// the post-connect callback is optional: called exactly when it is set
	fPC := w.Field("xmpp.StreamManager.PostConnect")
	pcPolarity := func(path []ssa.Instruction, n int) string {
		set := pathAsserts(path, func(c ssa.Value, truth bool) bool {
			x, eq, ok := nilCompare(c)
			if !ok {
				return false
			}
			f, _ := loadedField(x)
			return f == fPC && eq != truth
		})
		unset := pathAsserts(path, func(c ssa.Value, truth bool) bool {
			x, eq, ok := nilCompare(c)
			if !ok {
				return false
			}
			f, _ := loadedField(x)
			return f == fPC && eq == truth
		})
		switch {
		case set && n != 1:
			return fmt.Sprintf("PostConnect is set but called %d time(s) for the new session", n)
		case unset && n != 0:
			return "PostConnect is called on the path on which it is nil"
		case !set && !unset && n != 0:
			return "PostConnect is called without having been tested for nil"
		case !set && !unset:
			return "the new session is reported without PostConnect having been considered"
		}
		return ""
	}
	// ---- R5 retry loop
	res := w.Func("xmpp.(*StreamManager).resume")
	rcalls := w.callsInH(res, "xmpp.StreamClient.Resume")
	if len(rcalls) != 1 {
		r.Undecided("R5", "xmpp.(*StreamManager).resume#loop", w.pos(res.Pos()), "expected exactly one Resume() call")
	} else {
		rc := rcalls[0].(*ssa.Call)
		isRC := func(in ssa.Instruction) bool { return in == ssa.Instruction(rc) }
		// the back-off wait: backoff.wait(), or a sleep for a delay the backoff computed
		isWait := func(in ssa.Instruction) bool {
			if w.isCallTo("xmpp.backoff.wait")(in) {
				return true
			}
			if c := asCall(in); c != nil && w.callKey(c) == "time.Sleep" {
				nfv := w.nf(c.Common().Args[0], 0)
				return strings.Contains(nfv, "xmpp.backoff.durationForAttempt(") || strings.Contains(nfv, "xmpp.backoff.duration(")
			}
			return false
		}
		isPC := func(in ssa.Instruction) bool { return isDynCallOfField(in, w.Field("xmpp.StreamManager.PostConnect")) }
		fPerm := w.Field("xmpp.ConnError.Permanent")
		bad := ""
		nLoop, nOK, nPerm := 0, 0, 0
		walkPaths(after(rc), isRC, nil, 20000, func(path []ssa.Instruction, end pathEnd) {
			last := path[len(path)-1]
			failed := pathAsserts(path, func(c ssa.Value, truth bool) bool { return assertsNonNil(c, truth, rc) })
			if isRC(last) {
				nLoop++
				if !failed {
					bad = "the loop retries although Resume() succeeded"
				}
				if countOn(path, isWait) != 1 {
					bad = "a failed attempt is retried without the back-off wait"
				}
				if countOn(path, isPC) != 0 {
					bad = "PostConnect is called inside the retry loop"
				}
				return
			}
			ret, isRet := last.(*ssa.Return)
			if !isRet {
				bad = "the retry loop can end without a return"
				return
			}
			if failed {
				nPerm++
				perm := pathAsserts(path, func(c ssa.Value, truth bool) bool { f, _ := loadedField(c); return f == fPerm && truth })
				isConnErr := pathAsserts(path, func(c ssa.Value, truth bool) bool {
					call, _ := callResult(c)
					return call != nil && truth && (w.callKey(call) == "golang.org/x/xerrors.As" || w.callKey(call) == "errors.As")
				})
				if perm && !isConnErr {
					bad = "the Permanent flag is read although the error was not found to be a ConnError (xerrors.As did not succeed): it is the zero value's flag"
				}
				if !perm {
					bad = "the retry loop gives up after an error that is not a permanent ConnError (return at " + w.ipos(last) + ")"
				}
				if isNilConst(rres(path, ret)[0]) {
					bad = "a permanent error ends the loop but nil is returned"
				}
				if countOn(path, isPC) != 0 {
					bad = "PostConnect is called after a permanent error"
				}
				return
			}
			nOK++
			if countOn(path, isPC) > 1 {
				bad = "PostConnect is called more than once for one session"
			}
			if why := pcPolarity(path, countOn(path, isPC)); why != "" {
				bad = why
			}
		})
		// PostConnect exactly once when set: the call must exist on the success exits
		hasPC := false
		allInstrs(res, func(in ssa.Instruction) {
			if isPC(in) {
				hasPC = true
			}
		})
		if !hasPC {
			bad = "PostConnect is never called after a reconnection"
		}
		r.Check(bad == "" && nLoop > 0 && nOK > 0 && nPerm > 0, "R5", "xmpp.(*StreamManager).resume#loop", w.ipos(rc), bad+fmt.Sprintf(" (retry paths %d, success exits %d, permanent exits %d)", nLoop, nOK, nPerm), fmt.Sprintf("%d retry path(s) through backoff.wait, %d success exit(s) with PostConnect after the loop, %d exit(s) on a permanent error", nLoop, nOK, nPerm))
	}
	// the error classification reads the Permanent flag of the very type NewConnError returns
	{
		ncT := w.Func("xmpp.NewConnError").Signature.Results().At(0).Type()
		asCalls := w.callsInH(res, "golang.org/x/xerrors.As", "errors.As")
		okAs := len(asCalls) == 1
		detail := fmt.Sprintf("%d xerrors.As calls", len(asCalls))
		if okAs {
			tgt := asCalls[0].Common().Args[1]
			if mi, ok := tgt.(*ssa.MakeInterface); ok {
				tgt = mi.X
			}
			pt, isPtr := tgt.Type().Underlying().(*types.Pointer)
			if !isPtr || !types.Identical(pt.Elem(), ncT) {
				okAs = false
				detail = fmt.Sprintf("xerrors.As looks for a %s in the error chain, but NewConnError returns a %s: the target never matches, the Permanent branch is dead and a permanent error is retried for ever", w.typeStr(tgt.Type()), w.typeStr(ncT))
			}
			// every ConnError handed to callers is that type (value), not a pointer to it
		}
		r.Check(okAs, "R5", "xmpp.(*StreamManager).resume#error-classification", w.pos(res.Pos()), detail, "xerrors.As(err, *ConnError) — the type NewConnError returns")
	}
	// sm.connect: PostConnect once after Connect()==nil
	smc := w.Func("xmpp.(*StreamManager).connect")
	ccalls := w.callsInH(smc, "xmpp.Client.Connect")
	if len(ccalls) == 1 {
		cc := ccalls[0].(*ssa.Call)
		bad := ""
		isPC := func(in ssa.Instruction) bool { return isDynCallOfField(in, w.Field("xmpp.StreamManager.PostConnect")) }
		walkPaths(after(cc), nil, nil, 20000, func(path []ssa.Instruction, end pathEnd) {
			failed := pathAsserts(path, func(c ssa.Value, truth bool) bool { return assertsNonNil(c, truth, cc) })
			n := countOn(path, isPC)
			if failed && n != 0 {
				bad = "PostConnect runs although Connect failed"
			}
			if !failed && n > 1 {
				bad = "PostConnect runs more than once"
			}
			if _, isRet := path[len(path)-1].(*ssa.Return); isRet && !failed {
				if why := pcPolarity(path, n); why != "" {
					bad = why
				}
			}
			if ret, ok := path[len(path)-1].(*ssa.Return); ok && failed && isNilConst(rres(path, ret)[0]) {
				bad = "a failed first connection is reported as success"
			}
		})
		r.Check(bad == "", "R5", "xmpp.(*StreamManager).connect#post-connect", w.ipos(cc), bad, "PostConnect at most once, only after Connect()==nil; errors are returned")
	} else {
		r.Undecided("R5", "xmpp.(*StreamManager).connect#post-connect", w.pos(smc.Pos()), "expected one Connect() call")
	}

	// ---- R6
	stop := w.Func("xmpp.(*StreamManager).Stop")
	seq := orderedCalls(w, stop, "xmpp.StreamClient.SetHandler", "xmpp.StreamClient.Disconnect", "sync.WaitGroup.Done")
	okStop := seq == "xmpp.StreamClient.SetHandler,xmpp.StreamClient.Disconnect,sync.WaitGroup.Done"
	if okStop {
		for _, c := range w.callsInH(stop, "xmpp.StreamClient.SetHandler") {
			a := chanOrigin(c.Common().Args[0])
			if !isNilConst(a) {
				okStop = false
			}
		}
	}
	r.Check(okStop, "R6", "xmpp.(*StreamManager).Stop", w.pos(stop.Pos()), "Stop does not remove the handler, disconnect and release Run in that order (found: "+seq+"): a reconnect can be triggered by the stop itself, or Run never returns", "SetHandler(nil) ≺ Disconnect ≺ wg.Done")
	seqR := orderedCalls(w, run, "sync.WaitGroup.Add", "xmpp.StreamManager.connect", "sync.WaitGroup.Wait")
	okRun := seqR == "sync.WaitGroup.Add,xmpp.StreamManager.connect,sync.WaitGroup.Wait"
	// one unit is added: Stop's single Done (or the failure path's) must be able to release Wait
	for _, c := range w.callsInH(run, "sync.WaitGroup.Add") {
		if k, isK := intConst(c.Common().Args[len(c.Common().Args)-1]); !isK || k != 1 {
			okRun = false
		}
	}
	// failure edge passes Done and returns the error
	for _, c := range w.callsInH(run, "xmpp.StreamManager.connect") {
		cc := c.(*ssa.Call)
		walkPaths(after(cc), nil, nil, 2000, func(path []ssa.Instruction, end pathEnd) {
			failed := pathAsserts(path, func(cv ssa.Value, truth bool) bool { return assertsNonNil(cv, truth, cc) })
			nd := countOn(path, w.isCallTo("sync.WaitGroup.Done"))
			nw := countOn(path, w.isCallTo("sync.WaitGroup.Wait"))
			if os.Getenv("XDEBUG") == "4" {
				fmt.Fprintf(os.Stderr, "Run path failed=%v nd=%d nw=%d len=%d end=%v last=%s\n", failed, nd, nw, len(path), end, w.ipos(path[len(path)-1]))
			}
			if failed && (nd != 1 || nw != 0) {
				okRun = false
			}
			if !failed && (nd != 0 || nw != 1) {
				okRun = false
			}
		})
	}
	r.Check(okRun, "R6", "xmpp.(*StreamManager).Run", w.pos(run.Pos()), "Run does not pair wg.Add(1) with Wait on success and Done on failure (found: "+seqR+")", "Add(1) ≺ connect ≺ Wait; Done on the failure return")

	// ---- R2 (continued): the event ends the session's receive loop. A loop that reports the loss and then goes on
	// reading survives the reconnection its handler has just performed: two receivers on the new connection, two
	// Disconnected events at the next loss, two sessions.
	{
		recvFn := w.Func("xmpp.(*Client).recv")
		isNP := w.isCallTo("stanza.NextPacket")
		isDisc := w.isCallTo("xmpp.EventManager.disconnected")
		bad := ""
		nEv := 0
		err := walkPaths(entryLoc(recvFn), nil, nil, 100000, func(path []ssa.Instruction, end pathEnd) {
			at := indexOn(path, isDisc)
			if at < 0 {
				return
			}
			nEv++
			again := false
			for _, in := range path[at+1:] {
				if isNP(in) {
					again = true
				}
			}
			if again || end == endCycle {
				bad = "after announcing the disconnection (" + w.ipos(path[at]) + ") the receive loop goes round again: it keeps reading on whatever connection the handler has re-established"
			}
		})
		cons := "xmpp.(*Client).recv→disconnected#ends-loop"
		if err != nil {
			r.Undecided("R2", cons, w.pos(recvFn.Pos()), err.Error())
		} else {
			r.Check(bad == "" && nEv > 0, "R2", cons, w.pos(recvFn.Pos()), bad, fmt.Sprintf("%d path(s) through the event, each leaves recv", nEv))
		}
	}

	// ---- R8 (shared with C03.R2): the next attempt does not inherit the failed one's error
	r.Rule("R8", "a Session reused for the next connection attempt starts clean: reading the stream features leaves s.err nil when the read succeeded (shared with C03.R2) — otherwise the attempt after a failed negotiation fails too, the session is dropped and the resumable state with it")
	sessionErrCleared(w, r, "R8")

	// ---- R7
	n7 := 0
	for _, f := range lib {
		for _, c := range w.callsIn(f, "xmpp.EventManager.disconnected") {
			n7++
			k := w.funcKey(f)
			k = w.ownerKey(f)
			r.Check(w.ownedOnlyBy(f, "xmpp.(*Client).recv"), "R7", k+"→disconnected", w.ipos(c), "a Disconnected event is emitted for a connection whose session was never established: under a StreamManager the handler starts a second retry loop next to the one that is already retrying (history: established session lost; Resume: TCP accepted, stream cut during negotiation → connect() returns an error to the retry loop AND the drain goroutine emits Disconnected → two concurrent loops, two sessions)", "emitted by the receive loop only")
		}
	}
	if n7 == 0 {
		r.Undecided("R7", "disconnected#callers", "-", "no caller of disconnected found")
	}
}

func orderedCalls(w *World, f *ssa.Function, keys ...string) string {
	// straight-line order: sequence in which the calls appear on the (unique) path
	var seq []string
	pred := w.isCallTo(keys...)
	seen := map[ssa.Instruction]bool{}
	walkPaths(entryLoc(f), nil, nil, 2000, func(path []ssa.Instruction, end pathEnd) {
		var s []string
		for _, in := range path {
			if pred(in) {
				s = append(s, w.callKey(asCall(in)))
				seen[in] = true
			}
		}
		if len(s) > len(seq) {
			seq = s
		}
	})
	return strings.Join(seq, ",")
}

// errOrigin classifies where the error wrapped by NewConnError comes from.
func errOrigin(w *World, v ssa.Value) string {
	for i := 0; i < 6; i++ {
		switch x := v.(type) {
		case *ssa.MakeInterface:
			v = x.X
			continue
		case *ssa.ChangeInterface:
			v = x.X
			continue
		case *ssa.Extract:
			if c, ok := x.Tuple.(*ssa.Call); ok {
				return w.callKey(c)
			}
		case *ssa.Call:
			// a helper that builds the error: the origin is that of what it returns (nil returns aside)
			if callee := x.Call.StaticCallee(); isHelper(callee) && callee.Signature.Results().Len() == 1 {
				set := map[string]bool{}
				allInstrs(callee, func(in ssa.Instruction) {
					if rt, ok := in.(*ssa.Return); ok && !isNilConst(rt.Results[0]) {
						set[errOrigin(w, rt.Results[0])] = true
					}
				})
				if len(set) == 1 {
					for k := range set {
						return k
					}
				}
			}
			return w.callKey(x)
		case *ssa.UnOp:
			if g, ok := x.X.(*ssa.Global); ok {
				return "global:" + g.Name()
			}
			if f, _ := loadedField(x); f != nil {
				fp := fieldPath(x)
				if len(fp) >= 1 {
					// type name of the struct holding the field
					return "field:" + ownerName(x) + "." + f.Name()
				}
			}
			// load of a local: find its unique store
			if a, ok := x.X.(*ssa.Alloc); ok {
				var stored ssa.Value
				n := 0
				for _, r := range *a.Referrers() {
					if st, ok := r.(*ssa.Store); ok && st.Addr == a {
						stored = st.Val
						n++
					}
				}
				if n == 1 {
					v = stored
					continue
				}
			}
		case *ssa.Phi:
			var os []string
			for _, e := range x.Edges {
				os = append(os, errOrigin(w, e))
			}
			sort.Strings(os)
			return "phi(" + strings.Join(os, "|") + ")"
		case *ssa.Parameter:
			if o := origin(x); o != ssa.Value(x) {
				v = o
				continue
			}
			// a helper with several callers: the causes its callers hand in
			if all := originsAll(x); len(all) > 1 {
				set := map[string]bool{}
				for _, o := range all {
					if o == ssa.Value(x) {
						return "param:" + x.Name()
					}
					set[errOrigin(w, o)] = true
				}
				var os []string
				for k := range set {
					os = append(os, k)
				}
				sort.Strings(os)
				if len(os) == 1 {
					return os[0]
				}
				return "phi(" + strings.Join(os, "|") + ")"
			}
			return "param:" + x.Name()
		}
		break
	}
	return "unknown:" + v.String()
}

func ownerName(v ssa.Value) string {
	u, ok := v.(*ssa.UnOp)
	if !ok {
		return "?"
	}
	fa, ok := u.X.(*ssa.FieldAddr)
	if !ok {
		return "?"
	}
	t := fa.X.Type()
	s := t.String()
	if i := strings.LastIndex(s, "."); i >= 0 {
		s = s[i+1:]
	}
	return strings.TrimPrefix(s, "*")
}
