package main

// C08 — each send puts exactly the serialized stanza on the wire once, even concurrently.

import (
	"go/token"
	"fmt"
	"go/types"
	"strings"

	"golang.org/x/tools/go/ssa"
)

func init() {
	register(&propDef{
		id: "C08", level: "other", run: runC08,
		trusted: []string{"a single Write on net.Conn, tls.Conn and on the websocket connection is atomic with respect to other Writes (this is what makes one-Write-per-stanza sufficient against interleaving)", "xml.Marshal returns the complete serialization"},
		explain: "Decides that every send API reaches the socket through exactly one Write of the whole buffer on every path that can report success (R1), that the three writer wrappers forward their parameter unchanged exactly once, socket before log, and turn short writes into errors (R2), that no error of Marshal/Write on the send path is dropped or turned into nil (R3), and that the stream-management bookkeeping done on the send path is synchronised with the write (R4). One atomic Write per stanza is the necessary and — given the trusted atomicity — sufficient structural condition for non-interleaving. Not decided: linearizability of histories as such.",
	})
}

var sendWriteKeys = []string{"xmpp.Client.sendWithWriter", "xmpp.Component.sendWithWriter", "io.Writer.Write", "xmpp.Transport.Write", "io.ReadWriter.Write", "net.Conn.Write", "fmt.Fprintf", "fmt.Fprint", "io.WriteString", "xmpp.XMPPTransport.Write", "xmpp.WebsocketTransport.Write", "nhooyr.io/websocket.Conn.Write"}

func runC08(w *World, r *Report, tier string) {
	r.Rule("R1", "one write: in Client.Send/SendRaw, Component.Send/SendRaw and sendWithWriter every path that can return a nil error contains exactly one write of the whole marshalled buffer / the whole string; SendIQ calls Send exactly once")
	r.Rule("R2", "wrappers: XMPPTransport.Write, WebsocketTransport.Write and streamLogger.Write call the inner Write exactly once with their parameter p itself; streamLogger writes the socket before the log and turns n != len(p) into an error")
	r.Rule("R3", "error propagation: the error result of every Marshal/Write on the send path is returned or tested on every path, and its non-nil edge never leads to a nil return")
	r.Rule("R4", "bookkeeping is synchronised: every call of an UnAckQueue mutator holds UnAckQueue.RWMutex for writing; in Client.Send/SendRaw the Push and the Write lie in one critical section")

	isW := w.isCallTo(sendWriteKeys...)
	notLog := func(in ssa.Instruction) bool { return isW(in) && !isLogWrite(w, asCall(in)) }

	// ---- R1
	type sender struct {
		key     string
		whole   func(fn *ssa.Function, c ssa.CallInstruction, a ssa.Value) (bool, string)
		viaSend bool
	}
	wholeMarshal := func(fn *ssa.Function, c ssa.CallInstruction, a ssa.Value) (bool, string) {
		if ex, ok := a.(*ssa.Extract); ok && ex.Index == 0 {
			if mc, ok := ex.Tuple.(*ssa.Call); ok && w.callKey(mc) == "encoding/xml.Marshal" {
				// the marshalled value is the packet parameter
				arg := mc.Call.Args[0]
				if ci, ok := arg.(*ssa.ChangeInterface); ok {
					arg = ci.X
				}
				if mi, ok := arg.(*ssa.MakeInterface); ok {
					arg = mi.X
				}
				if isParamOf(arg, fn) {
					return true, "writes the whole result of xml.Marshal(packet)"
				}
				return false, "marshals something other than the packet parameter"
			}
		}
		return false, "the written buffer is not the whole result of xml.Marshal: " + a.String()
	}
	wholeString := func(fn *ssa.Function, c ssa.CallInstruction, a ssa.Value) (bool, string) {
		if cv, ok := a.(*ssa.Convert); ok && isParamOf(cv.X, fn) {
			return true, "writes []byte(packet) of the whole string parameter"
		}
		return false, "the written bytes are not the whole string parameter: " + a.String()
	}
	wholeParam := func(fn *ssa.Function, c ssa.CallInstruction, a ssa.Value) (bool, string) {
		if isParamOf(a, fn) {
			return true, "writes its parameter unchanged"
		}
		return false, "writes something other than its parameter: " + a.String()
	}
	for _, s := range []sender{
		{"xmpp.(*Client).Send", wholeMarshal, false},
		{"xmpp.(*Client).SendRaw", wholeString, false},
		{"xmpp.(*Component).Send", wholeMarshal, false},
		{"xmpp.(*Component).SendRaw", wholeString, false},
		{"xmpp.(*Client).sendWithWriter", wholeParam, false},
		{"xmpp.(*Component).sendWithWriter", wholeParam, false},
	} {
		fn := w.FuncOpt(s.key)
		if fn == nil && strings.HasSuffix(s.key, ".sendWithWriter") {
			continue // the one-line wrapper has been inlined: its callers now write directly and are judged as such
		}
		if fn == nil {
			fn = w.Func(s.key)
		}
		r.Anchor(s.key)
		bad := ""
		nOK := 0
		err := walkPaths(entryLoc(fn), nil, nil, 50000, func(path []ssa.Instruction, end pathEnd) {
			ret, isRet := path[len(path)-1].(*ssa.Return)
			if !isRet || end == endCycle {
				bad = "a loop or panic on the send path"
				return
			}
			res := rres(path, ret)[len(ret.Results)-1]
			if c, ok := res.(*ssa.Const); !ok || c.Value != nil {
				// possibly nil unless asserted non-nil or constructed
				if _, isCallRes := res.(*ssa.Call); isCallRes && !w.isResultOf(res, 0, sendWriteKeys...) {
					return // errors.New(...): an error return
				}
				if pathAsserts(path, func(c ssa.Value, truth bool) bool { return assertsNonNil(c, truth, res) }) {
					return
				}
			}
			// a path that can report success
			n := countOn(path, notLog)
			nOK++
			if n != 1 {
				bad = fmt.Sprintf("a path that can report success performs %d writes (return at %s)", n, w.ipos(ret))
				return
			}
			forPath(path, func(i int, in ssa.Instruction) {
				if notLog(in) {
					if _, isCall := in.(*ssa.Call); !isCall {
						bad = "the write is deferred or asynchronous"
					}
					args := asCall(in).Common().Args
					// what is written, as this path determines it (through the parameters of walked-through helpers)
					if ok, why := s.whole(fn, asCall(in), rvI(args[len(args)-1], i)); !ok {
						bad = why
					}
				}
			})
		})
		if err != nil {
			r.Undecided("R1", s.key, w.pos(fn.Pos()), err.Error())
			continue
		}
		// no slicing of the data anywhere in the function
		allInstrs(fn, func(in ssa.Instruction) {
			if sl, ok := in.(*ssa.Slice); ok {
				if _, isBytes := sl.Type().Underlying().(*types.Slice); isBytes && (sl.Low != nil || sl.High != nil) {
					if _, isAlloc := sl.X.(*ssa.Alloc); !isAlloc {
						bad = "the buffer is sliced before being written at " + w.ipos(in)
					}
				}
			}
		})
		r.Check(bad == "" && nOK > 0, "R1", s.key, w.pos(fn.Pos()), bad, fmt.Sprintf("%d success path(s), each with exactly one write of the whole buffer", nOK))
	}
	for _, k := range []string{"xmpp.(*Client).SendIQ", "xmpp.(*Component).SendIQ"} {
		fn := w.Func(k)
		bad := ""
		nOK := 0
		isSend := w.isCallTo("xmpp.Client.Send", "xmpp.Component.Send")
		walkPaths(entryLoc(fn), nil, nil, 5000, func(path []ssa.Instruction, end pathEnd) {
			ret, isRet := path[len(path)-1].(*ssa.Return)
			if !isRet {
				return
			}
			// a path that can report success: the error returned is nil, or a call's error this path has not found non-nil
			if certainError(w, resolveOn(rres(path, ret)[len(ret.Results)-1], len(path)-1, path), path) {
				return
			}
			nOK++
			if n := countOn(path, isSend); n != 1 {
				bad = fmt.Sprintf("a successful SendIQ sends the request %d time(s)", n)
			}
			if countOn(path, notLog) != 0 {
				bad = "SendIQ writes directly besides calling Send"
			}
			forPath(path, func(i int, in ssa.Instruction) {
				if isSend(in) {
					as := asCall(in).Common().Args
					a := as[len(as)-1]
					if mi, ok := a.(*ssa.MakeInterface); ok {
						a = mi.X
					}
					// (a parameter captured by a function literal lives in memory and is read back)
					if !isParamOf(rvAny(a), fn) && !isParamOf(resolveOn(a, i, path), fn) {
						bad = "SendIQ sends something other than the iq it was given"
					}
				}
			})
		})
		r.Check(bad == "" && nOK > 0, "R1", k, w.pos(fn.Pos()), bad, "exactly one Send(iq) on the success path")
	}

	// ---- R2 wrappers
	for _, k := range []string{"xmpp.(*XMPPTransport).Write", "xmpp.(WebsocketTransport).Write"} {
		fn := w.Func(k)
		bad := ""
		nOK := 0
		walkPaths(entryLoc(fn), nil, nil, 5000, func(path []ssa.Instruction, end pathEnd) {
			ret, isRet := path[len(path)-1].(*ssa.Return)
			if !isRet {
				bad = "loop or panic"
				return
			}
			n := countOn(path, notLog)
			res := rres(path, ret)[len(ret.Results)-1]
			if n == 0 {
				if isNilConst(res) {
					bad = "Write can report success without writing"
				}
				return
			}
			nOK++
			if n != 1 {
				bad = fmt.Sprintf("the wrapper writes %d times", n)
			}
			for _, in := range path {
				if notLog(in) {
					wargs := asCall(in).Common().Args
					if ok, why := wholeParam(fn, asCall(in), rvAny(wargs[len(wargs)-1])); !ok {
						bad = why
					}
					// error of the inner write is what is returned
					c := asCall(in).(*ssa.Call)
					if !(res == ssa.Value(c) || w.isResultOf(res, -1, w.callKey(c))) {
						if ex, ok := res.(*ssa.Extract); !ok || ex.Tuple != ssa.Value(c) {
							bad = "the wrapper does not return the inner write's error"
						}
					}
				}
			}
		})
		r.Check(bad == "" && nOK > 0, "R2", k, w.pos(fn.Pos()), bad, "one inner Write(p), error returned")
	}
	c08StreamLogger(w, r)

	// ---- R3 error propagation
	for _, k := range []string{"xmpp.(*Client).Send", "xmpp.(*Client).SendRaw", "xmpp.(*Component).Send", "xmpp.(*Component).SendRaw", "xmpp.(*Client).sendWithWriter", "xmpp.(*Component).sendWithWriter", "xmpp.(*Client).SendIQ", "xmpp.(*Component).SendIQ"} {
		fn := w.FuncOpt(k)
		if fn == nil && strings.HasSuffix(k, ".sendWithWriter") {
			continue
		}
		if fn == nil {
			fn = w.Func(k)
		}
		n := 0
		isSendCall := w.isCallTo("xmpp.Client.Send", "xmpp.Component.Send")
		allInstrsH(fn, func(in ssa.Instruction) {
			c, ok := in.(*ssa.Call)
			if !ok {
				return
			}
			ck := w.callKey(c)
			if !(ck == "encoding/xml.Marshal" || isW(in) || isSendCall(in)) || isLogWrite(w, c) {
				return
			}
			n++
			cons := fmt.Sprintf("%s→%s#%d", k, ck, n)
			bad := errorDropped(w, c.Parent(), c)
			r.Check(bad == "", "R3", cons, w.ipos(c), bad, "error returned or tested on every path; non-nil edge never returns nil")
		})
	}
	r.Floor("R3", 9)

	// ---- R4
	c08Bookkeeping(w, r, "R4")
}

// errorDropped: a path from call c to a return that neither tests nor returns c's error result,
// or tests it non-nil and returns nil.
func errorDropped(w *World, fn *ssa.Function, c *ssa.Call) string {
	var errV ssa.Value
	sig := c.Call.Signature()
	nres := sig.Results().Len()
	if nres == 0 {
		return ""
	}
	if nres == 1 {
		errV = c
	} else {
		for _, rf := range *c.Referrers() {
			if ex, ok := rf.(*ssa.Extract); ok && ex.Index == nres-1 {
				errV = ex
			}
		}
	}
	if errV == nil {
		return "the error result of " + w.callKey(c) + " is discarded"
	}
	// the error may be copied into a named result / local via Phi: collect aliases
	alias := map[ssa.Value]bool{errV: true}
	changed := true
	for changed {
		changed = false
		allInstrs(fn, func(in ssa.Instruction) {
			if p, ok := in.(*ssa.Phi); ok && !alias[p] {
				for _, e := range p.Edges {
					if alias[e] {
						alias[p] = true
						changed = true
					}
				}
			}
		})
	}
	bad := ""
	walkPaths(after(c), nil, nil, 20000, func(path []ssa.Instruction, end pathEnd) {
		ret, ok := path[len(path)-1].(*ssa.Return)
		if !ok {
			return
		}
		res := rres(path, ret)[len(ret.Results)-1]
		testedNonNil, testedNil := false, false
		pathEdges(path, func(b *ssa.BasicBlock, succ int) {
			if cv, truth, ok := edgeAssertion(b, succ); ok {
				// (the test may sit in a helper the error is handed to: its parameter is the error on this path)
				if x, eq, isN := nilCompare(cv); isN && (alias[x] || alias[rvI(x, curEdgeIdx)] || alias[resolveOn(x, curEdgeIdx, path)]) {
					if eq == truth {
						testedNil = true
					} else {
						testedNonNil = true
					}
				}
			}
		})
		switch {
		case alias[res]:
		case testedNonNil:
			if isNilConst(res) {
				bad = "the error of " + w.callKey(c) + " is tested but nil is returned on its failure edge (return at " + w.ipos(ret) + ")"
			}
		case testedNil:
		default:
			bad = "a path from " + w.callKey(c) + " to the return at " + w.ipos(ret) + " neither tests nor returns its error"
		}
	})
	return bad
}

func c08StreamLogger(w *World, r *Report) {
	fn := w.Func("xmpp.(*streamLogger).Write")
	loops := findRangeLoops(fn)
	cons := "xmpp.(*streamLogger).Write"
	if len(loops) != 1 {
		// straight-line form: fall back to path enumeration
		bad := ""
		nOK := 0
		sockFirst := true
		walkPaths(entryLoc(fn), nil, nil, 5000, func(path []ssa.Instruction, end pathEnd) {
			ret, isRet := path[len(path)-1].(*ssa.Return)
			if !isRet || end == endCycle {
				bad = "loop of unknown shape"
				return
			}
			res := resolveOn(rres(path, ret)[1], len(path)-1, path)
			if !isNilConst(res) {
				// an error that this path has found non-nil, or a constructed one: not a success path
				if _, isC := res.(*ssa.Const); isC {
					return
				}
				if pathAsserts(path, func(c ssa.Value, truth bool) bool { return assertsNonNil(c, truth, res) }) {
					return
				}
				if _, isLoad := res.(*ssa.UnOp); isLoad {
					return // a package-level error value (io.ErrShortWrite)
				}
			}
			nOK++
			nSock, iSock, iLog := 0, -1, -1
			forPath(path, func(i int, in ssa.Instruction) {
				c := asCall(in)
				if c == nil || !strings.HasSuffix(w.callKey(c), ".Write") {
					return
				}
				a := c.Common().Args[len(c.Common().Args)-1]
				if !isParamOf(rvI(a, i), fn) {
					return
				}
				if isLogWrite(w, c) {
					if iLog < 0 {
						iLog = i
					}
				} else {
					nSock++
					iSock = i
				}
			})
			if nSock != 1 {
				bad = fmt.Sprintf("%d socket writes of p on a success path", nSock)
			}
			if iLog >= 0 && iLog < iSock {
				sockFirst = false
			}
			// a short socket write is an error (io.Writer: n < len(p) comes with a non-nil error): a success path has found
			// the socket's count equal to len(p), or hands on the socket write's own results
			if nSock == 1 && bad == "" {
				sc, _ := path[iSock].(*ssa.Call)
				var nv, ev ssa.Value
				if sc != nil && sc.Referrers() != nil {
					for _, rf := range *sc.Referrers() {
						if ex, ok := rf.(*ssa.Extract); ok {
							if ex.Index == 0 {
								nv = ex
							} else {
								ev = ex
							}
						}
					}
				}
				r0 := resolveOn(rres(path, ret)[0], len(path)-1, path)
				passthrough := nv != nil && ev != nil && r0 == nv && res == ev
				whole := nv != nil && pathAsserts(path, func(c ssa.Value, truth bool) bool {
					bo, ok := c.(*ssa.BinOp)
					if !ok || (bo.Op != token.EQL && bo.Op != token.NEQ) || (bo.Op == token.EQL) != truth {
						return false
					}
					isN := func(v ssa.Value) bool { return v == nv || rvAny(v) == nv || resolveOn(v, curEdgeIdx, path) == nv }
					isLen := func(v ssa.Value) bool {
						lc, ok := v.(*ssa.Call)
						if !ok {
							return false
						}
						b, isB := lc.Call.Value.(*ssa.Builtin)
						if !isB || b.Name() != "len" {
							return false
						}
						// len of what was handed to the socket write (inside a helper: the helper's own parameter)
						wa := sc.Common().Args[len(sc.Common().Args)-1]
						return lc.Call.Args[0] == wa || isParamOf(rvAny(lc.Call.Args[0]), fn)
					}
					return (isN(bo.X) && isLen(bo.Y)) || (isN(bo.Y) && isLen(bo.X))
				})
				// (a path on which an error known to be a package-level error value — io.ErrShortWrite — was then found nil
				// does not exist)
				infeasible := pathAsserts(path, func(c ssa.Value, truth bool) bool {
					x, eq, ok := nilCompare(c)
					if !ok || eq != truth {
						return false
					}
					rv := resolveOn(x, curEdgeIdx, path)
					if rv == nil {
						rv = x
					}
					if mi, isMI := rv.(*ssa.MakeInterface); isMI {
						rv = mi.X
					}
					u, isLoad := rv.(*ssa.UnOp)
					if !isLoad {
						return false
					}
					_, isG := u.X.(*ssa.Global)
					return isG
				})
				if !passthrough && !whole && !infeasible {
					bad = "a path reports success (return at " + w.ipos(ret) + ") without having found the socket's count equal to len(p): a short write puts part of a stanza on the wire and the sender is told it was sent"
				}
			}
		})
		r.Check(bad == "" && nOK > 0 && sockFirst, "R2", cons, w.pos(fn.Pos()), bad+map[bool]string{false: " log written before the socket", true: ""}[sockFirst], "one socket Write(p), before the log")
		return
	}
	lp := loops[0]
	elems := sliceLitElems(lp.slice)
	var names []string
	for _, e := range elems {
		if ci, ok := e.(*ssa.ChangeInterface); ok {
			e = ci.X
		}
		f, _ := loadedField(e)
		if f == nil {
			names = append(names, "?")
		} else {
			names = append(names, f.Name())
		}
	}
	okOrder := len(names) == 2 && names[0] == "socket" && names[1] == "logFile"
	r.Check(okOrder, "R2", cons+"#order", w.pos(fn.Pos()), "the writers are not [socket, logFile] in that order: "+strings.Join(names, ","), "ranges over []io.Writer{socket, logFile}")
	// one iteration
	bad := ""
	nCont := 0
	isHeader := func(in ssa.Instruction) bool { return in == lp.header.Instrs[0] }
	walkPaths(Loc{lp.body, 0}, isHeader, nil, 5000, func(path []ssa.Instruction, end pathEnd) {
		var wc *ssa.Call
		n := 0
		for _, in := range path {
			if c, ok := in.(*ssa.Call); ok && strings.HasSuffix(w.callKey(c), ".Write") {
				n++
				wc = c
			}
		}
		if n != 1 {
			bad = fmt.Sprintf("%d writes in one iteration", n)
			return
		}
		if !isParamOf(wc.Call.Args[len(wc.Call.Args)-1], fn) {
			bad = "an iteration writes something other than p"
		}
		// receiver is the range element
		if u, ok := wc.Call.Value.(*ssa.UnOp); !ok || func() bool { ia, ok := u.X.(*ssa.IndexAddr); return !ok || ia.Index != lp.idx }() {
			bad = "the write is not on the ranged writer"
		}
		var nV, eV ssa.Value
		for _, rf := range *wc.Referrers() {
			if ex, ok := rf.(*ssa.Extract); ok {
				if ex.Index == 0 {
					nV = ex
				} else {
					eV = ex
				}
			}
		}
		last := path[len(path)-1]
		if isHeader(last) {
			nCont++
			okE := eV != nil && pathAsserts(path, func(c ssa.Value, truth bool) bool { return assertsNil(c, truth, eV) })
			okN := nV != nil && pathAsserts(path, func(c ssa.Value, truth bool) bool {
				bo, ok := c.(*ssa.BinOp)
				if !ok || bo.X != nV {
					return false
				}
				lc, isLen := bo.Y.(*ssa.Call)
				if !isLen || w.callKey(lc) != "builtin.len" || !isParamOf(lc.Call.Args[0], fn) {
					return false
				}
				return (bo.Op.String() == "==") == truth
			})
			if !okE || !okN {
				bad = "the next writer is served although the previous write failed or was short"
			}
			return
		}
		ret, ok := last.(*ssa.Return)
		if !ok {
			bad = "iteration ends in neither continue nor return"
			return
		}
		// failure exit: must return a non-nil error
		res := rres(path, ret)[1]
		if isNilConst(res) {
			bad = "a failed or short write is reported as success"
		} else if res == eV {
			// the write's own error: this must be the exit on which it was found non-nil (not the short-write exit)
			if !pathAsserts(path, func(c ssa.Value, truth bool) bool { return assertsNonNil(c, truth, eV) }) {
				bad = "a short write is reported with the write's nil error: as success"
			}
		} else if res != eV {
			if u, ok := res.(*ssa.UnOp); !ok || func() bool { g, ok := u.X.(*ssa.Global); return !ok || g.Name() != "ErrShortWrite" }() {
				bad = "a failed write returns an unrelated value"
			}
		}
	})
	r.Check(bad == "" && nCont > 0, "R2", cons+"#iteration", w.pos(fn.Pos()), bad, "per writer: one Write(p); continue only if err==nil and n==len(p); otherwise a non-nil error")
	// after the loop: returns len(p), nil
	okDone := false
	walkPaths(Loc{lp.done, 0}, nil, nil, 100, func(path []ssa.Instruction, end pathEnd) {
		if ret, ok := path[len(path)-1].(*ssa.Return); ok && isNilConst(rres(path, ret)[1]) {
			if lc, ok := rres(path, ret)[0].(*ssa.Call); ok && w.callKey(lc) == "builtin.len" && isParamOf(lc.Call.Args[0], fn) {
				okDone = true
			}
		}
	})
	r.Check(okDone, "R2", cons+"#result", w.pos(fn.Pos()), "after both writes the wrapper does not return len(p), nil", "returns len(p), nil")
}

// c08Bookkeeping — shared with C10.R7.
func c08Bookkeeping(w *World, r *Report, rule string) {
	fMu := w.Field("stanza.UnAckQueue.RWMutex")
	mutators := []string{"stanza.UnAckQueue.Push", "stanza.UnAckQueue.Pop", "stanza.UnAckQueue.PopN"}
	n := 0
	lis := map[*ssa.Function]*lockInfo{}
	li := func(f *ssa.Function) *lockInfo {
		if lis[f] == nil {
			lis[f] = analyseLocks(w, f, fMu)
		}
		return lis[f]
	}
	// held for writing at in: locally, or — inside a helper — at every call of the helper
	var heldW func(in ssa.Instruction, depth int) bool
	heldW = func(in ssa.Instruction, depth int) bool {
		f := in.Parent()
		if li(f).holdsW(in) {
			return true
		}
		if depth > 3 || !isHelper(f) {
			return false
		}
		sites := w.callSitesOf(f)
		if len(sites) == 0 {
			return false
		}
		for _, cs := range sites {
			if !heldW(cs, depth+1) {
				return false
			}
		}
		return true
	}
	cnt := map[string]int{}
	for _, f := range w.LibFuncs() {
		if f.Pkg != nil && f.Pkg.Pkg.Path() == pkgStanza {
			continue // the queue's own methods call each other (PopN→PeekN) under the caller's lock
		}
		calls := w.callsIn(f, mutators...)
		for _, c := range calls {
			// one obligation per function on whose behalf the call runs (a helper shared by Send and SendRaw counts for both)
			for _, o := range w.owners(f) {
				n++
				k := w.funcKey(o) + "→" + strings.TrimPrefix(w.callKey(c), "stanza.UnAckQueue.")
				cnt[k]++
				cons := k
				if cnt[k] > 1 {
					cons = fmt.Sprintf("%s#%d", k, cnt[k])
				}
				r.Check(heldW(c.(ssa.Instruction), 0), rule, cons+"#lock", w.ipos(c), "the unacknowledged-stanza queue is modified without holding its mutex: two goroutines sending concurrently race on the slice (lost or duplicated entries, duplicate sequence numbers), and a sender races with the acknowledgement handler", "queue mutex held for writing")
			}
		}
	}
	if n < 4 {
		r.Undecided(rule, "UnAckQueue#mutator-call-sites", "-", fmt.Sprintf("only %d mutator call sites found, 4 confirmed by hand", n))
	}
	// Push and Write in one critical section in Send / SendRaw
	for _, k := range []string{"xmpp.(*Client).Send", "xmpp.(*Client).SendRaw"} {
		fn := w.Func(k)
		pushes := w.callsInH(fn, "stanza.UnAckQueue.Push")
		writes := w.callsInH(fn, "xmpp.Client.sendWithWriter", "xmpp.Transport.Write", "io.Writer.Write")
		if len(pushes) == 0 || len(writes) == 0 {
			r.Undecided(rule, k+"#push+write", w.pos(fn.Pos()), "no Push or no write found")
			continue
		}
		// any mutex field: look for a common region under any mutex used in fn
		same := false
		seen := map[*types.Var]bool{}
		allInstrs(fn, func(in ssa.Instruction) {
			if c := asCall(in); c != nil {
				if m, op := mutexCall(w, c); m != nil && op != "" && !seen[m] {
					seen[m] = true
					li := analyseLocks(w, fn, m)
					ok := true
					for _, p := range pushes {
						for _, wr := range writes {
							if !li.sameRegion(w.liftTo(fn, p.(ssa.Instruction)), w.liftTo(fn, wr.(ssa.Instruction))) {
								ok = false
							}
						}
					}
					if ok {
						same = true
					}
				}
			}
		})
		r.Check(same, rule, k+"#push+write-one-section", w.ipos(pushes[0]), "the enqueue and the write of a stanza are not in one critical section: two concurrent senders can enqueue in one order and write in the other, so the sequence numbers no longer match the order on the wire and an acknowledgement discards the wrong stanza", "Push and Write under one mutex")
	}
}
