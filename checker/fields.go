package main

// E4 — field access inventory: every load, store and address-escape of a given
// struct field anywhere in the module, with the stored value.

import (
	"go/token"
	"go/types"

	"golang.org/x/tools/go/ssa"
)

type Access struct {
	Fn    *ssa.Function
	Instr ssa.Instruction
	Kind  string    // "load" | "store" | "addr" | "whole-store" (store of the enclosing struct)
	Val   ssa.Value // stored value (store), or the whole struct value (whole-store)
	Addr  ssa.Value
}

// structHasField: does struct type st (transitively, by value embedding or
// nesting) contain field f? Returns true if a store of a whole value of type t
// overwrites f.
func typeContainsField(t types.Type, f *types.Var, depth int) bool {
	if depth > 6 {
		return false
	}
	st, ok := t.Underlying().(*types.Struct)
	if !ok {
		return false
	}
	for i := 0; i < st.NumFields(); i++ {
		if st.Field(i) == f {
			return true
		}
		if typeContainsField(st.Field(i).Type(), f, depth+1) {
			return true
		}
	}
	return false
}

// fieldAccesses inventories field f over the given functions.
func (w *World) fieldAccesses(f *types.Var, fns []*ssa.Function) []Access {
	var out []Access
	for _, fn := range fns {
		allInstrs(fn, func(in ssa.Instruction) {
			switch x := in.(type) {
			case *ssa.FieldAddr:
				if fieldOfAddr(x) != f {
					return
				}
				refs := x.Referrers()
				if refs == nil {
					return
				}
				for _, r := range *refs {
					switch rr := r.(type) {
					case *ssa.Store:
						if rr.Addr == x {
							out = append(out, Access{fn, rr, "store", rr.Val, x})
						} else {
							out = append(out, Access{fn, rr, "addr", nil, x})
						}
					case *ssa.UnOp:
						if rr.Op == token.MUL {
							out = append(out, Access{fn, rr, "load", nil, x})
						} else {
							out = append(out, Access{fn, rr, "addr", nil, x})
						}
					case *ssa.FieldAddr:
						// access to a sub-field: not an access to f as a whole;
						// callers interested in sub-fields query those directly.
						out = append(out, Access{fn, rr, "subfield", nil, x})
					case *ssa.DebugRef:
					default:
						out = append(out, Access{fn, r, "addr", nil, x})
					}
				}
			case *ssa.Field:
				if fieldOfVal(x) == f {
					out = append(out, Access{fn, x, "load", nil, nil})
				}
			case *ssa.Store:
				// whole-struct store overwriting f
				if _, isFA := x.Addr.(*ssa.FieldAddr); isFA {
					if fieldOfAddr(x.Addr.(*ssa.FieldAddr)) == f {
						return // handled above
					}
				}
				pt, ok := x.Addr.Type().Underlying().(*types.Pointer)
				if !ok {
					return
				}
				if typeContainsField(pt.Elem(), f, 0) {
					// stores into a fresh local composite literal being built are
					// reported too; rules decide what matters.
					out = append(out, Access{fn, x, "whole-store", x.Val, x.Addr})
				}
			}
		})
	}
	return out
}

// isZeroValue: constant zero of its type (nil, 0, "", false) or a zero composite
// literal (a fresh Alloc with no stores, loaded).
func isZeroValue(v ssa.Value) bool {
	if c, ok := v.(*ssa.Const); ok {
		if c.Value == nil {
			return true
		}
		s := c.Value.ExactString()
		return s == "0" || s == `""` || s == "false"
	}
	// load of a fresh alloc that has no stores: T{}
	if u, ok := v.(*ssa.UnOp); ok && u.Op == token.MUL {
		if a, ok := u.X.(*ssa.Alloc); ok {
			for _, r := range *a.Referrers() {
				switch rr := r.(type) {
				case *ssa.Store:
					if rr.Addr == a {
						return false
					}
				case *ssa.FieldAddr:
					if rr.Referrers() != nil {
						for _, r2 := range *rr.Referrers() {
							if _, isStore := r2.(*ssa.Store); isStore {
								return false
							}
						}
					}
				}
			}
			return true
		}
	}
	return false
}

// complitFields: for a value that is the load of a local composite literal
// (alloc + field stores + load), the per-field stored values.
func complitFields(v ssa.Value) (map[string]ssa.Value, *ssa.Alloc) {
	v = origin(v)
	u, ok := v.(*ssa.UnOp)
	var a *ssa.Alloc
	if ok && u.Op == token.MUL {
		a, _ = u.X.(*ssa.Alloc)
		if fv, isFV := u.X.(*ssa.FreeVar); isFV {
			a = allocOfFreeVar(fv, 0) // the literal is read inside a function literal that captures it
		}
	} else if al, ok2 := v.(*ssa.Alloc); ok2 {
		a = al
	}
	if a == nil {
		return nil, nil
	}
	if writtenThroughCapture(a, 0) {
		return nil, nil // a function literal assigns to it or to one of its fields: not a plain literal any more
	}
	out := map[string]ssa.Value{}
	for _, r := range *a.Referrers() {
		fa, ok := r.(*ssa.FieldAddr)
		if !ok {
			continue
		}
		fv := fieldOfAddr(fa)
		if fa.Referrers() == nil {
			continue
		}
		for _, r2 := range *fa.Referrers() {
			if st, ok := r2.(*ssa.Store); ok && st.Addr == fa {
				out[fv.Name()] = st.Val
			}
		}
	}
	return out, a
}

// writtenThroughCapture: some function literal that captures the variable stores to it or to a field of it.
func writtenThroughCapture(a ssa.Value, depth int) bool {
	if a.Referrers() == nil || depth > 3 {
		return false
	}
	for _, rf := range *a.Referrers() {
		mc, ok := rf.(*ssa.MakeClosure)
		if !ok {
			continue
		}
		fn, _ := mc.Fn.(*ssa.Function)
		if fn == nil {
			return true
		}
		for i, b := range mc.Bindings {
			if b != a || i >= len(fn.FreeVars) {
				continue
			}
			fv := fn.FreeVars[i]
			for _, r2 := range *fv.Referrers() {
				switch y := r2.(type) {
				case *ssa.Store:
					if y.Addr == ssa.Value(fv) {
						return true
					}
				case *ssa.FieldAddr:
					if y.Referrers() != nil {
						for _, r3 := range *y.Referrers() {
							if st, ok := r3.(*ssa.Store); ok && st.Addr == ssa.Value(y) {
								return true
							}
						}
					}
				}
			}
			if writtenThroughCapture(fv, depth+1) {
				return true
			}
		}
	}
	return false
}

// addrOfFieldOrCopy: v is &x.f, or the address of a local that holds a one-time copy of x.f (h := x.f; … &h).
func addrOfFieldOrCopy(v ssa.Value, f *types.Var) bool {
	if fa, ok := v.(*ssa.FieldAddr); ok {
		return fieldOfAddr(fa) == f
	}
	al, ok := v.(*ssa.Alloc)
	if !ok {
		return false
	}
	n, okCopy := 0, false
	for _, rf := range *al.Referrers() {
		if st, ok := rf.(*ssa.Store); ok && st.Addr == ssa.Value(al) {
			n++
			if lf, _ := loadedField(st.Val); lf == f {
				okCopy = true
			}
		}
	}
	return n == 1 && okCopy
}

// literalFields: the fields of a struct literal — a local composite literal, or a package-level variable that is
// initialised once by the package initialiser and never written anywhere else (an effectively constant literal).
func (w *World) literalFields(v ssa.Value) (map[string]ssa.Value, bool) {
	if f, al := complitFields(v); al != nil {
		return f, true
	}
	v = origin(v)
	u, ok := v.(*ssa.UnOp)
	if !ok || u.Op != token.MUL {
		return nil, false
	}
	g, ok := u.X.(*ssa.Global)
	if !ok {
		return nil, false
	}
	out := map[string]ssa.Value{}
	constant := true
	for _, f := range w.Funcs {
		allInstrs(f, func(in ssa.Instruction) {
			st, isSt := in.(*ssa.Store)
			if !isSt || rootOf(st.Addr) != ssa.Value(g) {
				return
			}
			if f.Name() != "init" {
				constant = false
				return
			}
			if fp := fieldPath(st.Addr); len(fp) == 1 {
				out[fp[0].Name()] = st.Val
			}
		})
	}
	if !constant || len(out) == 0 {
		return nil, false
	}
	return out, true
}
