package main

import (
	"fmt"
	"os"
	"sort"
	"strings"
	"testing"
)

// TestGenKnownFuncs regenerates knownfuncs.go from the current /repo tree (run by hand:
// go test -run TestGenKnownFuncs . with GEN_KNOWN=1).
func TestGenKnownFuncs(t *testing.T) {
	if os.Getenv("GEN_KNOWN") == "" {
		t.Skip()
	}
	w := load(loadOpts{repo: "/repo"})
	var keys []string
	for _, f := range w.LibFuncs() {
		keys = append(keys, w.funcKey(f))
	}
	sort.Strings(keys)
	var sb strings.Builder
	sb.WriteString("package main\n\n// Code generated from the reference tree; used ONLY as the walk-through policy of the path\n// engine: functions that are not listed here (helpers introduced by a later refactoring or\n// change) are walked through instead of being treated as opaque calls. No verdict depends on\n// a name being in this list.\nvar knownFuncs = map[string]bool{\n")
	for _, k := range keys {
		fmt.Fprintf(&sb, "\t%q: true,\n", k)
	}
	sb.WriteString("}\n")
	os.WriteFile("knownfuncs.go", []byte(sb.String()), 0o644)
}
