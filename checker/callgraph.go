package main

// Module-local call resolution: static callees directly; interface invokes by
// class-hierarchy analysis restricted to module types (external
// implementations are leaves of the trusted base). Printed in the evidence.

import (
	"go/types"
	"sort"

	"golang.org/x/tools/go/ssa"
)

// moduleNamedTypes: all named (non-interface) types declared in the two packages.
func (w *World) moduleNamedTypes() []*types.Named {
	var out []*types.Named
	for _, n := range []string{"stanza", "xmpp"} {
		sc := w.Pkgs[n].Types.Scope()
		for _, name := range sc.Names() {
			if tn, ok := sc.Lookup(name).(*types.TypeName); ok && !tn.IsAlias() {
				if nt, ok := tn.Type().(*types.Named); ok {
					if _, isIface := nt.Underlying().(*types.Interface); !isIface {
						out = append(out, nt)
					}
				}
			}
		}
	}
	return out
}

// implementers of an interface among module types (T or *T).
func (w *World) implementers(it *types.Interface) []types.Type {
	var out []types.Type
	for _, nt := range w.moduleNamedTypes() {
		if types.Implements(nt, it) {
			out = append(out, nt)
		} else if types.Implements(types.NewPointer(nt), it) {
			out = append(out, types.NewPointer(nt))
		}
	}
	return out
}

// callees resolves a call to module functions with bodies.
func (w *World) callees(c ssa.CallInstruction) []*ssa.Function {
	cc := c.Common()
	if !cc.IsInvoke() {
		if f := cc.StaticCallee(); f != nil {
			if f.Blocks != nil && w.inModule(f) {
				return []*ssa.Function{f}
			}
			return nil
		}
		// closure value called dynamically: resolve MakeClosure operands
		if mc, ok := cc.Value.(*ssa.MakeClosure); ok {
			if f, ok := mc.Fn.(*ssa.Function); ok && f.Blocks != nil {
				return []*ssa.Function{f}
			}
		}
		return nil
	}
	it, ok := cc.Value.Type().Underlying().(*types.Interface)
	if !ok {
		return nil
	}
	var out []*ssa.Function
	for _, t := range w.implementers(it) {
		ms := w.Prog.MethodSets.MethodSet(t)
		sel := ms.Lookup(cc.Method.Pkg(), cc.Method.Name())
		if sel == nil {
			continue
		}
		fn := w.Prog.MethodValue(sel)
		if fn == nil {
			continue
		}
		// unwrap synthetic wrappers (promoted / pointer-to-value) to the declared method
		fn = w.unwrap(fn)
		if fn != nil && fn.Blocks != nil {
			out = append(out, fn)
		}
	}
	return out
}

// inModule: the function (or its enclosing function) is declared in one of the two module packages.
func (w *World) inModule(f *ssa.Function) bool {
	for f.Parent() != nil {
		f = f.Parent()
	}
	if f.Pkg != nil {
		p := f.Pkg.Pkg.Path()
		return p == pkgXMPP || p == pkgStanza
	}
	if f.Object() != nil && f.Object().Pkg() != nil {
		p := f.Object().Pkg().Path()
		return p == pkgXMPP || p == pkgStanza
	}
	return false
}

// unwrap follows a synthetic wrapper to the declared function it forwards to.
func (w *World) unwrap(fn *ssa.Function) *ssa.Function {
	for i := 0; i < 4 && fn != nil && fn.Synthetic != "" && fn.Object() != nil; i++ {
		if f, ok := fn.Object().(*types.Func); ok {
			if decl := w.Prog.FuncValue(f); decl != nil && decl != fn {
				fn = decl
				continue
			}
		}
		break
	}
	return fn
}

// closure: functions reachable from the given call instructions (module only).
func (w *World) closureFrom(calls []ssa.CallInstruction, stopAt func(*ssa.Function) bool) map[*ssa.Function]bool {
	seen := map[*ssa.Function]bool{}
	var visit func(f *ssa.Function)
	visit = func(f *ssa.Function) {
		if f == nil || seen[f] || (stopAt != nil && stopAt(f)) {
			return
		}
		seen[f] = true
		allInstrs(f, func(in ssa.Instruction) {
			if c := asCall(in); c != nil {
				for _, g := range w.callees(c) {
					visit(g)
				}
			}
			if mc, ok := in.(*ssa.MakeClosure); ok {
				if g, ok := mc.Fn.(*ssa.Function); ok {
					visit(g)
				}
			}
		})
	}
	for _, c := range calls {
		for _, g := range w.callees(c) {
			visit(g)
		}
	}
	return seen
}

func (w *World) sortedKeys(m map[*ssa.Function]bool) []string {
	var out []string
	for f := range m {
		out = append(out, w.funcKey(f))
	}
	sort.Strings(out)
	return out
}

// mayStore: functions that (transitively through module calls) store one of the fields.
func (w *World) mayStoreClosure(fields ...*types.Var) map[*ssa.Function]bool {
	direct := map[*ssa.Function]bool{}
	for _, f := range fields {
		for _, a := range w.fieldAccesses(f, w.LibFuncs()) {
			if a.Kind == "store" || a.Kind == "whole-store" || a.Kind == "addr" {
				direct[a.Fn] = true
			}
		}
	}
	// propagate to callers until fixpoint
	out := map[*ssa.Function]bool{}
	for f := range direct {
		out[f] = true
	}
	changed := true
	for changed {
		changed = false
		for _, fn := range w.LibFuncs() {
			if out[fn] {
				continue
			}
			hit := false
			allInstrs(fn, func(in ssa.Instruction) {
				if hit {
					return
				}
				if c := asCall(in); c != nil {
					for _, g := range w.callees(c) {
						if out[g] {
							hit = true
						}
					}
				}
			})
			if hit {
				out[fn] = true
				changed = true
			}
		}
	}
	return out
}
