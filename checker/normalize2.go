package main

// Second source normalisation (overlay only, never on disk): trampolines.
//
//	go func(p1 T1, …, pn Tn) { f(x1, …, xm) }(a1, …, an)        defer func(…) { f(…) }(…)
//
// is the statement `go f(x1, …, xm)[pi := ai]` when the literal's body is that single call, the actuals are identifiers or
// selector chains (evaluating them has no effect, so it does not matter how often or in which order), and every other
// operand of the inner call is a literal, an imported package's member, or a bare identifier that the enclosing function
// never assigns after its declaration (so it has the same value when the goroutine / the deferred call runs as when the
// statement executes). Field reads that would move from the start of the goroutine to the go statement are NOT accepted:
// a selector chain on a captured variable leaves the statement as it is. `recover` is left alone.

import (
	"fmt"
	"go/ast"
	"go/parser"
	"go/token"
	"sort"
	"strings"
)

func flattenTrampolines(path string, src []byte) ([]byte, []string) {
	fset := token.NewFileSet()
	f, err := parser.ParseFile(fset, path, src, parser.ParseComments)
	if err != nil {
		return nil, nil
	}
	off := func(p token.Pos) int { return fset.PositionFor(p, false).Offset }
	text := func(n ast.Node) string { return string(src[off(n.Pos()):off(n.End())]) }
	imports := map[string]bool{}
	for _, im := range f.Imports {
		name := ""
		if im.Name != nil {
			name = im.Name.Name
		} else {
			p := strings.Trim(im.Path.Value, "\"")
			name = p[strings.LastIndex(p, "/")+1:]
		}
		imports[name] = true
	}
	var edits []textEdit
	var notes []string
	for _, d := range f.Decls {
		fd, ok := d.(*ast.FuncDecl)
		if !ok || fd.Body == nil {
			continue
		}
		// identifiers of this function that are (re)assigned after their declaration, or whose address is taken
		defs := map[string]int{}
		assigned := map[string]bool{}
		addDef := func(id *ast.Ident) {
			if id != nil && id.Name != "_" {
				defs[id.Name]++
			}
		}
		fields := func(fl *ast.FieldList, result bool) {
			if fl == nil {
				return
			}
			for _, fld := range fl.List {
				for _, n := range fld.Names {
					addDef(n)
					if result {
						assigned[n.Name] = true
					}
				}
			}
		}
		fields(fd.Recv, false)
		fields(fd.Type.Params, false)
		fields(fd.Type.Results, true)
		ast.Inspect(fd.Body, func(n ast.Node) bool {
			switch x := n.(type) {
			case *ast.FuncLit:
				fields(x.Type.Params, false)
				fields(x.Type.Results, true)
			case *ast.AssignStmt:
				for _, l := range x.Lhs {
					if id, ok := l.(*ast.Ident); ok {
						if x.Tok == token.DEFINE {
							addDef(id)
						} else {
							assigned[id.Name] = true
						}
					}
				}
			case *ast.IncDecStmt:
				if id, ok := x.X.(*ast.Ident); ok {
					assigned[id.Name] = true
				}
			case *ast.RangeStmt:
				for _, e := range []ast.Expr{x.Key, x.Value} {
					if id, ok := e.(*ast.Ident); ok {
						if x.Tok == token.DEFINE {
							addDef(id)
						} else {
							assigned[id.Name] = true
						}
					}
				}
			case *ast.UnaryExpr:
				if id, ok := x.X.(*ast.Ident); ok && x.Op == token.AND {
					assigned[id.Name] = true
				}
			case *ast.ValueSpec:
				for _, n := range x.Names {
					addDef(n)
				}
			case *ast.TypeSwitchStmt:
				if as, ok := x.Assign.(*ast.AssignStmt); ok {
					for _, l := range as.Lhs {
						if id, ok := l.(*ast.Ident); ok {
							defs[id.Name] += 2 // one variable per clause
						}
					}
				}
			}
			return true
		})
		stable := func(name string) bool { return !assigned[name] && defs[name] <= 1 }

		ast.Inspect(fd.Body, func(n ast.Node) bool {
			var call *ast.CallExpr
			kw := ""
			switch x := n.(type) {
			case *ast.GoStmt:
				call, kw = x.Call, "go"
			case *ast.DeferStmt:
				call, kw = x.Call, "defer"
			default:
				return true
			}
			lit, ok := call.Fun.(*ast.FuncLit)
			if !ok || call.Ellipsis.IsValid() || (lit.Type.Results != nil && len(lit.Type.Results.List) > 0) || len(lit.Body.List) != 1 {
				return true
			}
			es, ok := lit.Body.List[0].(*ast.ExprStmt)
			if !ok {
				return true
			}
			inner, ok := es.X.(*ast.CallExpr)
			if !ok || inner.Ellipsis.IsValid() {
				return true
			}
			// parameters → actuals
			var names []string
			if lit.Type.Params != nil {
				for _, fld := range lit.Type.Params.List {
					if _, variadic := fld.Type.(*ast.Ellipsis); variadic || len(fld.Names) == 0 {
						return true
					}
					for _, nm := range fld.Names {
						names = append(names, nm.Name)
					}
				}
			}
			if len(names) != len(call.Args) {
				return true
			}
			var pure func(e ast.Expr) bool
			pure = func(e ast.Expr) bool {
				switch x := e.(type) {
				case *ast.Ident:
					return true
				case *ast.SelectorExpr:
					return pure(x.X)
				}
				return false
			}
			sub := map[string]string{}
			for i, a := range call.Args {
				if !pure(a) {
					return true
				}
				if names[i] != "_" {
					sub[names[i]] = text(a)
				}
			}
			// an operand of the inner call: a parameter, a stable bare identifier, a literal, or pkg.Member
			operand := func(e ast.Expr) (string, bool) {
				switch x := e.(type) {
				case *ast.BasicLit:
					return text(x), true
				case *ast.Ident:
					if s, isParam := sub[x.Name]; isParam {
						return s, true
					}
					if x.Name == "recover" || !stable(x.Name) {
						return "", false
					}
					return x.Name, true
				case *ast.SelectorExpr:
					root, ok := x.X.(*ast.Ident)
					if !ok {
						return "", false
					}
					if _, isParam := sub[root.Name]; !isParam && imports[root.Name] && defs[root.Name] == 0 {
						return text(x), true
					}
				}
				return "", false
			}
			fun := ""
			switch x := inner.Fun.(type) {
			case *ast.Ident:
				s, ok := operand(x)
				if !ok {
					return true
				}
				fun = s
			case *ast.SelectorExpr:
				root, ok := x.X.(*ast.Ident)
				if !ok {
					return true
				}
				if s, isParam := sub[root.Name]; isParam {
					fun = s + "." + x.Sel.Name
				} else if (imports[root.Name] && defs[root.Name] == 0) || stable(root.Name) {
					fun = root.Name + "." + x.Sel.Name
				} else {
					return true
				}
			default:
				return true
			}
			var args []string
			for _, a := range inner.Args {
				s, ok := operand(a)
				if !ok {
					return true
				}
				args = append(args, s)
			}
			st := n.(ast.Stmt)
			old := text(st)
			repl := kw + " " + fun + "(" + strings.Join(args, ", ") + ")" + strings.Repeat("\n", strings.Count(old, "\n"))
			edits = append(edits, textEdit{off(st.Pos()), off(st.End()), repl})
			notes = append(notes, fmt.Sprintf("%s:%d: `%s func(…){ … }(…)` analysed as `%s %s(%s)`", fset.PositionFor(st.Pos(), true).Filename, fset.PositionFor(st.Pos(), true).Line, kw, kw, fun, strings.Join(args, ", ")))
			return false
		})
	}
	if len(edits) == 0 {
		return nil, nil
	}
	sort.Slice(edits, func(i, j int) bool { return edits[i].from > edits[j].from })
	out := append([]byte{}, src...)
	for _, e := range edits {
		out = append(out[:e.from], append([]byte(e.text), out[e.to:]...)...)
	}
	if _, err := parser.ParseFile(token.NewFileSet(), path, out, parser.SkipObjectResolution); err != nil {
		return nil, []string{fmt.Sprintf("%s: trampoline flattening abandoned (%v)", path, err)}
	}
	return out, notes
}
