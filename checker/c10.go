package main

// C10 — sent stanzas held until acknowledged, retransmitted in order.

import (
	"fmt"
	"go/token"
	"go/types"
	"sort"
	"strings"

	"golang.org/x/tools/go/ssa"
)

func init() {
	register(&propDef{
		id: "C10", level: "other", run: runC10,
		trusted: []string{"sync.RWMutex semantics", "Sender.SendRaw of the client re-enqueues what it sends (checked by R1)"},
		explain: "Decides which sends are held (R1: every packet type except the two acknowledgement elements is enqueued exactly once before the write when stream management is on; R2: SMRequest and SMAnswer are never enqueued), that a server acknowledgement reaches the queue logic with its h (R3), that on every path with a non-empty queue some discard whose count derives from h happens and none is provably a no-op (R4 — sign-of-difference contradiction rule), that what remains is re-sent in ascending order through SendRaw followed by exactly one ack request (R5), that the queue mutex is released on every exit (R6), held at every mutation (R7, shared with C08.R4) and that the queue lives exactly as long as the stream-management session (R8). Not decided: the sequence-number arithmetic itself — whether exactly the N oldest are discarded for every h and history is a value-level fact.",
	})
}

// packetTypes: module types (T or *T) implementing stanza.Packet.
func packetTypes(w *World) map[string]types.Type {
	it := w.Named("stanza.Packet").Underlying().(*types.Interface)
	out := map[string]types.Type{}
	for _, t := range w.implementers(it) {
		out[w.typeStr(t)] = t
	}
	return out
}

func runC10(w *World, r *Report, tier string) {
	wireRule(w, r, "W1", "<r/> asks for an acknowledgement, <a h=…/> carries it", wireSMRequest, wireSMAnswer)
	r.Rule("R1", "hold before send: with StreamManagementEnable, every packet type other than SMRequest/SMAnswer passes exactly one Push of the serialized stanza before the write in Client.Send; SendRaw pushes its string before the write")
	r.Rule("R2", "acknowledgement elements are not held: for SMRequest and SMAnswer no feasible path of Client.Send reaches Push")
	r.Rule("R3", "Router.route hands SMAnswer.H (converted, no arithmetic) and the client's queue to SendMissingStz")
	r.Rule("R4", "discard: on every path of SendMissingStz with a non-empty queue there is a Pop/PopN whose count depends on lastSent, and no Pop/PopN argument is provably <= 0")
	r.Rule("R5", "retransmission: the popped entries are re-sent by ranging over them in ascending order through SendRaw, followed by exactly one Send(SMRequest{})")
	r.Rule("R6", "pairing: every exit of SendMissingStz releases the queue mutex")
	r.Rule("R7", "lockset: every UnAckQueue mutator call holds the queue mutex; Push and Write in one critical section (shared with C08.R4)")
	r.Rule("R8", "queue lifetime: SMState.UnAckQueue is stored only by EnableStreamManagement with a fresh queue")

	send := w.Func("xmpp.(*Client).Send")
	fSM := w.Field("xmpp.Config.StreamManagementEnable")
	isPush := w.isCallTo("stanza.UnAckQueue.Push")
	isWr := w.isCallTo("xmpp.Client.sendWithWriter", "xmpp.Transport.Write", "io.Writer.Write")
	pkt := send.Params[1]
	// a path consistent with stream management being enabled: it never takes an edge on which the flag is false
	smOn := func(path []ssa.Instruction) bool {
		return !pathAsserts(path, func(c ssa.Value, truth bool) bool { f, _ := loadedField(c); return f == fSM && !truth })
	}
	pts := packetTypes(w)
	var names []string
	for n := range pts {
		names = append(names, n)
	}
	sort.Strings(names)
	r.Tables["sendable_packet_types"] = names
	if len(names) < 15 {
		r.Undecided("R1", "stanza.Packet#implementers", "-", fmt.Sprintf("only %d packet types found", len(names)))
	}
	for _, n := range names {
		T := pts[n]
		isAck := n == "stanza.SMRequest" || n == "stanza.SMAnswer"
		rule := "R1"
		if isAck {
			rule = "R2"
		}
		cons := "xmpp.(*Client).Send#type:" + n
		bad := ""
		np := 0
		err := walkPaths(entryLoc(send), nil, typeEdgeFilter(pkt, T), 20000, func(path []ssa.Instruction, end pathEnd) {
			if !smOn(path) || countOn(path, isWr) == 0 {
				return
			}
			np++
			nPush := countOn(path, isPush)
			if isAck {
				if nPush != 0 {
					bad = fmt.Sprintf("a %s passing through Send is put on the unacknowledged-stanza queue: it is not a stanza, the server does not count it, and it would be retransmitted", n)
				}
				return
			}
			if nPush != 1 {
				bad = fmt.Sprintf("a %s is enqueued %d time(s) before being written", n, nPush)
				return
			}
			if indexOn(path, isPush) > indexOn(path, isWr) {
				bad = "the stanza is written before it is enqueued: if the write is followed by a crash of the connection it is not held"
			}
		})
		if err != nil {
			r.Undecided(rule, cons, w.pos(send.Pos()), err.Error())
			continue
		}
		fact := "one Push before the write"
		if isAck {
			fact = "never pushed"
		}
		r.Check(bad == "" && np > 0, rule, cons, w.pos(send.Pos()), bad, fmt.Sprintf("%d path(s) with stream management on: %s", np, fact))
	}
	r.Floor("R1", 13)
	r.Floor("R2", 2)
	// the concrete types under which the library itself sends acknowledgement elements must be among the never-held ones
	for _, f := range w.LibFuncs() {
		for _, c := range w.callsIn(f, "xmpp.Client.Send", "xmpp.Sender.Send", "xmpp.StreamClient.Send") {
			args := c.Common().Args
			mi, ok := args[len(args)-1].(*ssa.MakeInterface)
			if !ok {
				continue
			}
			T := mi.X.Type()
			base := strings.TrimPrefix(w.typeStr(T), "*")
			if base != "stanza.SMRequest" && base != "stanza.SMAnswer" {
				continue
			}
			cons := fmt.Sprintf("%s→Send(%s)", w.funcKey(f), w.typeStr(T))
			bad := ""
			np := 0
			walkPaths(entryLoc(send), nil, typeEdgeFilter(pkt, T), 20000, func(path []ssa.Instruction, end pathEnd) {
				if !smOn(path) || countOn(path, isWr) == 0 {
					return
				}
				np++
				if countOn(path, isPush) != 0 {
					bad = fmt.Sprintf("the library sends its acknowledgement element as a %s, a form Client.Send does not exempt: the element is put on the unacknowledged-stanza queue, numbered, and retransmitted with the stanzas", w.typeStr(T))
				}
			})
			r.Check(bad == "" && np > 0, "R2", cons, w.ipos(c), bad, "sent in a form that Send never holds")
		}
	}
	// what is pushed: the serialized data
	for _, k := range []string{"xmpp.(*Client).Send", "xmpp.(*Client).SendRaw"} {
		fn := w.Func(k)
		for _, c := range w.callsInH(fn, "stanza.UnAckQueue.Push") {
			arg := c.Common().Args[1]
			if mi, ok := arg.(*ssa.MakeInterface); ok {
				arg = mi.X
			}
			okV := false
			detail := "cannot identify the pushed value"
			// arg is *UnAckedStz (new) storing a complit whose Stz is string(data) / the param
			var stz ssa.Value
			if al, ok := arg.(*ssa.Alloc); ok {
				for _, rf := range *al.Referrers() {
					if st, ok := rf.(*ssa.Store); ok && st.Addr == ssa.Value(al) {
						if fields, _ := complitFields(st.Val); fields != nil {
							stz = fields["Stz"]
						}
					}
				}
				if stz == nil {
					if fields, _ := complitFields(al); fields != nil {
						stz = fields["Stz"]
					}
				}
			}
			if stz != nil {
				// judged on every path of fn that reaches this Push, with helper parameters resolved on that path
				isThis := func(in ssa.Instruction) bool { return in == c.(ssa.Instruction) }
				nP := 0
				okV = true
				walkPaths(entryLoc(fn), isThis, nil, 20000, func(path []ssa.Instruction, end pathEnd) {
					if !isThis(path[len(path)-1]) {
						return
					}
					nP++
					v := rvI(stz, len(path)-1)
					okOne := false
					if cv, ok := v.(*ssa.Convert); ok {
						if ex, ok := rvI(cv.X, len(path)-1).(*ssa.Extract); ok {
							if mc, ok := ex.Tuple.(*ssa.Call); ok && w.callKey(mc) == "encoding/xml.Marshal" && ex.Index == 0 {
								okOne = true
							}
						}
						// SendRaw may convert its string once and hold string(bytes) of it
						if in, ok := rvI(cv.X, len(path)-1).(*ssa.Convert); ok && isParamOf(in.X, fn) {
							okOne = true
						}
					}
					if isParamOf(v, fn) {
						okOne = true
					}
					if !okOne {
						okV = false
						detail = "the held text is not the serialized stanza: " + describe(w, v)
					}
				})
				if nP == 0 {
					okV = false
					detail = "the Push is not reachable from the entry"
				}
			}
			r.Check(okV, "R1", k+"#pushed-value", w.ipos(c), detail, "holds the serialized stanza / the raw string")
		}
	}
	// SendRaw: push before write when SM on
	sr := w.Func("xmpp.(*Client).SendRaw")
	{
		bad := ""
		np := 0
		walkPaths(entryLoc(sr), nil, nil, 5000, func(path []ssa.Instruction, end pathEnd) {
			if !smOn(path) || countOn(path, isWr) == 0 {
				return
			}
			np++
			if countOn(path, isPush) != 1 || indexOn(path, isPush) > indexOn(path, isWr) {
				bad = "SendRaw does not enqueue its stanza exactly once before writing it"
			}
		})
		r.Check(bad == "" && np > 0, "R1", "xmpp.(*Client).SendRaw#hold", w.pos(sr.Pos()), bad, "one Push before the write")
	}

	// ---- R3
	route := w.Func("xmpp.(*Router).route")
	sms := w.callsInH(route, "xmpp.SendMissingStz")
	if len(sms) != 1 {
		r.Undecided("R3", "xmpp.(*Router).route→SendMissingStz", w.pos(route.Pos()), fmt.Sprintf("expected one call, found %d", len(sms)))
	} else {
		args := sms[0].Common().Args
		a0 := args[0]
		if cv, ok := a0.(*ssa.Convert); ok {
			a0 = cv.X
		}
		T, fp := typeAssertSource(a0, route.Params[2])
		okH := T != nil && w.typeStr(T) == "stanza.SMAnswer" && fp == "H"
		okQ := strings.HasSuffix(fieldNames(fieldPath(args[2])), "Session.SMState.UnAckQueue")
		okS := origin(args[1]) == ssa.Value(route.Params[1])
		r.Check(okH && okQ && okS, "R3", "xmpp.(*Router).route→SendMissingStz", w.ipos(sms[0]), fmt.Sprintf("the acknowledgement is not passed on faithfully (h is SMAnswer.H: %v, queue is the client's: %v, sender is the routed sender: %v)", okH, okQ, okS), "SendMissingStz(int(a.H), s, client.Session.SMState.UnAckQueue)")
		// reached exactly when p is SMAnswer and s is *Client
		guard := edgesAsserting(route, func(c ssa.Value, truth bool) bool {
			T, ok := typeAssertOK(c, route.Params[2])
			return ok && truth && w.typeStr(T) == "stanza.SMAnswer"
		})
		r.Check(len(guard) > 0 && !reachable(entryLoc(route), func(in ssa.Instruction) bool { return in == sms[0].(ssa.Instruction) }, nil, guard), "R3", "xmpp.(*Router).route→SendMissingStz#guard", w.ipos(sms[0]), "SendMissingStz is reachable for packets that are not acknowledgement answers", "only under p.(SMAnswer)")
		// every SMAnswer for a *Client reaches it
		saT := pts["stanza.SMAnswer"]
		if saT != nil {
			n, miss := 0, 0
			sArg := route.Params[1]
			clientT := types.NewPointer(w.Named("xmpp.Client"))
			filt := func(b *ssa.BasicBlock, succ int) bool {
				return typeEdgeFilter(route.Params[2], saT)(b, succ) && typeEdgeFilter(sArg, clientT)(b, succ)
			}
			walkPaths(entryLoc(route), nil, filt, 20000, func(path []ssa.Instruction, end pathEnd) {
				n++
				if countOn(path, func(in ssa.Instruction) bool { return in == sms[0].(ssa.Instruction) }) != 1 {
					miss++
				}
			})
			r.Check(n > 0 && miss == 0, "R3", "xmpp.(*Router).route#type:stanza.SMAnswer", w.pos(route.Pos()), "an acknowledgement answer received by a client can bypass the queue logic", fmt.Sprintf("%d path(s), each calls SendMissingStz once", n))
		}
	}

	// ---- R4 / R5 / R6
	smz := w.Func("xmpp.SendMissingStz")
	fMu := w.Field("stanza.UnAckQueue.RWMutex")
	fUslice := w.Field("stanza.UnAckQueue.Uslice")
	li := analyseLocks(w, smz, fMu)
	if len(li.issues) == 0 {
		r.Ok("R6", "xmpp.SendMissingStz#pairing", fmt.Sprintf("%d acquire(s), released on every exit", li.nAcq))
	}
	for i, is := range li.issues {
		r.Fail("R6", fmt.Sprintf("xmpp.SendMissingStz#pairing#%d", i+1), w.pos(smz.Pos()), is+" — the next acknowledgement answer blocks forever in Lock()")
	}
	// the newest held entry (Uslice[len-1]) is read only when the queue is known to be non-empty: an <a/> for an empty
	// queue must not panic
	{
		nIdx := 0
		allInstrsH(smz, func(in ssa.Instruction) {
			ia, ok := in.(*ssa.IndexAddr)
			if !ok || !strings.HasSuffix(w.nf(ia.X, 0), ".Uslice") {
				return
			}
			if isRangeIndex(ia.Parent(), ia.Index) {
				return
			}
			nIdx++
			guard := edgesAsserting(smz, func(c ssa.Value, truth bool) bool {
				cn := w.condNF(c, truth)
				return strings.HasPrefix(cn, "le(builtin.len(") && strings.HasSuffix(cn, ".Uslice),0)=false") || (strings.HasPrefix(cn, "eq(0,builtin.len(") && strings.HasSuffix(cn, ".Uslice))=false"))
			})
			ok2 := len(guard) > 0 && !reachable(entryLoc(smz), func(x ssa.Instruction) bool { return x == in }, nil, guard)
			r.Check(ok2, "R4", fmt.Sprintf("xmpp.SendMissingStz#index-guard#%d", nIdx), w.ipos(in), "the queue is indexed without a test that it is non-empty: an acknowledgement answer that arrives while nothing is held panics in the routing goroutine", "dominated by len(Uslice) > 0")
		})
	}
	lastSent := smz.Params[0]
	pops := w.callsInH(smz, "stanza.UnAckQueue.Pop", "stanza.UnAckQueue.PopN")
	nPop := 0
	var discardPops []ssa.Instruction
	for _, p := range pops {
		nPop++
		args := p.Common().Args
		cons := fmt.Sprintf("xmpp.SendMissingStz→PopN#%d", nPop)
		if len(args) < 2 {
			continue
		}
		dep := dependsOn(args[1], lastSent, 0)
		if dep {
			discardPops = append(discardPops, p.(ssa.Instruction))
		}
		// E11: sign of a difference
		if neg, why := provablyNonPositive(w, smz, p.(ssa.Instruction), args[1]); neg {
			r.Fail("R4", cons+"#sign", w.ipos(p), "the number of entries to discard is provably <= 0 here ("+why+"): PopN returns nothing for n <= 0, so acknowledged stanzas are never discarded and are sent again")
		} else {
			r.Ok("R4", cons+"#sign", "argument not provably non-positive")
		}
	}
	// every path with a non-empty queue passes a discard that depends on lastSent
	{
		nonEmpty := func(path []ssa.Instruction) bool {
			return pathAsserts(path, func(c ssa.Value, truth bool) bool {
				bo, ok := c.(*ssa.BinOp)
				if !ok {
					return false
				}
				lc, isLen := bo.X.(*ssa.Call)
				if !isLen || w.callKey(lc) != "builtin.len" {
					return false
				}
				if f, _ := loadedField(lc.Call.Args[0]); f != fUslice {
					return false
				}
				z, isZ := intConst(bo.Y)
				if !isZ || z != 0 {
					return false
				}
				switch bo.Op {
				case token.LEQ, token.EQL:
					return !truth
				case token.GTR, token.NEQ:
					return truth
				}
				return false
			})
		}
		isDiscard := func(in ssa.Instruction) bool {
			for _, d := range discardPops {
				if d == in {
					return true
				}
			}
			return false
		}
		missing := ""
		n := 0
		loops := findRangeLoops(smz)
		stopAtLoop := func(in ssa.Instruction) bool {
			for _, l := range loops {
				if in == l.header.Instrs[0] {
					return true
				}
			}
			return false
		}
		walkPaths(entryLoc(smz), stopAtLoop, nil, 20000, func(path []ssa.Instruction, end pathEnd) {
			if !nonEmpty(path) {
				return
			}
			n++
			if countOn(path, isDiscard) == 0 {
				missing = "with a non-empty queue the path ending at " + w.ipos(path[len(path)-1]) + " discards nothing, whatever h says: fully acknowledged stanzas stay held for ever"
			}
		})
		r.Check(missing == "" && n > 0, "R4", "xmpp.SendMissingStz#discard-on-every-path", w.pos(smz.Pos()), missing, fmt.Sprintf("%d non-empty path(s), each passes a Pop/PopN depending on lastSent", n))
	}

	// R5
	{
		var loops []rangeLoop
		for _, hf := range withHelpers(smz) { // the body under the lock may be a helper of its own
			loops = append(loops, findRangeLoops(hf)...)
		}
		if len(loops) != 1 {
			r.Undecided("R5", "xmpp.SendMissingStz#resend-loop", w.pos(smz.Pos()), fmt.Sprintf("expected one range loop, found %d", len(loops)))
		} else {
			lp := loops[0]
			// ranged slice is the result of PopN
			okSrc := false
			if c, ok := lp.slice.(*ssa.Call); ok && w.callKey(c) == "stanza.UnAckQueue.PopN" {
				okSrc = true
			}
			r.Check(okSrc, "R5", "xmpp.SendMissingStz#resend-source", w.pos(smz.Pos()), "the loop does not range over what PopN removed from the queue", "ranges over the popped entries (ascending index)")
			bad := ""
			nIter := 0
			isHeader := func(in ssa.Instruction) bool { return in == lp.header.Instrs[0] }
			isSendRaw := w.isCallTo("xmpp.Sender.SendRaw")
			isSend := w.isCallTo("xmpp.Sender.Send", "xmpp.Sender.SendIQ")
			walkPaths(Loc{lp.body, 0}, isHeader, nil, 5000, func(path []ssa.Instruction, end pathEnd) {
				// the error of this iteration's SendRaw decides: nil ⇒ next entry, non-nil ⇒ stop
				var sr *ssa.Call
				for _, in := range path {
					if isSendRaw(in) {
						sr, _ = in.(*ssa.Call)
					}
				}
				if !isHeader(path[len(path)-1]) {
					// leaves the loop: only because this entry could not be re-sent
					if sr != nil && !pathAsserts(path, func(c ssa.Value, truth bool) bool { return assertsNonNil(c, truth, sr) }) {
						bad = "the retransmission stops after an entry that was re-sent successfully: the entries behind it are lost (they have already been taken off the queue)"
					}
					return
				}
				if sr != nil && !pathAsserts(path, func(c ssa.Value, truth bool) bool { return assertsNil(c, truth, sr) }) {
					bad = "the retransmission goes on although re-sending an entry failed"
				}
				nIter++
				if countOn(path, isSendRaw) != 1 {
					bad = fmt.Sprintf("an iteration re-sends %d time(s) through SendRaw", countOn(path, isSendRaw))
				}
				if countOn(path, isSend) != 0 {
					bad = "an entry is re-sent through Send: it would be marshalled again instead of being sent verbatim"
				}
				for _, in := range path {
					if isSendRaw(in) {
						a := asCall(in).Common().Args[0]
						// a is load of field Stz of the ranged element
						fp := fieldPath(a)
						if len(fp) == 0 || fp[len(fp)-1].Name() != "Stz" {
							bad = "what is re-sent is not the held text of the entry"
						}
					}
				}
			})
			r.Check(bad == "" && nIter > 0, "R5", "xmpp.SendMissingStz#resend-iteration", w.pos(smz.Pos()), bad, "one SendRaw(entry.Stz) per entry")
			// after the loop exactly one Send(SMRequest{})
			nReq, badR := 0, ""
			walkPaths(Loc{lp.done, 0}, nil, nil, 5000, func(path []ssa.Instruction, end pathEnd) {
				k := 0
				for _, in := range path {
					if w.isCallTo("xmpp.Sender.Send")(in) {
						a := asCall(in).Common().Args[0]
						if mi, ok := a.(*ssa.MakeInterface); ok && w.typeStr(mi.X.Type()) == "stanza.SMRequest" {
							k++
						}
					}
				}
				// a path that reports a failed retransmission does not ask for a new acknowledgement
				if ret, ok := path[len(path)-1].(*ssa.Return); ok && len(ret.Results) == 1 {
					res := rres(path, ret)[0]
					if !isNilConst(res) && pathAsserts(path, func(c ssa.Value, truth bool) bool { return assertsNonNil(c, truth, res) }) {
						return
					}
				}
				nReq++
				if k != 1 {
					badR = fmt.Sprintf("after the retransmission %d acknowledgement request(s) are sent, exactly one expected", k)
				}
			})
			r.Check(badR == "" && nReq > 0, "R5", "xmpp.SendMissingStz#ack-request", w.pos(smz.Pos()), badR, "exactly one Send(SMRequest{}) after the loop")
		}
	}

	// ---- R7
	c08Bookkeeping(w, r, "R7")

	// ---- R8
	fQ := w.Field("xmpp.SMState.UnAckQueue")
	n8 := 0
	// inESM: the function is EnableStreamManagement, a literal of it, or a helper all of whose callers are
	const esmKey = "xmpp.(*Session).EnableStreamManagement"
	var inESM func(fn *ssa.Function, depth int) bool
	inESM = func(fn *ssa.Function, depth int) bool {
		if w.ownerKey(fn) == esmKey {
			return true
		}
		sites := w.callSitesOf(w.ownerFn(fn))
		if depth > 2 || len(sites) == 0 {
			return false
		}
		for _, c := range sites {
			if !inESM(c.Parent(), depth+1) {
				return false
			}
		}
		return true
	}
	freshQueue := func(v ssa.Value) bool {
		for _, o := range originsAll(v) {
			if !w.isResultOf(origin(o), 0, "stanza.NewUnAckQueue") {
				return false
			}
		}
		return true
	}
	// stateSetter: a helper that assigns the state field by field from its parameters; per call site, either a fresh queue
	// handed down from EnableStreamManagement, or no queue together with an empty session id (the state is being dropped)
	fIDq := w.Field("xmpp.SMState.Id")
	stateSetter := func(st *ssa.Store) bool {
		h := st.Parent()
		qp, ok := st.Val.(*ssa.Parameter)
		if !ok || !isHelper(h) {
			return false
		}
		idx := func(p *ssa.Parameter) int {
			for i, q := range h.Params {
				if q == p {
					return i
				}
			}
			return -1
		}
		idIdx := -1
		allInstrs(h, func(in ssa.Instruction) {
			if s2, ok := in.(*ssa.Store); ok {
				if fa, ok := s2.Addr.(*ssa.FieldAddr); ok && fieldOfAddr(fa) == fIDq {
					if p, ok := s2.Val.(*ssa.Parameter); ok {
						idIdx = idx(p)
					}
				}
			}
		})
		qIdx := idx(qp)
		sites := w.callSitesOf(h)
		if qIdx < 0 || idIdx < 0 || len(sites) == 0 {
			return false
		}
		for _, c := range sites {
			a := c.Call.Args
			if qIdx >= len(a) || idIdx >= len(a) {
				return false
			}
			switch {
			case isNilConst(a[qIdx]):
				if s, isS := stringConst(a[idIdx]); !isS || s != "" {
					return false
				}
			case inESM(c.Parent(), 0) && w.isResultOf(origin(a[qIdx]), 0, "stanza.NewUnAckQueue"):
			default:
				return false
			}
		}
		return true
	}
	for _, a := range w.fieldAccesses(fQ, w.LibFuncs()) {
		if a.Kind != "store" {
			continue
		}
		if isFreshAllocAddr(a.Addr) {
			continue
		}
		n8++
		cons := fmt.Sprintf("%s#store:UnAckQueue#%d", w.funcKey(a.Fn), n8)
		okV := inESM(a.Fn, 0) && freshQueue(a.Val)
		if st, isSt := a.Instr.(*ssa.Store); isSt && !okV && stateSetter(st) {
			okV = true
		}
		r.Check(okV, "R8", cons, w.ipos(a.Instr), "the queue of held stanzas is replaced outside EnableStreamManagement or by something other than a fresh queue", "fresh NewUnAckQueue() in EnableStreamManagement")
	}
	// the queue can also be put in place as part of a whole new SM state
	fSessSM := w.Field("xmpp.Session.SMState")
	for _, a := range w.fieldAccesses(fSessSM, w.LibFuncs()) {
		if a.Kind != "store" {
			continue
		}
		fields, al := complitFields(a.Val)
		if al == nil {
			continue
		}
		qv, has := fields["UnAckQueue"]
		if !has {
			// a state that goes on (it keeps or sets a session id) but comes without the queue: whatever was held is gone,
			// and from now on Push has nothing to push onto
			// (EnableStreamManagement, which may install the queue by a second statement, is judged per path below)
			if idv, keeps := fields["Id"]; keeps && !isZeroValue(idv) && !inESM(a.Fn, 0) {
				n8++
				r.Fail("R8", fmt.Sprintf("%s#store:SMState-without-queue#%d", w.ownerKey(a.Fn), n8), w.ipos(a.Instr), "the stream-management state is replaced by one that keeps a session id but has no queue of unacknowledged stanzas: what was held is dropped and nothing sent afterwards is held")
			}
			continue
		}
		n8++
		cons := fmt.Sprintf("%s#store:UnAckQueue#%d", w.ownerKey(a.Fn), n8)
		okV := inESM(a.Fn, 0) && freshQueue(qv)
		r.Check(okV, "R8", cons, w.ipos(a.Instr), "the queue of held stanzas is replaced outside EnableStreamManagement or by something other than a fresh queue", "fresh NewUnAckQueue() in EnableStreamManagement")
	}
	r.Floor("R8", 1)
	// … and it is there once the server has said <enabled/>: without a queue Push is a no-op and nothing is held
	{
		esm := w.Func("xmpp.(*Session).EnableStreamManagement")
		bad := ""
		n := 0
		err := walkPaths(entryLoc(esm), nil, nil, 50000, func(path []ssa.Instruction, end pathEnd) {
			if _, isRet := path[len(path)-1].(*ssa.Return); !isRet {
				return
			}
			enabled := pathAsserts(path, func(c ssa.Value, truth bool) bool {
				T, ok := typeAssertOK(c, nil)
				return ok && truth && w.typeStr(T) == "stanza.SMEnabled"
			})
			if !enabled {
				return
			}
			n++
			has := false
			forPath(path, func(i int, in ssa.Instruction) {
				st, ok := in.(*ssa.Store)
				if !ok {
					return
				}
				fa, ok := st.Addr.(*ssa.FieldAddr)
				if !ok {
					return
				}
				switch fieldOfAddr(fa) {
				case fSessSM:
					has = false
					if fields, al := complitFields(st.Val); al != nil {
						if qv, ok := fields["UnAckQueue"]; ok && w.isResultOf(origin(resolveOn(qv, i, path)), 0, "stanza.NewUnAckQueue") {
							has = true
						}
					}
				case fQ:
					has = w.isResultOf(origin(resolveOn(st.Val, i, path)), 0, "stanza.NewUnAckQueue")
				}
			})
			if !has {
				bad = "after <enabled/> the session has no queue of unacknowledged stanzas (return at " + w.ipos(path[len(path)-1]) + "): Push on the missing queue does nothing, so nothing sent is held for retransmission"
			}
		})
		if err != nil {
			r.Undecided("R8", "xmpp.(*Session).EnableStreamManagement#queue-installed", w.pos(esm.Pos()), err.Error())
		} else {
			r.Check(bad == "" && n > 0, "R8", "xmpp.(*Session).EnableStreamManagement#queue-installed", w.pos(esm.Pos()), bad, fmt.Sprintf("%d <enabled/> path(s), each leaves a fresh queue in SMState", n))
		}
	}
}

// dependsOn: does v data-depend on root (through arithmetic, conversions, phis)?
func dependsOn(v, root ssa.Value, depth int) bool {
	if v == root {
		return true
	}
	if depth > 10 {
		return false
	}
	switch x := v.(type) {
	case *ssa.BinOp:
		return dependsOn(x.X, root, depth+1) || dependsOn(x.Y, root, depth+1)
	case *ssa.UnOp:
		return dependsOn(x.X, root, depth+1)
	case *ssa.Convert:
		return dependsOn(x.X, root, depth+1)
	case *ssa.ChangeType:
		return dependsOn(x.X, root, depth+1)
	case *ssa.Phi:
		for _, e := range x.Edges {
			if dependsOn(e, root, depth+1) {
				return true
			}
		}
	case *ssa.Call:
		for _, a := range x.Call.Args {
			if dependsOn(a, root, depth+1) {
				return true
			}
		}
	}
	return false
}

// provablyNonPositive — E11: v is `a - b` and every path to `at` crosses an edge
// asserting b > a (or a < b, or their negated duals); or v is a constant <= 0.
func provablyNonPositive(w *World, fn *ssa.Function, at ssa.Instruction, v ssa.Value) (bool, string) {
	if k, ok := intConst(v); ok {
		return k <= 0, fmt.Sprintf("constant %d", k)
	}
	bo, ok := v.(*ssa.BinOp)
	if !ok || bo.Op != token.SUB {
		return false, ""
	}
	a, b := bo.X, bo.Y
	edges := edgesAsserting(fn, func(c ssa.Value, truth bool) bool {
		cmp, ok := c.(*ssa.BinOp)
		if !ok {
			return false
		}
		type rel struct{ x, y ssa.Value } // asserts x > y or x >= y
		var holds *rel
		switch cmp.Op {
		case token.GTR, token.GEQ:
			if truth {
				holds = &rel{cmp.X, cmp.Y}
			} else {
				holds = &rel{cmp.Y, cmp.X} // !(x > y)  =>  y >= x
			}
		case token.LSS, token.LEQ:
			if truth {
				holds = &rel{cmp.Y, cmp.X}
			} else {
				holds = &rel{cmp.X, cmp.Y}
			}
		default:
			return false
		}
		// need b >= a
		return sameValue(holds.x, b) && sameValue(holds.y, a)
	})
	if len(edges) == 0 {
		return false, ""
	}
	if !reachable(entryLoc(fn), func(in ssa.Instruction) bool { return in == at }, nil, edges) {
		return true, "the call is only reachable through a branch asserting that the subtrahend is at least the minuend"
	}
	return false, ""
}
