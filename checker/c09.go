package main

// C09 — the reported inbound count equals the number of stanzas received.

import (
	"fmt"
	"strings"

	"golang.org/x/tools/go/ssa"
)

func init() {
	register(&propDef{
		id: "C09", level: "proof", run: runC09,
		trusted: []string{"encoding/xml marshals a uint / *uint attribute as its decimal value"},
		explain: "Whole statement, as facts over every path: (O1) in Client.recv, for each dynamic packet type that NextPacket can return, every feasible path through one loop iteration increments SMState.Inbound exactly once if the type is a stanza (Message, Presence, *IQ — the result types of decodeClient) and never otherwise; (O2) nothing else writes the counter except whole-state resets that start a fresh session, none of which can precede a successful resumption; (O3) the h of <a/> is a plain load of the counter and the h of <resume/> its address — no arithmetic; (O4) the answer is sent synchronously by the receive goroutine, and recv is started only right after a session was established.",
		assume:  []string{"one receive goroutine per session (checked: recv is started only by Connect/Resume after connect() succeeded)", "every stanza is delivered by NextPacket exactly once (C02/C05)"},
	})
}

func runC09(w *World, r *Report, tier string) {
	wireRule(w, r, "W1", "<a h=…/> reports the count; <resume h=…/> repeats it", wireSMAnswer, wireSMResume)
	r.Rule("O1", "counted types: per dynamic type of the received packet, every feasible path of one recv iteration has exactly one `Inbound = Inbound + 1` for Message/Presence/*IQ and none for any other type")
	r.Rule("O2", "writers: SMState.Inbound is stored only by recv's increment; whole-SMState stores into the session are zero/fresh states, and none of them lies on a path to a successful resumption")
	r.Rule("O3", "reported values: SMAnswer.H is a plain load of Session.SMState.Inbound; SMResume.H is the address of that field")
	r.Rule("O4", "the <a/> is sent by a synchronous call in the receive goroutine; recv is started only after connect() succeeded")

	fn := w.Func("xmpp.(*Client).recv")
	r.Anchor("xmpp.(*Client).recv")
	fInbound := w.Field("xmpp.SMState.Inbound")
	fSessSM := w.Field("xmpp.Session.SMState")
	rl, err := analyseRecvLoop(w, fn)
	if err != nil {
		r.Undecided("O1", "xmpp.(*Client).recv#loop", w.pos(fn.Pos()), err.Error())
		return
	}
	for _, u := range rl.unknown {
		r.Undecided("O1", "stanza.NextPacket#universe", "-", "cannot follow a returned value: "+u)
	}
	r.Tables["universe"] = rl.typeNames(rl.universe)
	r.Tables["stanza_types"] = rl.typeNames(rl.stanzas)
	if len(rl.universe) < 15 {
		r.Undecided("O1", "stanza.NextPacket#universe", "-", fmt.Sprintf("only %d packet types found, 15 confirmed by hand", len(rl.universe)))
	}
	if len(rl.stanzas) != 3 {
		r.Undecided("O1", "stanza.decodeClient#stanza-types", "-", fmt.Sprintf("expected the three stanza kinds, found %v", rl.typeNames(rl.stanzas)))
	}
	for _, name := range rl.typeNames(rl.universe) {
		T := rl.universe[name]
		_, isStanza := rl.stanzas[name]
		want := 0
		if isStanza {
			want = 1
		}
		cons := "xmpp.(*Client).recv#type:" + name
		bad := ""
		npaths := 0
		e := rl.pathsFor(T, func(path []ssa.Instruction, end pathEnd) {
			npaths++
			n := countOn(path, func(in ssa.Instruction) bool { return isIncrementOf(in, fInbound) })
			other := countOn(path, func(in ssa.Instruction) bool { return isStoreTo(in, fInbound) && !isIncrementOf(in, fInbound) })
			if end == endCycle {
				bad = "an inner loop in the iteration body: cannot count"
			}
			if n != want || other != 0 {
				last := path[len(path)-1]
				bad = fmt.Sprintf("a path for %s ending at %s increments the counter %d time(s) (+%d other stores), expected %d", name, w.ipos(last), n, other, want)
			}
		})
		if e != nil {
			r.Undecided("O1", cons, w.pos(fn.Pos()), e.Error())
			continue
		}
		if bad != "" {
			r.Fail("O1", cons, w.pos(fn.Pos()), bad)
		} else {
			r.Ok("O1", cons, fmt.Sprintf("%d feasible path(s), %d increment(s) on each", npaths, want))
		}
	}
	r.Floor("O1", 15)

	// O2 writers
	lib := w.LibFuncs()
	// onResumedPath: the instruction lies on a path of Session.resume (helpers walked through) that reports a successful resumption
	onResumedPath := func(at ssa.Instruction) bool {
		rs := w.Func("xmpp.(*Session).resume")
		toTrue := false
		if err := walkPaths(entryLoc(rs), nil, nil, 100000, func(path []ssa.Instruction, end pathEnd) {
			ret, ok := path[len(path)-1].(*ssa.Return)
			if !ok || ret.Parent() != rs || len(ret.Results) != 1 {
				return
			}
			if countOn(path, func(in ssa.Instruction) bool { return in == at }) == 0 {
				return
			}
			if b, isC := boolConst(rres(path, ret)[0]); !isC || b {
				toTrue = true
			}
		}); err != nil {
			toTrue = true
		}
		return toTrue
	}
	for _, a := range w.fieldAccesses(fInbound, lib) {
		switch a.Kind {
		case "store":
			cons := w.funcKey(a.Fn) + "#store:Inbound"
			if st, isSt := a.Instr.(*ssa.Store); isSt && !isIncrementOf(a.Instr, fInbound) {
				if k, isK := intConst(st.Val); isK && k == 0 {
					// a reset to zero is what replacing the whole state does; it must not happen where a resumption succeeded
					r.Check(!onResumedPath(a.Instr), "O2", cons, w.ipos(a.Instr), "the inbound counter is reset on a path that reports a successful resumption", "reset to zero, never on a path that reports a successful resumption")
					continue
				}
			}
			r.Check(w.ownerFn(a.Fn) == fn && isIncrementOf(a.Instr, fInbound), "O2", cons, w.ipos(a.Instr), "the inbound counter is written outside the receive loop's increment", "increment in recv")
		case "addr":
			// &s.SMState.Inbound — only as SMResume.H
			cons := w.funcKey(a.Fn) + "#addr:Inbound"
			okA := false
			if st, ok := a.Instr.(*ssa.Store); ok {
				if fa, ok := st.Addr.(*ssa.FieldAddr); ok {
					if f := fieldOfAddr(fa); f != nil && f.Name() == "H" && isFreshAllocAddr(fa.X) && strings.HasSuffix(w.typeStr(fa.X.Type()), "stanza.SMResume") {
						okA = true
					}
				}
			}
			r.Check(okA, "O2", cons, w.ipos(a.Instr), "the address of the inbound counter escapes (other than as the h of <resume/>)", "address used only as SMResume.H")
		}
	}
	nWhole := 0
	for _, a := range w.fieldAccesses(fSessSM, lib) {
		if a.Kind != "store" {
			if a.Kind == "addr" {
				r.Undecided("O2", w.funcKey(a.Fn)+"#addr:Session.SMState", w.ipos(a.Instr), "address of the session's SM state escapes")
			}
			continue
		}
		nWhole++
		cons := fmt.Sprintf("%s#store:Session.SMState#%d", w.ownerKey(a.Fn), nWhole)
		// every value the store can receive (a helper or function literal with several callers: each caller's argument)
		verdict, detail := "ok", ""
		for _, v := range originsAll(a.Val) {
			fields, al := complitFields(v)
			switch {
			case isZeroValue(v):
				detail = "zero state"
			case al != nil:
				if iv, setsInbound := fields["Inbound"]; setsInbound {
					if k, isK := intConst(iv); !isK || k != 0 {
						verdict = "bad"
					}
				}
				detail = "fresh state literal without Inbound"
			case w.ownerKey(a.Fn) == "xmpp.NewSession" && isParamOf(v, w.ownerFn(a.Fn)):
				// initial state handed to a brand-new Session (c.Session == nil)
				detail = "initial state of a new Session object"
			default:
				if verdict == "ok" {
					verdict = "unknown"
				}
			}
		}
		switch verdict {
		case "ok":
			r.Ok("O2", cons, detail)
		case "bad":
			r.Fail("O2", cons, w.ipos(a.Instr), "a new SM state is created with a preset inbound count")
		default:
			r.Undecided("O2", cons, w.ipos(a.Instr), "session SM state overwritten with a value the engine cannot classify")
		}
		// no whole-state store may precede a successful resumption in Session.resume
		if w.ownerKey(a.Fn) == "xmpp.(*Session).resume" {
			toTrue := false
			if err := walkPaths(entryLoc(w.ownerFn(a.Fn)), nil, nil, 100000, func(path []ssa.Instruction, end pathEnd) {
				ret, ok := path[len(path)-1].(*ssa.Return)
				if !ok || len(ret.Results) != 1 {
					return
				}
				if countOn(path, func(in ssa.Instruction) bool { return in == a.Instr }) == 0 {
					return
				}
				if b, isC := boolConst(rres(path, ret)[0]); !isC || b {
					toTrue = true
				}
			}); err != nil {
				toTrue = true
			}
			r.Check(!toTrue, "O2", cons+"#not-on-resumed-path", w.ipos(a.Instr), "the SM state (and with it the inbound count) is reset on a path that reports a successful resumption", "unreachable from here: return true")
		}
	}
	r.Floor("O2", 5)
	// a fresh stream-managed session starts at zero: every path of EnableStreamManagement through the
	// ok-edge of the SMEnabled assertion zeroes the counter (whole-state store without Inbound, or Inbound = 0)
	{
		en := w.Func("xmpp.(*Session).EnableStreamManagement")
		isZeroing := func(in ssa.Instruction) bool {
			st, ok := in.(*ssa.Store)
			if !ok {
				return false
			}
			fa, ok := st.Addr.(*ssa.FieldAddr)
			if !ok {
				return false
			}
			switch fieldOfAddr(fa) {
			case fSessSM:
				val := rvCur(st.Val) // the literal this path hands to a walked-through helper or function literal
				if isZeroValue(val) {
					return true
				}
				fields, al := complitFields(val)
				_, sets := fields["Inbound"]
				return al != nil && !sets
			case fInbound:
				k, isK := intConst(st.Val)
				return isK && k == 0
			}
			return false
		}
		nEn, bad := 0, ""
		walkPaths(entryLoc(en), nil, nil, 20000, func(path []ssa.Instruction, end pathEnd) {
			isEnabled := pathAsserts(path, func(c ssa.Value, truth bool) bool {
				T, ok := typeAssertOK(c, nil)
				return ok && truth && w.typeStr(T) == "stanza.SMEnabled"
			})
			if !isEnabled {
				return
			}
			nEn++
			if countOn(path, isZeroing) == 0 {
				bad = "when the server answers <enabled/> the inbound counter is not reset: a session on which stream management is newly enabled (reused Session object after a reconnect) starts with the count of the previous connection, and every h it reports is too large by that amount"
			}
		})
		r.Check(bad == "" && nEn > 0, "O2", "xmpp.(*Session).EnableStreamManagement#fresh-session-starts-at-zero", w.pos(en.Pos()), bad, fmt.Sprintf("%d <enabled/> path(s), each zeroes the counter", nEn))
	}

	// O3 reported values
	for _, f := range lib {
		for _, c := range w.callsIn(f, "xmpp.Client.Send", "xmpp.Sender.Send", "xmpp.Component.Send", "xmpp.StreamClient.Send", "encoding/xml.Marshal", "encoding/xml.MarshalIndent", "encoding/xml.Encoder.Encode") {
			for _, arg := range c.Common().Args {
				mi, ok := arg.(*ssa.MakeInterface)
				if !ok {
					continue
				}
				ts := strings.TrimPrefix(w.typeStr(mi.X.Type()), "*")
				if ts != "stanza.SMAnswer" && ts != "stanza.SMResume" {
					continue
				}
				cons := fmt.Sprintf("%s→%s(%s).H", w.funcKey(f), w.callKey(c), strings.TrimPrefix(ts, "stanza."))
				fields, al := complitFields(mi.X)
				if al == nil {
					r.Undecided("O3", cons, w.ipos(c), "the element sent is not a local literal: cannot read its h")
					continue
				}
				h, has := fields["H"]
				if ts == "stanza.SMAnswer" {
					// (built in a helper that receives the count: the argument of every caller)
					names, isLoad := "", has
					if has {
						for _, hv := range originsAll(h) {
							names = fieldNames(fieldPath(hv))
							if _, ld := hv.(*ssa.UnOp); !ld || !strings.HasSuffix(names, "SMState.Inbound") {
								isLoad = false
							}
						}
					}
					r.Check(has && isLoad && strings.HasSuffix(names, "SMState.Inbound"), "O3", cons, w.ipos(c), "the h of the acknowledgement answer is not a plain load of the session's inbound counter: "+describeOpt(w, h), "H = load "+names)
				} else {
					if !has {
						r.Fail("O3", cons, w.ipos(c), "<resume/> is built without h")
						continue
					}
					r.Check(addrOfFieldOrCopy(h, fInbound), "O3", cons, w.ipos(c), "the h of <resume/> is not the session's inbound counter", "H = &SMState.Inbound")
				}
			}
		}
	}
	r.Floor("O3", 2)

	// O4 synchronous answer; recv start sites
	for _, name := range []string{"stanza.SMRequest"} {
		T := rl.universe[name]
		if T == nil {
			r.Undecided("O4", "xmpp.(*Client).recv#type:"+name, "-", "SMRequest is not in the packet universe")
			continue
		}
		bad := ""
		rl.pathsFor(T, func(path []ssa.Instruction, end pathEnd) {
			last := path[len(path)-1]
			if !rl.isNextPacket(last) {
				return // error exit: judged by C12
			}
			nSync, nAsync := 0, 0
			for _, in := range path {
				if c := asCall(in); c != nil && w.callKey(c) == "xmpp.Client.Send" {
					if _, isCall := in.(*ssa.Call); isCall {
						nSync++
					} else {
						nAsync++
					}
				}
			}
			if nSync != 1 || nAsync != 0 {
				bad = fmt.Sprintf("on a path that continues the loop the answer is sent %d time(s) synchronously and %d time(s) asynchronously", nSync, nAsync)
			}
		})
		r.Check(bad == "", "O4", "xmpp.(*Client).recv#type:"+name+"#answer", w.pos(fn.Pos()), bad, "exactly one synchronous Send per <r/> before the next read")
	}
	nStart := 0
	for _, f := range lib {
		for _, c := range w.callsIn(f, "xmpp.Client.recv") {
			nStart++
			cons := fmt.Sprintf("%s→go recv", w.ownerKey(f))
			_, isGo := c.(*ssa.Go)
			// dominated by the err==nil edge of connect(), in every function on whose behalf the start site runs
			okDom, okOwner := true, true
			for _, o := range w.owners(f) {
				cut := edgesAsserting(o, func(cv ssa.Value, truth bool) bool {
					x, eq, ok := nilCompare(cv)
					return ok && eq == truth && w.isResultOf(x, 0, "xmpp.Client.connect")
				})
				if len(cut) == 0 || reachable(entryLoc(o), func(in ssa.Instruction) bool { return in == c.(ssa.Instruction) }, nil, cut) {
					okDom = false
				}
				if o.Name() != "Connect" && o.Name() != "Resume" {
					okOwner = false
				}
			}
			r.Check(isGo && okDom && okOwner, "O4", cons, w.ipos(c), "a receive loop is started somewhere other than right after a successful connect()", "started only on connect()==nil")
		}
	}
	if nStart == 0 {
		r.Undecided("O4", "go recv", "-", "no start site of the receive loop found")
	}
}

func describeOpt(w *World, v ssa.Value) string {
	if v == nil {
		return "(absent)"
	}
	return describe(w, v)
}
