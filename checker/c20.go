package main

// C20 — address normalisation yields a dialable host:port and picks the right transport.

import (
	"fmt"
	"sort"
	"strings"

	"golang.org/x/tools/go/ssa"
)

func init() {
	register(&propDef{
		id: "C20", level: "other", run: runC20,
		trusted: []string{"strings.HasPrefix/LastIndex/Count, strconv.Itoa as documented", "net.DialTimeout dials the address it is given"},
		explain: "Decides that the address dialled is ensurePort(config.Address, 5222) in both constructors and nothing else stores it (R1); that every return of ensurePort is the given address verbatim, or with \":\"+Itoa(port) appended, or bracketed with \"]:\"+Itoa(port) appended — host and explicit port are kept intact on every path and a port is only ever appended (R2); that both constructors test the same two scheme prefixes, the client returning a WebsocketTransport and the component an error wrapping ErrTransportProtocolNotSupported (R3); and that the branching of ensurePort is exactly the decision table argued correct in DESIGN.md (R4: bracketed ⇒ append iff no colon after the last ']'; otherwise by colon count 0 ⇒ append, 1 ⇒ verbatim, more ⇒ bracket and append). Not decided mechanically: that this table is right for every literal shape — argued on paper, pinned by R4; any other decision procedure is reported as undecided, not as holding.",
	})
}

func runC20(w *World, r *Report, tier string) {
	r.Rule("R1", "pass-through: in NewClientTransport and NewComponentTransport the XMPPTransport's Config.Address is ensurePort(config.Address, 5222); XMPPTransport.Connect dials Config.Address; no other library store to it")
	r.Rule("R2", "result forms: every return of ensurePort is [addr], [addr, \":\", Itoa(port)] or [\"[\", addr, \"]:\", Itoa(port)]")
	r.Rule("R3", "scheme table: both constructors test HasPrefix(config.Address, \"ws:\") || HasPrefix(config.Address, \"wss:\"); the client returns a *WebsocketTransport there, the component an error wrapping ErrTransportProtocolNotSupported")
	r.Rule("R4", "decision table: ensurePort's (conditions → result form) rows are exactly the documented table")

	ep := w.Func("xmpp.ensurePort")
	r.Anchor("xmpp.ensurePort")
	addr, port := ep.Params[0], ep.Params[1]
	type row struct {
		conds []string
		form  string
	}
	var rows []row
	badForm := ""
	err := walkPaths(entryLoc(ep), nil, nil, 5000, func(path []ssa.Instruction, end pathEnd) {
		ret, ok := path[len(path)-1].(*ssa.Return)
		if !ok || end == endCycle {
			badForm = "ensurePort has a loop or panics"
			return
		}
		resolved := rvI(ret.Results[0], len(path)-1)
		if rv := resolveOn(rres(path, ret)[0], len(path)-1, path); rv != nil {
			resolved = rv // (a named result: what it holds on this path)
		}
		var parts []string
		isPort := func(v ssa.Value) bool {
			v = rvAny(v)
			if cv, ok := v.(*ssa.Convert); ok {
				v = rvAny(cv.X)
			}
			return v == ssa.Value(port)
		}
		itoaPort := func(v ssa.Value) bool {
			c, ok := rvAny(v).(*ssa.Call)
			return ok && w.callKey(c) == "strconv.Itoa" && isPort(c.Call.Args[0])
		}
		var atomsOf func(v ssa.Value, depth int) []atom
		atomsOf = func(v ssa.Value, depth int) []atom {
			var out []atom
			for _, a := range strAtoms(v) {
				if a.IsC || depth > 4 {
					out = append(out, a)
					continue
				}
				rvv := rvAny(a.Val)
				if c, ok := rvv.(*ssa.Call); ok && w.callKey(c) == "net.JoinHostPort" {
					// JoinHostPort(h, p) is "[" + h + "]:" + p when h contains a colon (checked against the row's conditions below)
					// bracketed only when the host contains a colon: kept symbolic, decided per case of the table
					out = append(out, atom{Const: "\x00JOIN(", IsC: true})
					out = append(out, atomsOf(c.Call.Args[0], depth+1)...)
					out = append(out, atom{Const: "\x00,", IsC: true})
					out = append(out, atomsOf(c.Call.Args[1], depth+1)...)
					out = append(out, atom{Const: "\x00)", IsC: true})
					parts = append(parts, "")
					continue
				}
				if rvv != a.Val {
					out = append(out, atomsOf(rvv, depth+1)...)
					continue
				}
				out = append(out, a)
			}
			return out
		}
		usedJoin := false
		preLen := len(parts)
		as := mergeConstAtoms(atomsOf(resolved, 0))
		if len(parts) > preLen {
			usedJoin = true
		}
		parts = parts[:0]
		for _, a := range as {
			switch {
			case a.IsC:
				parts = append(parts, fmt.Sprintf("%q", a.Const))
			case rvAny(a.Val) == ssa.Value(addr):
				parts = append(parts, "addr")
			case itoaPort(a.Val) || (a.Dec && isPort(a.Val)):
				parts = append(parts, "Itoa(port)")
			default:
				parts = append(parts, "?"+w.nfOn(a.Val, path))
			}
		}
		form := strings.Join(parts, "+")
		if usedJoin && form == `"\x00JOIN("+addr+"\x00,"+Itoa(port)+"\x00)"` {
			form = "JoinHostPort(addr,Itoa(port))"
		}
		switch form {
		case "addr", `addr+":"+Itoa(port)`, `"["+addr+"]:"+Itoa(port)`, "JoinHostPort(addr,Itoa(port))":
		default:
			badForm = "a return of ensurePort has the form " + form + ": the given host/port is not kept intact or something other than a port is added (return at " + w.ipos(ret) + ")"
		}
		conds := w.pathConds(path)
		rows = append(rows, row{conds, form})
	})
	if err != nil {
		r.Undecided("R2", "xmpp.ensurePort#returns", w.pos(ep.Pos()), err.Error())
	} else {
		r.Check(badForm == "" && len(rows) > 0, "R2", "xmpp.ensurePort#returns", w.pos(ep.Pos()), badForm, fmt.Sprintf("%d return path(s), each verbatim / port appended / bracketed+port", len(rows)))
	}
	// R4 decision table, judged case by case: the five cases of the documented table are
	//   [ prefix, no port after the bracket → addr:port ; [ prefix, port present → addr ;
	//   no [ prefix: no colon → addr:port ; one colon → addr ; two or more → [addr]:port.
	// Each return path's conditions select the cases it can serve; in each of them its result must be the required one.
	{
		a := "param:" + addr.Name()
		hpS := fmt.Sprintf(`strings.HasPrefix(%s,"[")`, a)
		cbS := fmt.Sprintf(`le(strings.LastIndex(%s,":"),strings.LastIndex(%s,"]"))`, a, a)
		cntS := fmt.Sprintf(`strings.Count(%s,":")`, a)
		type cell struct {
			hp, cb bool
			cnt    int
			want   string
			name   string
		}
		cells := []cell{
			{true, true, 2, `addr+":"+Itoa(port)`, "[…] without port"},
			{true, false, 3, "addr", "[…]:port"},
			{false, false, 0, `addr+":"+Itoa(port)`, "no colon"},
			{false, false, 1, "addr", "host:port"},
			{false, false, 2, `"["+addr+"]:"+Itoa(port)`, "two colons"},
			{false, false, 3, `"["+addr+"]:"+Itoa(port)`, "three colons"},
		}
		// holds(cond, cell): true/false, or unknown (third result false) for a condition the table does not speak about
		holds := func(cond string, cl cell) (bool, bool) {
			i := strings.LastIndex(cond, "=")
			body, truth := cond[:i], cond[i+1:] == "true"
			switch {
			case body == hpS:
				return cl.hp == truth, true
			case body == cbS:
				if !cl.hp {
					return true, true // only consulted for bracketed addresses
				}
				return cl.cb == truth, true
			case body == fmt.Sprintf(`strings.Contains(%s,":")`, a):
				return (cl.cnt >= 1) == truth, true
			case body == fmt.Sprintf(`eq(91,index(%s,0))`, a) || body == fmt.Sprintf(`eq(index(%s,0),91)`, a):
				// addr[0] == '[' (behind a length test): the bracket prefix
				return cl.hp == truth, true
			case body == fmt.Sprintf(`le(builtin.len(%s),0)`, a):
				// the empty address: no bracket, no colon; every documented kind also has non-empty members
				if truth {
					return !cl.hp && cl.cnt == 0, true
				}
				return true, true
			}
			for _, op := range []string{"eq", "le"} {
				for k := 0; k <= 3; k++ {
					ks := fmt.Sprint(k)
					if body == op+"("+ks+","+cntS+")" || (op == "eq" && body == op+"("+cntS+","+ks+")") {
						if op == "eq" {
							return (cl.cnt == k) == truth, true
						}
						return (k <= cl.cnt) == truth, true
					}
					if op == "le" && body == "le("+cntS+","+ks+")" {
						return (cl.cnt <= k) == truth, true
					}
				}
			}
			return false, false
		}
		bad := ""
		served := map[string]bool{}
		for _, rw := range rows {
			for _, cl := range cells {
				consistent := true
				for _, cond := range rw.conds {
					h, known := holds(cond, cl)
					if !known {
						if strings.Contains(cond, a) {
							bad = "a condition of ensurePort is outside the documented table: " + cond
						}
						continue
					}
					if !h {
						consistent = false
					}
				}
				if !consistent {
					continue
				}
				form := rw.form
				if form == "JoinHostPort(addr,Itoa(port))" {
					if cl.cnt == 0 {
						form = `addr+":"+Itoa(port)`
					} else {
						form = `"["+addr+"]:"+Itoa(port)`
					}
				}
				served[cl.name] = true
				if form != cl.want && bad == "" {
					bad = fmt.Sprintf("for an address of the kind %q ensurePort returns %s, the documented result is %s", cl.name, form, cl.want)
				}
			}
		}
		for _, cl := range cells {
			if !served[cl.name] && bad == "" {
				bad = "no return path serves addresses of the kind " + cl.name
			}
		}
		var got []string
		for _, rw := range rows {
			got = append(got, strings.Join(rw.conds, " ∧ ")+" → "+rw.form)
		}
		sort.Strings(got)
		r.Tables["ensurePort.decision_table"] = got
		r.Check(bad == "", "R4", "xmpp.ensurePort#decision-table", w.pos(ep.Pos()), "ensurePort does not implement the documented decision table: "+bad, fmt.Sprintf("%d return path(s) agree with the documented result in each of the 5 cases they can serve", len(rows)))
	}

	// R1 / R3 constructors (path-based, helpers walked through)
	fAddr := w.Field("xmpp.TransportConfiguration.Address")
	for _, k := range []string{"xmpp.NewClientTransport", "xmpp.NewComponentTransport"} {
		fn := w.Func(k)
		cfg := fn.Params[0]
		isCfgAddr := func(nfv string) bool {
			return strings.HasSuffix(nfv, "."+fAddr.Name()) && (strings.Contains(nfv, "param:"+cfg.Name()) || strings.Contains(nfv, "alloc:"+cfg.Name()))
		}
		prefixes := map[string]bool{}
		badR3, badR1 := "", ""
		nMatched, nPlain := 0, 0
		errW := walkPaths(entryLoc(fn), nil, nil, 20000, func(path []ssa.Instruction, end pathEnd) {
			ret, ok := path[len(path)-1].(*ssa.Return)
			if !ok || end == endCycle {
				badR3 = "the constructor loops or panics"
				return
			}
			matched, nFalse := false, 0
			other := ""
			for _, c := range w.pathConds(path) {
				if !strings.HasPrefix(c, "strings.HasPrefix(") {
					other = c
					continue
				}
				inner := strings.TrimPrefix(c, "strings.HasPrefix(")
				truth := strings.HasSuffix(inner, "=true")
				inner = strings.TrimSuffix(strings.TrimSuffix(inner, "=true"), "=false")
				inner = strings.TrimSuffix(inner, ")")
				j := strings.LastIndex(inner, ",")
				if j < 0 || !isCfgAddr(inner[:j]) {
					other = c
					continue
				}
				p := strings.Trim(inner[j+1:], "\"")
				prefixes[p] = true
				if truth {
					matched = true
				} else {
					nFalse++
				}
			}
			if other != "" {
				badR3 = "the choice of transport depends on something other than the ws:/wss: prefix of config.Address: " + other
			}
			// the scheme is tested on the address as configured: once ensurePort has rewritten it (a URL with a port or
			// an IPv6 host has several colons and comes back as "[url]:5222") the prefix is gone
			{
				rewritten := -1
				forPath(path, func(i int, in ssa.Instruction) {
					if st, ok := in.(*ssa.Store); ok && rewritten < 0 {
						if fa, ok := rvI(st.Addr, i).(*ssa.FieldAddr); ok && fieldOfAddr(fa) == fAddr {
							rewritten = i
						}
					}
					if c, ok := in.(*ssa.Call); ok && w.callKey(c) == "strings.HasPrefix" && rewritten >= 0 {
						if isCfgAddr(w.nfOn(c.Call.Args[0], path)) {
							badR3 = "the scheme prefix is tested after the address has been normalised (" + w.ipos(c) + "): a websocket URL with a port or an IPv6 host is then taken for a TCP address"
						}
					}
				})
			}
			// what is returned on this path
			res0 := resolveOn(ret.Results[0], len(path)-1, path)
			kind := "?"
			if mi, ok := res0.(*ssa.MakeInterface); ok {
				kind = w.typeStr(mi.X.Type())
			} else if isNilConst(res0) {
				kind = "nil"
			}
			if matched {
				nMatched++
				if k == "xmpp.NewClientTransport" {
					if kind != "*xmpp.WebsocketTransport" {
						badR3 = "a ws:/wss: address does not give the client a WebSocket transport (returns " + kind + ")"
					}
				} else {
					errV := resolveOn(ret.Results[1], len(path)-1, path)
					wraps := false
					if c, ok := errV.(*ssa.Call); ok && w.callKey(c) == "fmt.Errorf" {
						f, _ := stringConst(c.Call.Args[0])
						for _, el := range varargElems(c.Call.Args[1]) {
							if strings.Contains(w.nf(el, 0), "global:ErrTransportProtocolNotSupported") && strings.Contains(f, "%w") {
								wraps = true
							}
						}
					} else if strings.Contains(w.nf(errV, 0), "global:ErrTransportProtocolNotSupported") {
						wraps = true
					}
					if kind != "nil" || !wraps {
						badR3 = "a ws:/wss: address is not refused for components with an error wrapping ErrTransportProtocolNotSupported"
					}
				}
				return
			}
			if nFalse < 2 {
				badR3 = "a transport is chosen without both scheme prefixes having been tested"
				return
			}
			nPlain++
			if kind != "*xmpp.XMPPTransport" {
				badR3 = "an address without websocket scheme does not give the TCP transport (returns " + kind + ")"
				return
			}
			// R1: the transport's Config is the configuration whose Address was replaced by ensurePort(config.Address, 5222) earlier on the path
			var ep *ssa.Call
			epIdx := -1
			for i, in := range path {
				if c, ok := in.(*ssa.Call); ok && w.callKey(c) == "xmpp.ensurePort" {
					ep, epIdx = c, i
				}
			}
			if ep == nil {
				badR1 = "the address is not normalised with ensurePort"
				return
			}
			argNF := w.nfOn(ep.Call.Args[0], path)
			viaTransportCopy := false
			if !isCfgAddr(argNF) {
				// the address read back from the transport's own copy of the configuration (made earlier on the path)
				if u, ok := rvI(ep.Call.Args[0], epIdx).(*ssa.UnOp); ok {
					if fa, ok := u.X.(*ssa.FieldAddr); ok && fieldOfAddr(fa) == fAddr && strings.HasSuffix(w.typeStr(rootOf(fa).Type()), "xmpp.XMPPTransport") {
						viaTransportCopy = true
					}
				}
				if !viaTransportCopy {
					badR1 = "ensurePort is not applied to config.Address"
				}
			}
			if p, isC := intConst(rvI(ep.Call.Args[1], epIdx)); !isC || p != 5222 {
				badR1 = "the default port is not 5222"
			}
			storeIdx, copyIdx := -1, -1
			storeIntoTransport := false
			for i, in := range path {
				if st, ok := in.(*ssa.Store); ok {
					if fa, ok := rvI(st.Addr, i).(*ssa.FieldAddr); ok && fieldOfAddr(fa) == fAddr && rvI(st.Val, i) == ssa.Value(ep) {
						storeIdx = i
						// normalised in place, in the transport's own copy of the configuration
						storeIntoTransport = strings.HasSuffix(w.typeStr(rootOf(fa).Type()), "xmpp.XMPPTransport")
					}
					// copy of the configuration into the transport literal
					if fa, ok := st.Addr.(*ssa.FieldAddr); ok && fieldOfAddr(fa).Name() == "Config" && strings.HasSuffix(w.typeStr(fa.X.Type()), "xmpp.XMPPTransport") {
						// (the configuration may come back, normalised, from a helper: what it returned on this path)
						if u, ok := rvI(st.Val, i).(*ssa.UnOp); ok {
							for j, in2 := range path {
								if in2 == ssa.Instruction(u) {
									copyIdx = j
								}
							}
						}
					}
				}
			}
			if storeIdx < 0 {
				badR1 = "the normalised address is not stored into the configuration"
			} else if copyIdx < 0 && storeIntoTransport && !viaTransportCopy {
				// the transport's configuration is filled field by field; its address receives the normalised one directly
			} else if copyIdx < 0 {
				badR1 = "the transport is not built from the (normalised) configuration"
			} else if viaTransportCopy && copyIdx > epIdx {
				badR1 = "ensurePort reads the transport's address before the configuration has been copied into it"
			} else if copyIdx < storeIdx && !storeIntoTransport {
				badR1 = "the configuration is copied into the transport before its address is normalised"
			} else if copyIdx > storeIdx && storeIntoTransport {
				badR1 = "the normalised address is overwritten by the copy of the configuration"
			}
		})
		if errW != nil {
			r.Undecided("R3", k, w.pos(fn.Pos()), errW.Error())
			continue
		}
		r.Check(fmt.Sprint(keys(prefixes)) == "[ws: wss:]", "R3", k+"#prefixes", w.pos(fn.Pos()), fmt.Sprintf("the constructor tests the scheme prefixes %v of config.Address, not [ws: wss:]", keys(prefixes)), "tests ws: and wss:")
		r.Check(badR3 == "" && nMatched > 0 && nPlain > 0, "R3", k+"#outcome", w.pos(fn.Pos()), badR3, fmt.Sprintf("%d path(s) with a matched scheme → %s; %d path(s) without → TCP transport", nMatched, map[string]string{"xmpp.NewClientTransport": "WebSocket transport", "xmpp.NewComponentTransport": "error wrapping ErrTransportProtocolNotSupported"}[k], nPlain))
		r.Check(badR1 == "" && nPlain > 0, "R1", k+"#address", w.pos(fn.Pos()), badR1, "Config.Address = ensurePort(config.Address, 5222), then copied into the transport")
	}
	// XMPPTransport.Connect dials Config.Address
	conn := w.Func("xmpp.(*XMPPTransport).Connect")
	dials := w.callsInH(conn, "net.DialTimeout", "net.Dial")
	okDial := len(dials) == 1
	if okDial {
		args := dials[0].Common().Args
		nw, isS := stringConst(args[0])
		okDial = isS && nw == "tcp" && fieldNames(fieldPath(args[1])) == "Config.Address"
	}
	r.Check(okDial, "R1", "xmpp.(*XMPPTransport).Connect#dial", w.pos(conn.Pos()), "the TCP transport does not dial (\"tcp\", Config.Address)", "net.DialTimeout(\"tcp\", t.Config.Address, …)")
	// other stores to Address in library code
	for _, acc := range w.fieldAccesses(fAddr, w.LibFuncs()) {
		if acc.Kind != "store" {
			continue
		}
		fk := w.funcKey(acc.Fn)
		if w.ownedOnlyBy(acc.Fn, "xmpp.NewClientTransport", "xmpp.NewComponentTransport") {
			continue // the constructors themselves, or a helper that runs only for them: judged on their paths above
		}
		switch fk {
		case "xmpp.NewClientTransport", "xmpp.NewComponentTransport":
			continue
		case "xmpp.NewClient":
			// fallback to the JID's domain / SRV target — before the transport is built, so ensurePort still applies
			r.Ok("R1", fk+"#store:Address", "default address (JID domain or SRV target) chosen before NewClientTransport normalises it")
		default:
			r.Fail("R1", fk+"#store:Address", w.ipos(acc.Instr), "the address is rewritten after normalisation")
		}
	}
}

// addrOfParam: v is a load of field f of (a local copy of) parameter p.
func addrOfParam(v ssa.Value, p *ssa.Parameter, f interface{ Name() string }) bool {
	lf, base := loadedField(v)
	if lf == nil || lf.Name() != f.Name() {
		return false
	}
	// base is the local the parameter was spilled into, or the parameter itself
	if base == ssa.Value(p) {
		return true
	}
	if al, ok := base.(*ssa.Alloc); ok {
		for _, rf := range *al.Referrers() {
			if st, ok := rf.(*ssa.Store); ok && st.Addr == ssa.Value(al) && st.Val == ssa.Value(p) {
				return true
			}
		}
	}
	return false
}
