package main

// C20 — address normalisation yields a dialable host:port and picks the right transport.

import (
	"fmt"
	"sort"
	"strings"

	"golang.org/x/tools/go/ssa"
)

func init() {
	register(&propDef{
		id: "C20", level: "other", run: runC20,
		trusted: []string{"strings.HasPrefix/LastIndex/Count, strconv.Itoa as documented", "net.DialTimeout dials the address it is given"},
		explain: "Decides that the address dialled is ensurePort(config.Address, 5222) in both constructors and nothing else stores it (R1); that every return of ensurePort is the given address verbatim, or with \":\"+Itoa(port) appended, or bracketed with \"]:\"+Itoa(port) appended — host and explicit port are kept intact on every path and a port is only ever appended (R2); that both constructors test the same two scheme prefixes, the client returning a WebsocketTransport and the component an error wrapping ErrTransportProtocolNotSupported (R3); and that the branching of ensurePort is exactly the decision table argued correct in DESIGN.md (R4: bracketed ⇒ append iff no colon after the last ']'; otherwise by colon count 0 ⇒ append, 1 ⇒ verbatim, more ⇒ bracket and append). Not decided mechanically: that this table is right for every literal shape — argued on paper, pinned by R4; any other decision procedure is reported as undecided, not as holding.",
	})
}

func runC20(w *World, r *Report, tier string) {
	r.Rule("R1", "pass-through: in NewClientTransport and NewComponentTransport the XMPPTransport's Config.Address is ensurePort(config.Address, 5222); XMPPTransport.Connect dials Config.Address; no other library store to it")
	r.Rule("R2", "result forms: every return of ensurePort is [addr], [addr, \":\", Itoa(port)] or [\"[\", addr, \"]:\", Itoa(port)]")
	r.Rule("R3", "scheme table: both constructors test HasPrefix(config.Address, \"ws:\") || HasPrefix(config.Address, \"wss:\"); the client returns a *WebsocketTransport there, the component an error wrapping ErrTransportProtocolNotSupported")
	r.Rule("R4", "decision table: ensurePort's (conditions → result form) rows are exactly the documented table")

	ep := w.Func("xmpp.ensurePort")
	r.Anchor("xmpp.ensurePort")
	addr, port := ep.Params[0], ep.Params[1]
	type row struct {
		conds []string
		form  string
	}
	var rows []row
	badForm := ""
	err := walkPaths(entryLoc(ep), nil, nil, 5000, func(path []ssa.Instruction, end pathEnd) {
		ret, ok := path[len(path)-1].(*ssa.Return)
		if !ok || end == endCycle {
			badForm = "ensurePort has a loop or panics"
			return
		}
		as := mergeConstAtoms(strAtoms(ret.Results[0]))
		var parts []string
		for _, a := range as {
			switch {
			case a.IsC:
				parts = append(parts, fmt.Sprintf("%q", a.Const))
			case a.Val == ssa.Value(addr):
				parts = append(parts, "addr")
			default:
				if c, ok := a.Val.(*ssa.Call); ok && w.callKey(c) == "strconv.Itoa" && c.Call.Args[0] == ssa.Value(port) {
					parts = append(parts, "Itoa(port)")
				} else if c, ok := a.Val.(*ssa.Call); ok && w.callKey(c) == "strconv.Itoa" {
					if cv, ok := c.Call.Args[0].(*ssa.Convert); ok && cv.X == ssa.Value(port) {
						parts = append(parts, "Itoa(port)")
					} else {
						parts = append(parts, "?"+w.nf(a.Val, 0))
					}
				} else {
					parts = append(parts, "?"+w.nf(a.Val, 0))
				}
			}
		}
		form := strings.Join(parts, "+")
		switch form {
		case "addr", `addr+":"+Itoa(port)`, `"["+addr+"]:"+Itoa(port)`:
		default:
			badForm = "a return of ensurePort has the form " + form + ": the given host/port is not kept intact or something other than a port is added (return at " + w.ipos(ret) + ")"
		}
		rows = append(rows, row{w.pathConds(path), form})
	})
	if err != nil {
		r.Undecided("R2", "xmpp.ensurePort#returns", w.pos(ep.Pos()), err.Error())
	} else {
		r.Check(badForm == "" && len(rows) > 0, "R2", "xmpp.ensurePort#returns", w.pos(ep.Pos()), badForm, fmt.Sprintf("%d return path(s), each verbatim / port appended / bracketed+port", len(rows)))
	}
	// R4 decision table
	a := "param:" + addr.Name()
	hp := fmt.Sprintf(`strings.HasPrefix(%s,"[")`, a)
	li := func(s string) string { return fmt.Sprintf(`strings.LastIndex(%s,%q)`, a, s) }
	cnt := fmt.Sprintf(`strings.Count(%s,":")`, a)
	eq := func(x, y string) string {
		if x > y {
			x, y = y, x
		}
		return fmt.Sprintf("eq(%s,%s)", x, y)
	}
	want := []string{
		fmt.Sprintf(`%s=true ∧ le(%s,%s)=true → addr+":"+Itoa(port)`, hp, li(":"), li("]")),
		fmt.Sprintf(`%s=true ∧ le(%s,%s)=false → addr`, hp, li(":"), li("]")),
		fmt.Sprintf(`%s=false ∧ %s=true → addr+":"+Itoa(port)`, hp, eq(cnt, "0")),
		fmt.Sprintf(`%s=false ∧ %s=false ∧ %s=true → addr`, hp, eq(cnt, "0"), eq(cnt, "1")),
		fmt.Sprintf(`%s=false ∧ %s=false ∧ %s=false → "["+addr+"]:"+Itoa(port)`, hp, eq(cnt, "0"), eq(cnt, "1")),
	}
	var got []string
	for _, rw := range rows {
		got = append(got, strings.Join(rw.conds, " ∧ ")+" → "+rw.form)
	}
	sort.Strings(got)
	sort.Strings(want)
	r.Tables["ensurePort.decision_table"] = got
	if strings.Join(got, "\n") == strings.Join(want, "\n") {
		r.Ok("R4", "xmpp.ensurePort#decision-table", "5 rows equal to the documented table")
	} else {
		// which rows differ
		wm := map[string]bool{}
		for _, s := range want {
			wm[s] = true
		}
		var extra []string
		for _, s := range got {
			if !wm[s] {
				extra = append(extra, s)
			}
		}
		r.Fail("R4", "xmpp.ensurePort#decision-table", w.pos(ep.Pos()), "ensurePort does not implement the documented decision table; unexpected rows: "+strings.Join(extra, " ;; "))
	}

	// R1 / R3 constructors
	fAddr := w.Field("xmpp.TransportConfiguration.Address")
	for _, k := range []string{"xmpp.NewClientTransport", "xmpp.NewComponentTransport"} {
		fn := w.Func(k)
		cfg := fn.Params[0]
		// prefixes tested
		prefixes := map[string]bool{}
		wsEdges := edgesAsserting(fn, func(c ssa.Value, truth bool) bool {
			call, _ := callResult(c)
			if call == nil || w.callKey(call) != "strings.HasPrefix" || !truth {
				return false
			}
			p, isS := stringConst(call.Call.Args[1])
			if !isS || !addrOfParam(call.Call.Args[0], cfg, fAddr) {
				return false
			}
			prefixes[p] = true
			return true
		})
		r.Check(fmt.Sprint(keys(prefixes)) == "[ws: wss:]", "R3", k+"#prefixes", w.pos(fn.Pos()), fmt.Sprintf("the constructor tests the scheme prefixes %v of config.Address, not [ws: wss:]", keys(prefixes)), "tests ws: and wss:")
		// the XMPP transport (and ensurePort) only when neither prefix matched; the websocket/error result only when one matched
		var xmppAllocs, wsAllocs []ssa.Instruction
		allInstrs(fn, func(in ssa.Instruction) {
			if al, ok := in.(*ssa.Alloc); ok && al.Heap {
				ts := w.typeStr(al.Type())
				if ts == "*xmpp.XMPPTransport" {
					xmppAllocs = append(xmppAllocs, in)
				}
				if ts == "*xmpp.WebsocketTransport" {
					wsAllocs = append(wsAllocs, in)
				}
			}
		})
		okSplit := len(xmppAllocs) == 1
		for _, x := range xmppAllocs {
			// unreachable if a prefix matched: i.e. every path to it takes only false edges: reachable with true-edges cut, but NOT reachable if false edges are cut
			if !reachable(entryLoc(fn), func(in ssa.Instruction) bool { return in == x }, nil, wsEdges) {
				okSplit = false
			}
			// and on each path none of the true edges was taken: check by cutting false edges → unreachable
			falseEdges := EdgeSet{}
			for e := range wsEdges {
				falseEdges[Edge{e.From, 1 - e.Succ}] = true
			}
			// any path to x must traverse all tests' false edges; removing one false edge at a time must cut it off only together — simple check: with all true edges kept and all false edges cut, x is unreachable
			if reachable(entryLoc(fn), func(in ssa.Instruction) bool { return in == x }, nil, falseEdges) && len(falseEdges) > 0 {
				// reachable through true edges only → wrong
				okSplit = false
			}
		}
		r.Check(okSplit, "R3", k+"#xmpp-branch", w.pos(fn.Pos()), "the TCP transport is not built exactly when neither ws: nor wss: prefixes the address", "XMPPTransport only when no websocket scheme matched")
		if k == "xmpp.NewClientTransport" {
			okWS := len(wsAllocs) == 1 && !reachable(entryLoc(fn), func(in ssa.Instruction) bool { return in == wsAllocs[0] }, nil, wsEdges)
			r.Check(okWS, "R3", k+"#websocket-branch", w.pos(fn.Pos()), "a ws:/wss: address does not select the WebSocket transport (only) for clients", "WebsocketTransport only under a matched prefix")
		} else {
			// error wrapping ErrTransportProtocolNotSupported under the prefix edges; nil transport
			okErr := false
			allInstrs(fn, func(in ssa.Instruction) {
				rt, ok := in.(*ssa.Return)
				if !ok || isNilConst(rt.Results[1]) {
					return
				}
				if c, ok := rt.Results[1].(*ssa.Call); ok && (w.callKey(c) == "fmt.Errorf") {
					f, _ := stringConst(c.Call.Args[0])
					wraps := strings.Contains(f, "%w")
					isSentinel := false
					for _, el := range varargElems(c.Call.Args[1]) {
						if strings.Contains(w.nf(el, 0), "global:ErrTransportProtocolNotSupported") {
							isSentinel = true
						}
					}
					if wraps && isSentinel && isNilConst(rt.Results[0]) && !reachable(entryLoc(fn), func(x ssa.Instruction) bool { return x == in }, nil, wsEdges) {
						okErr = true
					}
				} else if strings.Contains(w.nf(rt.Results[1], 0), "global:ErrTransportProtocolNotSupported") && isNilConst(rt.Results[0]) {
					okErr = !reachable(entryLoc(fn), func(x ssa.Instruction) bool { return x == in }, nil, wsEdges)
				}
			})
			r.Check(okErr && len(wsAllocs) == 0, "R3", k+"#websocket-refused", w.pos(fn.Pos()), "a ws:/wss: address is not refused for components with an error wrapping ErrTransportProtocolNotSupported", "nil, error wrapping ErrTransportProtocolNotSupported")
		}
		// R1: Config.Address = ensurePort(config.Address, 5222)
		eps := w.callsIn(fn, "xmpp.ensurePort")
		okEP := len(eps) == 1
		detail := fmt.Sprintf("%d ensurePort calls", len(eps))
		if okEP {
			args := eps[0].Common().Args
			p, isC := intConst(args[1])
			if !addrOfParam(args[0], cfg, fAddr) || !isC || p != 5222 {
				okEP = false
				detail = "ensurePort is not applied to config.Address with the default port 5222: " + w.nf(args[0], 0) + ", " + w.nf(args[1], 0)
			}
			// result stored to the config copy's Address, and that config is what the transport gets
			stored := false
			for _, rf := range *eps[0].(*ssa.Call).Referrers() {
				if st, ok := rf.(*ssa.Store); ok {
					if fa, ok := st.Addr.(*ssa.FieldAddr); ok && fieldOfAddr(fa) == fAddr {
						stored = true
					}
				}
			}
			if !stored {
				okEP = false
				detail = "the normalised address is not stored into the transport's configuration"
			}
			// the store precedes the copy of config into the transport
			for _, x := range xmppAllocs {
				fields, _ := complitFields(x.(*ssa.Alloc))
				cv := fields["Config"]
				ld, isLoad := cv.(*ssa.UnOp)
				if cv == nil || !isLoad {
					okEP = false
					detail = "the transport's Config is not the (normalised) configuration"
					continue
				}
				if !reachable(after(eps[0].(ssa.Instruction)), func(in ssa.Instruction) bool { return in == ssa.Instruction(ld) }, nil, nil) {
					okEP = false
					detail = "the configuration is copied into the transport before the address is normalised"
				}
			}
		}
		r.Check(okEP, "R1", k+"#address", w.pos(fn.Pos()), detail, "Config.Address = ensurePort(config.Address, 5222), then copied into the transport")
	}
	// XMPPTransport.Connect dials Config.Address
	conn := w.Func("xmpp.(*XMPPTransport).Connect")
	dials := w.callsIn(conn, "net.DialTimeout", "net.Dial")
	okDial := len(dials) == 1
	if okDial {
		args := dials[0].Common().Args
		nw, isS := stringConst(args[0])
		okDial = isS && nw == "tcp" && fieldNames(fieldPath(args[1])) == "Config.Address"
	}
	r.Check(okDial, "R1", "xmpp.(*XMPPTransport).Connect#dial", w.pos(conn.Pos()), "the TCP transport does not dial (\"tcp\", Config.Address)", "net.DialTimeout(\"tcp\", t.Config.Address, …)")
	// other stores to Address in library code
	for _, acc := range w.fieldAccesses(fAddr, w.LibFuncs()) {
		if acc.Kind != "store" {
			continue
		}
		fk := w.funcKey(acc.Fn)
		switch fk {
		case "xmpp.NewClientTransport", "xmpp.NewComponentTransport":
			continue
		case "xmpp.NewClient":
			// fallback to the JID's domain / SRV target — before the transport is built, so ensurePort still applies
			r.Ok("R1", fk+"#store:Address", "default address (JID domain or SRV target) chosen before NewClientTransport normalises it")
		default:
			r.Fail("R1", fk+"#store:Address", w.ipos(acc.Instr), "the address is rewritten after normalisation")
		}
	}
}

// addrOfParam: v is a load of field f of (a local copy of) parameter p.
func addrOfParam(v ssa.Value, p *ssa.Parameter, f interface{ Name() string }) bool {
	lf, base := loadedField(v)
	if lf == nil || lf.Name() != f.Name() {
		return false
	}
	// base is the local the parameter was spilled into, or the parameter itself
	if base == ssa.Value(p) {
		return true
	}
	if al, ok := base.(*ssa.Alloc); ok {
		for _, rf := range *al.Referrers() {
			if st, ok := rf.(*ssa.Store); ok && st.Addr == ssa.Value(al) && st.Val == ssa.Value(p) {
				return true
			}
		}
	}
	return false
}
