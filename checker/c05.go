package main

// C05 — every inbound stanza reaches the router exactly once.

import (
	"fmt"
	"go/token"
	"go/types"
	"strings"

	"golang.org/x/tools/go/ssa"
)

func init() {
	register(&propDef{
		id: "C05", level: "other", run: runC05,
		trusted: []string{"encoding/xml (through NextPacket) delivers each complete top-level element once, in order (C02 decides the parser's own code)", "the Go scheduler eventually runs every started goroutine"},
		explain: "Decides, per dynamic packet type, how many times the received value is handed to Router.route on every feasible path through one iteration of each receive loop (R1: exactly once for Message/Presence/*IQ — as a goroutine in the client, as a plain call, hence in arrival order, in the component — and the loop goes on); that every <r/> is answered exactly once before the next read (R2); that the optional unacknowledged-stanza queue, which is nil until stream management is enabled, is never dereferenced without a nil test on the path a server-sent <a/> takes (R4 — Engler's contradiction rule: all six queue methods test for nil, so every other dereference must too); and that no method with a value receiver mutates receiver state through a pointer-receiver helper, which silently acts on a copy (R6 — the websocket transport's Close/cleanup: a second Close closes the queue channel twice). every Read method of the module honours the io.Reader bound n <= len(p) (R5 — a frame larger than the decoder's buffer must not overflow it). Not decided: that encoding/xml delivers every complete element before a cut (trusted), scheduling of the per-packet goroutines.",
	})
}

func runC05(w *World, r *Report, tier string) {
	r.Rule("R1", "for each stanza type, every feasible path through one iteration of the receive loop hands the received value to Router.route exactly once (go in the client, plain call in the component) and continues the loop")
	r.Rule("R2", "for SMRequest, every path that continues the client's loop passes exactly one synchronous Send of an SMAnswer; the request is never left unanswered")
	r.Rule("R3", "non-stanza elements other than the stream close are routed at least once and never end the loop silently (SMAnswer reaches the queue logic through route)")
	r.Rule("R4", "optional-pointer discipline: a value loaded from SMState.UnAckQueue is only dereferenced under a nil test, in the loading function and in every module callee it is passed to; the methods of *UnAckQueue start with the nil guard")
	r.Rule("R5", "io.Reader contract: every Read(p []byte) (int, error) in the module returns as n the result of copy(p, …), the count of an inner Read/Write on (a sub-slice of) p, or 0 — never more than len(p)")
	r.Rule("R6", "no value-receiver method calls, on its receiver copy, a pointer-receiver method that stores to the receiver's fields")

	for _, spec := range []struct {
		key  string
		asGo bool
	}{{"xmpp.(*Client).recv", true}, {"xmpp.(*Component).recv", false}} {
		fn := w.Func(spec.key)
		r.Anchor(spec.key)
		rl, err := analyseRecvLoop(w, fn)
		if err != nil {
			r.Undecided("R1", spec.key+"#loop", w.pos(fn.Pos()), err.Error())
			continue
		}
		for _, u := range rl.unknown {
			r.Undecided("R1", "stanza.NextPacket#universe", "-", u)
		}
		r.Tables["universe"] = rl.typeNames(rl.universe)
		for _, name := range rl.typeNames(rl.universe) {
			T := rl.universe[name]
			_, isStanza := rl.stanzas[name]
			cons := spec.key + "#type:" + name
			bad := ""
			npaths := 0
			minRoute, maxRoute := 1<<30, -1
			ends := false
			e := rl.pathsFor(T, func(path []ssa.Instruction, end pathEnd) {
				npaths++
				last := path[len(path)-1]
				if end == endCycle {
					bad = "inner loop in the iteration body"
					return
				}
				nGo, nCall := 0, 0
				for _, in := range path {
					if rl.isRouteOfPkt(in) {
						if _, g := in.(*ssa.Go); g {
							nGo++
						} else if _, c := in.(*ssa.Call); c {
							nCall++
						} else {
							bad = "route is deferred"
						}
					}
				}
				n := nGo + nCall
				if n < minRoute && rl.isNextPacket(last) {
					minRoute = n
				}
				if n > maxRoute {
					maxRoute = n
				}
				if !rl.isNextPacket(last) {
					ends = true
				}
				if !isStanza {
					return
				}
				if !rl.isNextPacket(last) {
					bad = fmt.Sprintf("a received %s ends the receive loop (return at %s): everything after it is dropped", name, w.ipos(last))
					return
				}
				if n != 1 {
					bad = fmt.Sprintf("a received %s is handed to the router %d time(s) on the path ending at %s", name, n, w.ipos(last))
					return
				}
				if spec.asGo && nGo != 1 {
					bad = "the client routes a stanza synchronously: a handler that sends and waits for a reply would deadlock the receive loop"
				}
				if !spec.asGo && nCall != 1 {
					bad = "the component routes a stanza in a new goroutine: arrival order is no longer preserved"
				}
			})
			if e != nil {
				r.Undecided("R1", cons, w.pos(fn.Pos()), e.Error())
				continue
			}
			if isStanza {
				r.Check(bad == "" && npaths > 0, "R1", cons, w.pos(fn.Pos()), bad, fmt.Sprintf("%d path(s): routed exactly once, loop continues", npaths))
				continue
			}
			// R3 non-stanza
			switch name {
			case "stanza.StreamClosePacket":
				r.Check(ends && maxRoute == 0, "R3", cons, w.pos(fn.Pos()), "the stream close does not end the loop", "ends the loop")
			default:
				if bad != "" {
					r.Fail("R3", cons, w.pos(fn.Pos()), bad)
				} else if minRoute < 1 || minRoute == 1<<30 {
					r.Fail("R3", cons, w.pos(fn.Pos()), fmt.Sprintf("a received %s can be dropped without being routed", name))
				} else {
					f := fmt.Sprintf("routed %d..%d time(s)", minRoute, maxRoute)
					if maxRoute > 1 {
						r.Note("%s: %s is routed %d times (synchronously and again in the common tail); it is not a stanza, so R1 does not apply", spec.key, name, maxRoute)
					}
					r.Ok("R3", cons, f)
				}
			}
		}
		// R2 (client only)
		if spec.asGo {
			T := rl.universe["stanza.SMRequest"]
			if T == nil {
				r.Undecided("R2", spec.key+"#type:stanza.SMRequest", "-", "SMRequest not in universe")
			} else {
				bad := ""
				nLoop := 0
				rl.pathsFor(T, func(path []ssa.Instruction, end pathEnd) {
					last := path[len(path)-1]
					nAns := 0
					for _, in := range path {
						c, ok := in.(*ssa.Call)
						if !ok {
							if g, isGo := in.(*ssa.Go); isGo && strings.HasSuffix(w.callKey(g), ".Send") {
								bad = "the answer is sent from a new goroutine: it may report a later count and overtake other writes"
							}
							continue
						}
						if !strings.HasSuffix(w.callKey(c), "Client.Send") {
							continue
						}
						if mi, ok := c.Call.Args[len(c.Call.Args)-1].(*ssa.MakeInterface); ok && strings.TrimPrefix(w.typeStr(mi.X.Type()), "*") == "stanza.SMAnswer" {
							nAns++
						}
					}
					if rl.isNextPacket(last) {
						nLoop++
						if nAns != 1 {
							bad = fmt.Sprintf("an acknowledgement request is answered %d time(s) before the next read", nAns)
						}
					} else if nAns != 1 {
						bad = "the loop ends after an acknowledgement request without having tried to answer it"
					}
				})
				r.Check(bad == "" && nLoop > 0, "R2", spec.key+"#type:stanza.SMRequest", w.pos(fn.Pos()), bad, "one synchronous Send(SMAnswer) per <r/>")
			}
		}
	}
	r.Floor("R1", 6)

	// ---- R4
	fQ := w.Field("xmpp.SMState.UnAckQueue")
	nLoads := 0
	checked := map[string]bool{}
	// (known: the caller passes v only where it has found it non-nil — an extracted helper running under its caller's guard)
	var derefCheck func(fn *ssa.Function, v ssa.Value, via string, depth int, known bool)
	derefCheck = func(fn *ssa.Function, v ssa.Value, via string, depth int, known bool) {
		if depth > 4 || v.Referrers() == nil {
			return
		}
		nonNil := edgesAsserting(fn, func(c ssa.Value, truth bool) bool { return assertsNonNil(c, truth, v) })
		for _, ref := range *v.Referrers() {
			switch x := ref.(type) {
			case *ssa.FieldAddr:
				if x.X != v {
					continue
				}
				cons := fmt.Sprintf("%s#deref:%s(%s)", w.funcKey(fn), fieldOfAddr(x).Name(), via)
				if checked[cons] {
					continue
				}
				checked[cons] = true
				guarded := known || (len(nonNil) > 0 && !reachable(entryLoc(fn), func(in ssa.Instruction) bool { return in == ssa.Instruction(x) }, nil, nonNil))
				r.Check(guarded, "R4", cons, w.ipos(x), "the unacknowledged-stanza queue is dereferenced without a nil test, but it is nil until stream management has been enabled: an unsolicited <a/> from the server (route → SendMissingStz(…, nil)) panics inside the routing goroutine and kills the process", "dominated by a != nil test")
			case *ssa.UnOp:
				if x.Op == token.MUL && x.X == v {
					cons := fmt.Sprintf("%s#deref:*(%s)", w.funcKey(fn), via)
					guarded := known || (len(nonNil) > 0 && !reachable(entryLoc(fn), func(in ssa.Instruction) bool { return in == ssa.Instruction(x) }, nil, nonNil))
					r.Check(guarded, "R4", cons, w.ipos(x), "the queue pointer is dereferenced without a nil test", "dominated by a != nil test")
				}
			case ssa.CallInstruction:
				cc := x.Common()
				callee := cc.StaticCallee()
				if callee == nil || callee.Blocks == nil || !w.inModule(callee) {
					continue
				}
				callGuarded := known || (len(nonNil) > 0 && !reachable(entryLoc(fn), func(in ssa.Instruction) bool { return in == x.(ssa.Instruction) }, nil, nonNil))
				for i, a := range cc.Args {
					if a == v && i < len(callee.Params) {
						derefCheck(callee, callee.Params[i], via+"→"+w.funcKey(callee), depth+1, callGuarded)
					}
				}
			}
		}
	}
	for _, a := range w.fieldAccesses(fQ, w.LibFuncs()) {
		if a.Kind != "load" {
			continue
		}
		nLoads += len(w.owners(a.Fn)) // a helper shared by two senders stands for both of their loads
		if v, ok := a.Instr.(ssa.Value); ok {
			derefCheck(a.Fn, v, "from "+w.funcKey(a.Fn), 0, false)
		}
	}
	if nLoads < 3 {
		r.Undecided("R4", "xmpp.SMState.UnAckQueue#loads", "-", fmt.Sprintf("only %d loads of the queue pointer found, 3 confirmed by hand", nLoads))
	}
	r.Floor("R4", 4)

	r.Rule("R9", "no double delivery of an IQ response (shared with C07.R1): the lookup that claims a pending entry and its delete are one write-locked critical section — two routing goroutines cannot both send on and close the entry's channel")
	iqClaimAtomic(w, r, "R9")
	c05WebsocketReader(w, r)
	// ---- R7 (continued): optional members of received elements
	for _, mi := range w.optionalMemberInvokes(w.LibFuncs()) {
		owner := w.ownerKey(mi.fn)
		if strings.HasPrefix(owner, "xmpp.(*Session).") || owner == "xmpp.NewSession" || owner == "xmpp.authPlain" || owner == "xmpp.authSASL" || strings.HasPrefix(owner, "xmpp.(*Component).Resume") {
			continue // negotiation: C03.R6
		}
		r.Check(mi.guarded, "R7", fmt.Sprintf("%s→%s.%s#nil-guard", owner, mi.field, mi.call.Call.Method.Name()), w.ipos(mi.call), "a method is called on the "+mi.field+" member of a received element without a nil test: an element that lacks that child makes the receiving goroutine panic", "behind a nil test")
	}

	// ---- R5 io.Reader contract
	nRead := 0
	for _, f := range w.LibFuncs() {
		if f.Name() != "Read" || f.Signature.Recv() == nil || f.Signature.Params().Len() != 1 || f.Signature.Results().Len() != 2 {
			continue
		}
		if sl, ok := f.Signature.Params().At(0).Type().Underlying().(*types.Slice); !ok || !types.Identical(sl.Elem(), types.Typ[types.Byte]) {
			continue
		}
		nRead++
		p := f.Params[1]
		bad := ""
		onP := func(v ssa.Value) bool {
			if v == ssa.Value(p) {
				return true
			}
			if s, ok := v.(*ssa.Slice); ok && s.X == ssa.Value(p) {
				return true
			}
			return false
		}
		var okVal func(v ssa.Value, depth int) bool
		okVal = func(v ssa.Value, depth int) bool {
			if depth > 6 {
				return false
			}
			switch x := v.(type) {
			case *ssa.Const:
				k, isK := intConst(x)
				return isK && k == 0
			case *ssa.Call:
				if w.callKey(x) == "builtin.copy" {
					return onP(x.Call.Args[0])
				}
				if strings.HasSuffix(w.callKey(x), ".Read") && len(x.Call.Args) > 0 && onP(x.Call.Args[len(x.Call.Args)-1]) && x.Call.Signature().Results().Len() == 1 {
					return true
				}
				return false
			case *ssa.Extract:
				if c, ok := x.Tuple.(*ssa.Call); ok && x.Index == 0 {
					k := w.callKey(c)
					if (strings.HasSuffix(k, ".Read") || strings.HasSuffix(k, ".Write")) && len(c.Call.Args) > 0 && onP(c.Call.Args[len(c.Call.Args)-1]) {
						return true
					}
				}
				return false
			case *ssa.Phi:
				for _, e := range x.Edges {
					if !okVal(e, depth+1) {
						return false
					}
				}
				return true
			}
			return false
		}
		allInstrs(f, func(in ssa.Instruction) {
			if rt, ok := in.(*ssa.Return); ok && !okVal(rt.Results[0], 0) {
				bad = "Read returns " + w.nf(rt.Results[0], 0) + " as the number of bytes read (at " + w.ipos(rt) + "): that is not bounded by what was placed into p — a frame larger than the caller's buffer makes the caller (bufio / xml.Decoder) index out of range and the rest of the frame is lost"
			}
		})
		r.Check(bad == "", "R5", w.funcKey(f), w.pos(f.Pos()), bad, "n is copy(p, …), an inner Read/Write count on p, or 0")
		// a Read that hands out a frame it holds with copy(p, X): what did not fit, X[n:], is kept in a field of the
		// receiver, and a new frame is taken only when nothing is kept — every byte received is delivered exactly once
		{
			badRem := ""
			nCopy := 0
			walkPaths(entryLoc(f), nil, nil, 5000, func(path []ssa.Instruction, end pathEnd) {
				rt, ok := path[len(path)-1].(*ssa.Return)
				if !ok {
					return
				}
				cp, ok := resolveOn(rt.Results[0], len(path)-1, path).(*ssa.Call)
				if !ok || w.callKey(cp) != "builtin.copy" {
					return
				}
				nCopy++
				src := cp.Call.Args[1]
				var kept *types.Var
				forPath(path, func(i int, in ssa.Instruction) {
					st, ok := in.(*ssa.Store)
					if !ok {
						return
					}
					fa, ok := st.Addr.(*ssa.FieldAddr)
					if !ok {
						return
					}
					sl, ok := st.Val.(*ssa.Slice)
					if !ok || sl.High != nil || sl.Low != ssa.Value(cp) {
						return
					}
					if sameValue(sl.X, src) || sl.X == src {
						kept = fieldOfAddr(fa)
					}
				})
				if kept == nil {
					badRem = "Read hands out the first bytes of a frame (" + w.nfOn(src, path) + ") and does not keep the rest: whatever does not fit into the caller's buffer is lost, or the same bytes are delivered again (return at " + w.ipos(rt) + ")"
					return
				}
				if f2, _ := loadedField(src); f2 == kept {
					return // serving what was kept
				}
				// a new frame: only when nothing is kept
				empty := pathAsserts(path, func(c ssa.Value, truth bool) bool {
					bo, ok := c.(*ssa.BinOp)
					if !ok {
						return false
					}
					isLen := func(v ssa.Value) bool {
						cl, ok := v.(*ssa.Call)
						if !ok || w.callKey(cl) != "builtin.len" {
							return false
						}
						f3, _ := loadedField(cl.Call.Args[0])
						return f3 == kept
					}
					z, isZ := intConst(bo.Y)
					if !isZ || z != 0 || !isLen(bo.X) {
						return false
					}
					switch bo.Op {
					case token.GTR, token.NEQ:
						return !truth
					case token.EQL, token.LEQ:
						return truth
					}
					return false
				})
				if !empty {
					badRem = "Read takes a new frame although bytes of the previous one may still be kept: they are overwritten and lost (return at " + w.ipos(rt) + ")"
				}
			})
			if nCopy > 0 {
				r.Check(badRem == "", "R5", w.funcKey(f)+"#remainder", w.pos(f.Pos()), badRem, fmt.Sprintf("%d path(s) handing out copy(p, X): X[n:] kept; a new frame only when nothing is kept", nCopy))
			}
		}
		// a Read that wraps another Read: the inner error (the end of the stream, a lost connection) reaches the caller,
		// and a path that reads nothing does not report (0, nil) for ever
		var inner []*ssa.Call
		allInstrsH(f, func(in ssa.Instruction) {
			if c, ok := in.(*ssa.Call); ok && c.Call.IsInvoke() && c.Call.Method.Name() == "Read" && len(c.Call.Args) == 1 && onP(c.Call.Args[0]) {
				inner = append(inner, c)
			}
		})
		if len(inner) == 0 && (w.funcKey(f) == "xmpp.(*streamLogger).Read" || w.funcKey(f) == "xmpp.(*XMPPTransport).Read") {
			r.Fail("R5", w.funcKey(f)+"#inner-error", w.pos(f.Pos()), "the wrapper never reads from what it wraps: it reports (0, nil) for ever and the receive loop never sees data or the end of the stream")
		}
		if len(inner) == 1 {
			ic := inner[0]
			badW := ""
			var ev ssa.Value
			for _, rf := range *ic.Referrers() {
				if ex, ok := rf.(*ssa.Extract); ok && ex.Index == 1 {
					ev = ex
				}
			}
			if ev == nil {
				badW = "the error of the wrapped Read is discarded"
			} else {
				walkPaths(after(ic), nil, nil, 20000, func(path []ssa.Instruction, end pathEnd) {
					ret, ok := path[len(path)-1].(*ssa.Return)
					if !ok {
						return
					}
					res := rres(path, ret)[1]
					switch {
					case res == ev:
					case !isNilConst(res) && pathAsserts(path, func(c ssa.Value, truth bool) bool { return assertsNonNil(c, truth, res) }):
						// another failure is reported instead
					case pathAsserts(path, func(c ssa.Value, truth bool) bool { return assertsNil(c, truth, ev) }):
						// the read succeeded
					default:
						badW = "a path from the wrapped Read to the return at " + w.ipos(ret) + " neither returns its error nor has found it nil"
					}
				})
			}
			if badW == "" {
				isIC := func(in ssa.Instruction) bool { return in == ssa.Instruction(ic) }
				walkPaths(entryLoc(f), nil, nil, 20000, func(path []ssa.Instruction, end pathEnd) {
					ret, ok := path[len(path)-1].(*ssa.Return)
					if !ok || countOn(path, isIC) > 0 {
						return
					}
					// no inner read on this path: it must report an error (nothing to read from), not (0, nil)
					res := rres(path, ret)[1]
					if isNilConst(res) {
						badW = "a path of Read returns without reading and without an error (at " + w.ipos(ret) + "): the decoder spins on (0, nil)"
					}
				})
			}
			r.Check(badW == "", "R5", w.funcKey(f)+"#inner-error", w.ipos(ic), "the wrapped Read's outcome does not reach the caller: "+badW+" — a closed or lost connection is never noticed by the receive loop", "inner Read on every successful path; its error returned")
		}
	}
	readWrappersForwardCount(w, r, "R5")
	if nRead < 3 {
		r.Undecided("R5", "module#Read-methods", "-", fmt.Sprintf("%d Read methods found, 3 confirmed by hand", nRead))
	}

	// ---- R7 check-then-use contradiction
	r.Rule("R7", "no value is invoked, dereferenced or indexed on a path that has just found it to be nil (and has not assigned it since): the receive path never panics on a nil transport, handler or queue")
	{
		uses := w.nilUses(w.LibFuncs())
		for _, u := range uses {
			r.Fail("R7", nilUseCons(w, u), w.ipos(u.use), "the branch at "+w.ipos(u.check)+" has found the value nil, and this path goes on to a "+u.what+": a nil pointer panic")
		}
		if len(uses) == 0 {
			r.Ok("R7", "module#nil-then-use", fmt.Sprintf("%d library functions, no use of a value on the nil edge of its own test", len(w.LibFuncs())))
		}
	}

	// ---- R6 value receivers losing updates
	n6 := 0
	for _, f := range w.LibFuncs() {
		recv := f.Signature.Recv()
		if recv == nil {
			continue
		}
		if _, isPtr := recv.Type().(*types.Pointer); isPtr {
			continue
		}
		if _, isStruct := recv.Type().Underlying().(*types.Struct); !isStruct {
			continue
		}
		// the receiver parameter is spilled into a local whose address is passed to pointer-receiver methods
		if len(f.Params) == 0 {
			continue
		}
		rp := f.Params[0]
		var spill *ssa.Alloc
		for _, ref := range *rp.Referrers() {
			if st, ok := ref.(*ssa.Store); ok && st.Val == rp {
				spill, _ = st.Addr.(*ssa.Alloc)
			}
		}
		if spill == nil {
			continue
		}
		for _, ref := range *spill.Referrers() {
			c, ok := ref.(ssa.CallInstruction)
			if !ok {
				continue
			}
			callee := c.Common().StaticCallee()
			if callee == nil || !w.inModule(callee) || len(c.Common().Args) == 0 || c.Common().Args[0] != ssa.Value(spill) {
				continue
			}
			// does the callee (transitively) store to receiver fields?
			if storesToReceiver(w, callee, map[*ssa.Function]bool{}) {
				n6++
				cons := w.funcKey(f) + "→" + w.funcKey(callee)
				r.Fail("R6", cons, w.ipos(c), "a method with a value receiver calls a pointer-receiver method that modifies the receiver: the modification is made to a copy and lost")
			}
		}
	}
	if n6 == 0 {
		r.Ok("R6", "module#value-receiver-mutations", "no value-receiver method mutates its receiver copy through a pointer-receiver helper")
	}
}

// storesToReceiver: fn (a pointer-receiver method) stores to fields reached from its receiver.
func storesToReceiver(w *World, fn *ssa.Function, seen map[*ssa.Function]bool) bool {
	if seen[fn] || fn.Blocks == nil || len(fn.Params) == 0 {
		return false
	}
	seen[fn] = true
	rp := fn.Params[0]
	found := false
	allInstrs(fn, func(in ssa.Instruction) {
		if st, ok := in.(*ssa.Store); ok {
			if fa, ok := st.Addr.(*ssa.FieldAddr); ok && fa.X == ssa.Value(rp) {
				found = true
			}
		}
		if c := asCall(in); c != nil {
			if callee := c.Common().StaticCallee(); callee != nil && w.inModule(callee) && len(c.Common().Args) > 0 && c.Common().Args[0] == ssa.Value(rp) {
				if storesToReceiver(w, callee, seen) {
					found = true
				}
			}
		}
	})
	return found
}

// c05WebsocketReader — R8: the goroutine that feeds the websocket transport's queue ends only when the connection
// fails. The end of one frame (io.EOF from reading the frame's reader) is not the end of the stream: a return after the
// frame read must lie behind `err != io.EOF`.
func c05WebsocketReader(w *World, r *Report) {
	r.Rule("R8", "the websocket reader goroutine does not stop at the end of a frame: every return after the frame-level read lies behind a test that the read's error is not io.EOF (an empty frame, or the normal end of a frame, must not end delivery)")
	sr := w.FuncOpt("xmpp.(WebsocketTransport).startReader")
	if sr == nil {
		sr = w.FuncOpt("xmpp.(*WebsocketTransport).startReader")
	}
	if sr == nil {
		r.Undecided("R8", "xmpp.WebsocketTransport.startReader", "-", "the function that starts the websocket reader was not found")
		return
	}
	var started []*ssa.Function
	allInstrsH(sr, func(in ssa.Instruction) {
		g, ok := in.(*ssa.Go)
		if !ok {
			return
		}
		if callee := g.Call.StaticCallee(); callee != nil && callee.Blocks != nil {
			started = append(started, callee)
		}
	})
	isEOF := func(v ssa.Value) bool {
		u, ok := v.(*ssa.UnOp)
		if !ok || u.Op != token.MUL {
			return false
		}
		g, ok := u.X.(*ssa.Global)
		return ok && g.Name() == "EOF" && g.Pkg != nil && g.Pkg.Pkg.Path() == "io"
	}
	n := 0
	for _, fn := range started {
		allInstrsH(fn, func(in ssa.Instruction) {
			c, ok := in.(*ssa.Call)
			if !ok {
				return
			}
			k := w.callKey(c)
			frameRead := k == "io.ReadFull" || k == "io.ReadAll" || k == "io.ReadAtLeast" || k == "io/ioutil.ReadAll" || (c.Call.IsInvoke() && c.Call.Method.Name() == "Read" && k == "io.Reader.Read")
			if !frameRead {
				return
			}
			ev := errResult(c)
			if ev == nil {
				return
			}
			n++
			bad := ""
			nRet := 0
			// one iteration: until the head of the loop the read lies in is reached again
			heads := map[*ssa.BasicBlock]bool{}
			for _, hb := range c.Parent().Blocks {
				if !hb.Dominates(c.Block()) {
					continue
				}
				for _, pb := range hb.Preds {
					if hb.Dominates(pb) {
						heads[hb] = true
					}
				}
			}
			isC := func(x ssa.Instruction) bool { return x == in || (heads[x.Block()] && x == x.Block().Instrs[0]) }
			walkPaths(after(c), isC, nil, 5000, func(path []ssa.Instruction, end pathEnd) {
				rt, isRet := path[len(path)-1].(*ssa.Return)
				if !isRet {
					return
				}
				nRet++
				notEOF := pathAsserts(path, func(cv ssa.Value, truth bool) bool {
					bo, ok := cv.(*ssa.BinOp)
					if !ok || (bo.Op != token.EQL && bo.Op != token.NEQ) {
						return false
					}
					var other ssa.Value
					switch {
					case isEOF(bo.X):
						other = bo.Y
					case isEOF(bo.Y):
						other = bo.X
					default:
						return false
					}
					if !resolvedEq(other, ev) {
						return false
					}
					return (bo.Op == token.NEQ) == truth
				})
				if !notEOF {
					bad = "the reader goroutine ends (return at " + w.ipos(rt) + ") after a frame read whose error may be io.EOF — the end of a frame, or an empty frame: nothing that arrives afterwards is delivered, and nobody is told"
				}
			})
			r.Check(bad == "", "R8", fmt.Sprintf("%s→%s#%d", w.funcKey(fn), k, n), w.ipos(c), bad, fmt.Sprintf("%d return(s) after the frame read, each behind err != io.EOF", nRet))
		})
	}
	if n == 0 {
		r.Undecided("R8", "xmpp.WebsocketTransport.startReader#frame-read", w.pos(sr.Pos()), "no frame-level read found in the reader goroutine")
	}
}

// readWrappersForwardCount: a Read method that wraps another Read on its own buffer hands on the count of that inner Read whenever it
// hands on its outcome (its error, or success): io.Reader allows n > 0 together with an error, and the last bytes of a stream
// typically arrive that way (shared by C05.R5 and C02.R6).
func readWrappersForwardCount(w *World, r *Report, rule string) int {
	n := 0
	for _, f := range w.LibFuncs() {
		if f.Name() != "Read" || f.Signature.Recv() == nil || f.Signature.Params().Len() != 1 || f.Signature.Results().Len() != 2 || len(f.Blocks) == 0 {
			continue
		}
		if sl, ok := f.Signature.Params().At(0).Type().Underlying().(*types.Slice); !ok || !types.Identical(sl.Elem(), types.Typ[types.Byte]) {
			continue
		}
		p := f.Params[1]
		var inner []*ssa.Call
		allInstrsH(f, func(in ssa.Instruction) {
			if c, ok := in.(*ssa.Call); ok && c.Call.IsInvoke() && c.Call.Method.Name() == "Read" && len(c.Call.Args) == 1 && c.Call.Args[0] == ssa.Value(p) {
				inner = append(inner, c)
			}
		})
		if len(inner) != 1 {
			continue
		}
		ic := inner[0]
		if ic.Parent() != f {
			n++
			r.Ok(rule, w.funcKey(f)+"#inner-count", "the wrapped Read is called in a helper: its outcome is followed by #inner-error only; count clause not decided for this shape")
			continue
		}
		var nv, ev ssa.Value
		for _, rf := range *ic.Referrers() {
			if ex, ok := rf.(*ssa.Extract); ok {
				if ex.Index == 0 {
					nv = ex
				} else {
					ev = ex
				}
			}
		}
		n++
		bad := ""
		nPaths := 0
		walkPaths(after(ic), nil, nil, 20000, func(path []ssa.Instruction, end pathEnd) {
			ret, ok := path[len(path)-1].(*ssa.Return)
			if !ok || bad != "" {
				return
			}
			res := rres(path, ret)
			if len(res) != 2 {
				return
			}
			handsOn := ev != nil && (res[1] == ev || isNilConst(res[1]))
			if !handsOn {
				return // another failure is reported
			}
			nPaths++
			if nv != nil && res[0] == nv {
				return
			}
			// a smaller count is harmless only where the inner count is known to be zero
			zero := nv != nil && pathAsserts(path, func(c ssa.Value, truth bool) bool {
				b, ok := c.(*ssa.BinOp)
				if !ok {
					return false
				}
				isZ := func(v ssa.Value) bool { k, ok := intConst(v); return ok && k == 0 }
				switch {
				case b.X == nv && isZ(b.Y):
					return (b.Op == token.EQL && truth) || (b.Op == token.GTR && !truth) || (b.Op == token.NEQ && !truth) || (b.Op == token.LEQ && truth)
				case b.Y == nv && isZ(b.X):
					return (b.Op == token.EQL && truth) || (b.Op == token.LSS && !truth) || (b.Op == token.NEQ && !truth) || (b.Op == token.GEQ && truth)
				}
				return false
			})
			if !zero {
				bad = "on a path from the wrapped Read to the return at " + w.ipos(ret) + " the count handed on is " + w.nf(res[0], 0) + ", not the count of the wrapped Read: bytes that arrive together with an error (the usual way a stream ends) or in that read are dropped, so the last element is lost or the next one is cut"
			}
		})
		r.Check(bad == "" && nPaths > 0, rule, w.funcKey(f)+"#inner-count", w.ipos(ic), bad, fmt.Sprintf("%d path(s) hand on the wrapped Read's count together with its outcome", nPaths))
	}
	return n
}
