package main

// Source normalisation before loading: a loop that ranges over a literal table of functions
//
//	for _, step := range []func() error{a.first, a.second, func() error { … }} { if err := step(); err != nil { return err } }
//
// is replaced, in the overlay handed to go/packages (never on disk), by its unrolling: the body once per element, with
// the element written where the loop variable was called. The path rules then see the calls in the order in which they
// are made, exactly as in the straight-line form of the same code. The rewriting is semantics-preserving under the
// conditions checked here (elements are function literals, identifiers or selector chains — evaluating them has no
// effect — and neither the body nor the literals assign to an identifier an element starts with); anything else is
// left as it is. //line directives keep the reported positions on the original lines.

import (
	"bytes"
	"fmt"
	"go/ast"
	"go/parser"
	"go/token"
	"os"
	"path/filepath"
	"sort"
	"strings"
)

type textEdit struct {
	from, to int // byte offsets in the file
	text     string
}

// normalizeRepo returns the overlay extended with the normalised form of every library file that contains such a loop.
func normalizeRepo(repo string, overlay map[string][]byte) (map[string][]byte, []string) {
	out := map[string][]byte{}
	for k, v := range overlay {
		out[k] = v
	}
	var notes []string
	filepath.Walk(repo, func(path string, info os.FileInfo, err error) error {
		if err != nil {
			return nil
		}
		base := filepath.Base(path)
		if info.IsDir() {
			if path != repo && (strings.HasPrefix(base, "_") || strings.HasPrefix(base, ".") || base == "testdata" || base == "vendor") {
				return filepath.SkipDir
			}
			return nil
		}
		if !strings.HasSuffix(base, ".go") || strings.HasSuffix(base, "_test.go") {
			return nil
		}
		src, ok := out[path]
		if !ok {
			b, err := os.ReadFile(path)
			if err != nil {
				return nil
			}
			src = b
		}
		if !bytes.Contains(src, []byte("func")) {
			return nil
		}
		cur := src
		changed := false
		if bytes.Contains(src, []byte("go func(")) || bytes.Contains(src, []byte("defer func(")) {
			next, ns := flattenTrampolines(path, cur)
			notes = append(notes, ns...)
			if next != nil {
				cur, changed = next, true
			}
		}
		if !bytes.Contains(src, []byte("range")) {
			if changed {
				out[path] = cur
			}
			return nil
		}
		for pass := 0; pass < 8; pass++ {
			next, note := unrollOnce(path, cur)
			if next == nil {
				break
			}
			// the result must still parse; otherwise the file is left alone
			if _, err := parser.ParseFile(token.NewFileSet(), path, next, parser.SkipObjectResolution); err != nil {
				notes = append(notes, fmt.Sprintf("%s: unrolling abandoned (%v)", path, err))
				cur, changed = src, false
				break
			}
			cur, changed = next, true
			notes = append(notes, note)
		}
		if changed {
			out[path] = cur
		}
		return nil
	})
	sort.Strings(notes)
	return out, notes
}

// unrollOnce rewrites the first eligible loop of the file; nil if there is none.
func unrollOnce(path string, src []byte) ([]byte, string) {
	fset := token.NewFileSet()
	f, err := parser.ParseFile(fset, path, src, parser.ParseComments)
	if err != nil {
		return nil, ""
	}
	off := func(p token.Pos) int { return fset.PositionFor(p, false).Offset }
	line := func(p token.Pos) int { return fset.PositionFor(p, true).Line }
	fname := func(p token.Pos) string { return fset.PositionFor(p, true).Filename }
	text := func(n ast.Node) string { return string(src[off(n.Pos()):off(n.End())]) }

	var result []byte
	note := ""
	nth := 0
	for _, d := range f.Decls {
		fd, ok := d.(*ast.FuncDecl)
		if !ok || fd.Body == nil || result != nil {
			continue
		}
		// every block with its statement list
		ast.Inspect(fd.Body, func(n ast.Node) bool {
			if result != nil {
				return false
			}
			var list []ast.Stmt
			switch b := n.(type) {
			case *ast.BlockStmt:
				list = b.List
			case *ast.CaseClause:
				list = b.Body
			case *ast.CommClause:
				list = b.Body
			default:
				return true
			}
			for si, st := range list {
				label := ""
				if ls, ok := st.(*ast.LabeledStmt); ok {
					label = ls.Label.Name
					st = ls.Stmt
				}
				rs, ok := st.(*ast.RangeStmt)
				if !ok || rs.Tok != token.DEFINE || rs.Value == nil {
					continue
				}
				val, ok := rs.Value.(*ast.Ident)
				if !ok || val.Name == "_" {
					continue
				}
				var key *ast.Ident
				if rs.Key != nil {
					k, ok := rs.Key.(*ast.Ident)
					if !ok {
						continue
					}
					if k.Name != "_" {
						key = k
					}
				}
				// the table: a literal, or a variable of this block assigned once from a literal and used only here
				var lit *ast.CompositeLit
				var declStmt ast.Stmt
				switch x := rs.X.(type) {
				case *ast.CompositeLit:
					lit = x
				case *ast.Ident:
					if x.Obj == nil {
						continue
					}
					for _, prev := range list[:si] {
						switch ps := prev.(type) {
						case *ast.AssignStmt:
							if ps.Tok == token.DEFINE && len(ps.Lhs) == 1 && len(ps.Rhs) == 1 {
								if id, ok := ps.Lhs[0].(*ast.Ident); ok && id.Obj == x.Obj {
									if cl, ok := ps.Rhs[0].(*ast.CompositeLit); ok {
										lit, declStmt = cl, prev
									}
								}
							}
						case *ast.DeclStmt:
							if gd, ok := ps.Decl.(*ast.GenDecl); ok && gd.Tok == token.VAR && len(gd.Specs) == 1 {
								if vs, ok := gd.Specs[0].(*ast.ValueSpec); ok && len(vs.Names) == 1 && len(vs.Values) == 1 && vs.Names[0].Obj == x.Obj {
									if cl, ok := vs.Values[0].(*ast.CompositeLit); ok {
										lit, declStmt = cl, prev
									}
								}
							}
						}
					}
					if lit == nil {
						continue
					}
					uses := 0
					ast.Inspect(fd, func(m ast.Node) bool {
						if id, ok := m.(*ast.Ident); ok && id.Obj == x.Obj {
							uses++
						}
						return true
					})
					if uses != 2 { // the declaration and the range
						continue
					}
				default:
					continue
				}
				at, ok := lit.Type.(*ast.ArrayType)
				if !ok {
					continue
				}
				if _, isFn := at.Elt.(*ast.FuncType); !isFn {
					continue
				}
				if len(lit.Elts) == 0 || len(lit.Elts) > 12 {
					continue
				}
				// elements without effects; the identifiers they start with
				roots := map[string]bool{}
				okElts := true
				for _, e := range lit.Elts {
					switch x := e.(type) {
					case *ast.FuncLit:
					case *ast.Ident:
						roots[x.Name] = true
					case *ast.SelectorExpr:
						r := ast.Expr(x)
						for {
							if s, ok := r.(*ast.SelectorExpr); ok {
								r = s.X
								continue
							}
							break
						}
						id, ok := r.(*ast.Ident)
						if !ok {
							okElts = false
						} else {
							roots[id.Name] = true
						}
					default:
						okElts = false
					}
				}
				if !okElts {
					continue
				}
				// nothing in the body or in the literals assigns to such an identifier
				assigns := false
				chk := func(m ast.Node) bool {
					switch y := m.(type) {
					case *ast.AssignStmt:
						for _, l := range y.Lhs {
							if id, ok := l.(*ast.Ident); ok && roots[id.Name] && y.Tok != token.DEFINE {
								assigns = true
							}
						}
					case *ast.IncDecStmt:
						if id, ok := y.X.(*ast.Ident); ok && roots[id.Name] {
							assigns = true
						}
					case *ast.UnaryExpr:
						if id, ok := y.X.(*ast.Ident); ok && y.Op == token.AND && roots[id.Name] {
							assigns = true // its address is taken: it may be assigned through it
						}
					}
					return true
				}
				ast.Inspect(rs.Body, chk)
				for _, e := range lit.Elts {
					ast.Inspect(e, chk)
				}
				if assigns {
					continue
				}
				// uses of the loop variable and the branch statements that bind to the loop
				type bodyEdit struct {
					from, to int
					kind     string // "call" (the variable, called), "break", "continue"
				}
				var edits []bodyEdit
				onlyCalled := true
				bodyFrom, bodyTo := off(rs.Body.Lbrace)+1, off(rs.Body.Rbrace)
				var walk func(m ast.Node, brk, cont int, inLit bool)
				walk = func(m ast.Node, brk, cont int, inLit bool) {
					if m == nil {
						return
					}
					switch y := m.(type) {
					case *ast.CallExpr:
						if id, ok := y.Fun.(*ast.Ident); ok && id.Obj == val.Obj && !inLit {
							edits = append(edits, bodyEdit{off(id.Pos()), off(id.End()), "call"})
							for _, a := range y.Args {
								walk(a, brk, cont, inLit)
							}
							return
						}
					case *ast.Ident:
						if y.Obj == val.Obj {
							onlyCalled = false
						}
						return
					case *ast.BranchStmt:
						if inLit {
							return
						}
						toLoop := (y.Label == nil && ((y.Tok == token.BREAK && brk == 0) || (y.Tok == token.CONTINUE && cont == 0))) || (y.Label != nil && label != "" && y.Label.Name == label)
						if toLoop && (y.Tok == token.BREAK || y.Tok == token.CONTINUE) {
							edits = append(edits, bodyEdit{off(y.Pos()), off(y.End()), y.Tok.String()})
						}
						return
					case *ast.FuncLit:
						walkChildren(y.Body, func(c ast.Node) { walk(c, 0, 0, true) })
						return
					case *ast.ForStmt, *ast.RangeStmt:
						walkChildren(m, func(c ast.Node) { walk(c, brk+1, cont+1, inLit) })
						return
					case *ast.SwitchStmt, *ast.TypeSwitchStmt, *ast.SelectStmt:
						walkChildren(m, func(c ast.Node) { walk(c, brk+1, cont, inLit) })
						return
					}
					walkChildren(m, func(c ast.Node) { walk(c, brk, cont, inLit) })
				}
				for _, bs := range rs.Body.List {
					walk(bs, 0, 0, false)
				}
				sort.Slice(edits, func(i, j int) bool { return edits[i].from < edits[j].from })
				usesBreak, usesCont := false, false
				for _, e := range edits {
					if e.kind == "break" {
						usesBreak = true
					}
					if e.kind == "continue" {
						usesCont = true
					}
				}
				nth++
				id := fmt.Sprintf("%d_%d", line(rs.Pos()), nth)
				var b strings.Builder
				b.WriteString("{ ")
				if usesBreak {
					fmt.Fprintf(&b, "_unrolled%s: ", id)
				}
				b.WriteString("switch { default:\n")
				bodyLine := line(rs.Body.Lbrace)
				for i, e := range lit.Elts {
					et := text(e)
					if usesCont {
						fmt.Fprintf(&b, "_unrolledStep%s_%d: ", id, i)
					}
					b.WriteString("switch { default:\n")
					if key != nil {
						fmt.Fprintf(&b, "%s := %d; _ = %s\n", key.Name, i, key.Name)
					}
					if !onlyCalled {
						fmt.Fprintf(&b, "%s := %s; _ = %s\n", val.Name, et, val.Name)
					}
					fmt.Fprintf(&b, "//line %s:%d\n", fname(rs.Pos()), bodyLine)
					pos := bodyFrom
					for _, ed := range edits {
						b.Write(src[pos:ed.from])
						switch ed.kind {
						case "call":
							if onlyCalled {
								b.WriteString("(" + et + ")")
							} else {
								b.Write(src[ed.from:ed.to])
							}
						case "break":
							fmt.Fprintf(&b, "break _unrolled%s", id)
						case "continue":
							fmt.Fprintf(&b, "break _unrolledStep%s_%d", id, i)
						}
						pos = ed.to
					}
					b.Write(src[pos:bodyTo])
					b.WriteString("\n}\n")
				}
				b.WriteString("} }\n")
				fmt.Fprintf(&b, "//line %s:%d\n", fname(rs.End()), line(rs.End())+1)
				// assemble: [.. decl) blank [decl end .. loop start) unrolled [loop end ..]
				stmtFrom := off(list[si].Pos())
				stmtTo := off(list[si].End())
				// skip to the end of the line of the loop, so that the //line directive starts a line of its own
				for stmtTo < len(src) && src[stmtTo] != '\n' {
					if src[stmtTo] != ' ' && src[stmtTo] != '\t' && src[stmtTo] != '\r' {
						// something else follows on the loop's last line (a comment, another statement): keep it on a new line
						break
					}
					stmtTo++
				}
				var outb bytes.Buffer
				if declStmt != nil {
					dFrom, dTo := off(declStmt.Pos()), off(declStmt.End())
					outb.Write(src[:dFrom])
					// the declaration disappears; its lines stay (positions of what follows are unchanged)
					outb.WriteString(strings.Repeat("\n", bytes.Count(src[dFrom:dTo], []byte("\n"))))
					outb.Write(src[dTo:stmtFrom])
				} else {
					outb.Write(src[:stmtFrom])
				}
				outb.WriteString(b.String())
				rest := src[stmtTo:]
				if len(rest) > 0 && rest[0] == '\n' {
					rest = rest[1:]
				}
				outb.Write(rest)
				result = outb.Bytes()
				note = fmt.Sprintf("%s:%d: loop over a table of %d functions unrolled", fname(rs.Pos()), line(rs.Pos()), len(lit.Elts))
				return false
			}
			return true
		})
	}
	if result == nil {
		return nil, ""
	}
	return result, note
}

// walkChildren calls f for each direct child of n.
func walkChildren(n ast.Node, f func(ast.Node)) {
	first := true
	ast.Inspect(n, func(c ast.Node) bool {
		if first {
			first = false
			return true
		}
		if c != nil {
			f(c)
		}
		return false
	})
}
