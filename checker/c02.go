package main

// C02 — stream parsing: one packet per top-level element, right kind, total on any bytes.

import (
	"fmt"
	"go/token"
	"go/types"
	"sort"
	"strings"

	"golang.org/x/tools/go/ssa"
)

func init() {
	register(&propDef{
		id: "C02", level: "other", run: runC02,
		trusted: []string{"encoding/xml: DecodeElement(v, &se) and Skip() consume through the end tag matching the current start element; Token returns an error at end of input and on malformed input; struct-tag decoding of tag-driven types never panics; the 'did not consume entire element' check", "bufio/encoding/xml deliver the same token sequence however the bytes are split across reads"},
		explain: "Decides the parts that are in the parser's own code: the two-level dispatch (namespace, then local name) is extracted as a table and each row's result type announces that name in its XMLName tag, every switch falls back to an error (R1); every leaf decoder consumes exactly its element with DecodeElement(&packet, &se) on every path and returns that call's error (R2); in every hand-written UnmarshalXML each child start element is consumed exactly once before the next token on every non-error path — which, by encoding/xml's contract, is what makes `tt == start.End()` correct including for descendants named like the stanza, and what keeps the decoder positioned right after the element for the next packet (R3); every loop makes progress and leaves on a Token error, io.EOF is an error at the top level (R4); the panic-capable instructions in the parser closure are a frozen, justified list (R5). Not decided: segmentation across reads, time and memory inside encoding/xml (trusted), the content of decoded fields (C01).",
	})
}

func runC02(w *World, r *Report, tier string) {
	r.Rule("R1", "dispatch: NextPacket's namespace switch and each decoder's local-name switch form a table (ns, local) → leaf → result type whose XMLName tag names that element; every switch ends in a default that returns a non-nil error")
	r.Rule("R2", "leaf consumption: every leaf decoder calls DecodeElement(&packet, &se) with its own start element exactly once on every path and returns the packet together with that call's error")
	r.Rule("R3", "token-loop discipline: in every hand-written UnmarshalXML each child start element is consumed exactly once (DecodeElement(_, &tt), Skip(), or a consuming callee) on every path to the next Token call or to a nil return")
	r.Rule("R4", "progress: every cycle passes through Token; a Token error leaves the function; NextXmppToken turns io.EOF into an error")
	r.Rule("R5", "panic inventory: explicit panics, unchecked type assertions, indexing/slicing, map stores and integer division in the parser closure are exactly the frozen, justified list")

	r.Rule("R6", "however the bytes are split: a Read method between the connection and the decoder that wraps another Read hands on that Read's byte count whenever it hands on its outcome — bytes delivered together with an error, or in a read whose logging succeeded, belong to the element being read")
	if readWrappersForwardCount(w, r, "R6") < 2 {
		r.Undecided("R6", "module#Read-wrappers", "-", "fewer than the 2 Read wrappers confirmed by hand (streamLogger, XMPPTransport)")
	}

	np := w.Func("stanza.NextPacket")
	r.Anchor("stanza.NextPacket")
	// ---- R1
	type row struct {
		ns, local string
		leaf      *ssa.Function
		T         types.Type
	}
	var rows []row
	leaves := map[*ssa.Function]bool{}
	// switchRows: the dispatch of fn on a name field — a switch (edges asserting load(<path ending in field>) == const,
	// the row being the first static module call in the target block) or a lookup in an effectively constant
	// package-level map of decoder functions.
	type target struct {
		callee *ssa.Function
		call   *ssa.Call // the call that runs the row's decoder (shared by all rows of a table)
	}
	// a function that only forwards to one module function (a closure wrapping a call, a bound method value)
	unwrapTrivial := func(f *ssa.Function) *ssa.Function {
		for i := 0; i < 3 && f != nil; i++ {
			f = w.unwrap(f)
			if f == nil || f.Blocks == nil || len(f.Blocks) != 1 {
				return f
			}
			if f.Parent() == nil && f.Synthetic == "" && !strings.Contains(f.Name(), "$") {
				return f // a named function is a row target in its own right
			}
			var calls []*ssa.Call
			for _, in := range f.Blocks[0].Instrs {
				if c, ok := in.(*ssa.Call); ok {
					calls = append(calls, c)
				}
			}
			if len(calls) != 1 {
				return f
			}
			callee := calls[0].Call.StaticCallee()
			if callee == nil || !w.inModule(callee) || callee.Blocks == nil {
				return f
			}
			// forwards the parameters and returns the results
			if len(f.Params)+len(f.FreeVars) < 2 {
				return f
			}
			f = callee
		}
		return f
	}
	switchRows := func(fn *ssa.Function, field string) (map[string]target, bool) {
		out := map[string]target{}
		var constEdges EdgeSet = EdgeSet{}
		for _, g := range withHelpers(fn) {
			for _, b := range g.Blocks {
				for si := range b.Succs {
					c, truth, isIf := edgeAssertion(b, si)
					if !isIf || !truth {
						continue
					}
					bo, ok := c.(*ssa.BinOp)
					if !ok || bo.Op != token.EQL {
						continue
					}
					s, isS := stringConst(bo.Y)
					fp := fieldPath(bo.X)
					if !isS || len(fp) == 0 || fp[len(fp)-1].Name() != field {
						continue
					}
					constEdges[Edge{b, si}] = true
					for _, in := range b.Succs[si].Instrs {
						if call, ok := in.(*ssa.Call); ok {
							if callee := call.Call.StaticCallee(); callee != nil && w.inModule(callee) {
								// a row's decoder takes the element (start or end); a helper that only builds an error does not
								takesElem := false
								for _, prm := range callee.Params {
									ts := prm.Type().String()
									if isStartElementType(prm.Type()) || strings.HasSuffix(ts, "xml.EndElement") || strings.HasSuffix(ts, "xml.Token") {
										takesElem = true
									}
								}
								if !takesElem && isHelper(callee) {
									continue
								}
								out[s] = target{callee, call}
								break
							}
						}
					}
				}
			}
			// table form
			allInstrs(g, func(in ssa.Instruction) {
				lk, ok := in.(*ssa.Lookup)
				if !ok || !lk.CommaOk {
					return
				}
				fp := fieldPath(lk.Index)
				if len(fp) == 0 || fp[len(fp)-1].Name() != field {
					return
				}
				u, ok := originIn(fn, lk.X).(*ssa.UnOp)
				if !ok {
					return
				}
				gl, ok := u.X.(*ssa.Global)
				if !ok {
					return
				}
				tbl := w.constMapTable(gl)
				if tbl == nil {
					return
				}
				// the call through the looked-up function
				var dyn *ssa.Call
				for _, rf := range *lk.Referrers() {
					if ex, ok := rf.(*ssa.Extract); ok && ex.Index == 0 {
						for _, rf2 := range *ex.Referrers() {
							if c, ok := rf2.(*ssa.Call); ok && c.Call.Value == ssa.Value(ex) {
								dyn = c
							}
						}
					}
					if ex, ok := rf.(*ssa.Extract); ok && ex.Index == 1 {
						for _, bb := range g.Blocks {
							for si := range bb.Succs {
								if cv, truth, isIf := edgeAssertion(bb, si); isIf && cv == ssa.Value(ex) && truth {
									constEdges[Edge{bb, si}] = true
								}
							}
						}
					}
				}
				if dyn == nil {
					return
				}
				for _, e := range tbl {
					if f := unwrapTrivial(funcOfValue(e.Val)); f != nil {
						out[e.Key] = target{f, dyn}
					}
				}
			})
		}
		// default: with the const edges cut, every reachable return is (nil, non-nil error)
		okDefault := len(constEdges) > 0
		n := 0
		walkPaths(entryLoc(fn), nil, func(b *ssa.BasicBlock, succ int) bool { return !constEdges[Edge{b, succ}] }, 5000, func(path []ssa.Instruction, end pathEnd) {
			ret, isRet := path[len(path)-1].(*ssa.Return)
			if !isRet {
				return
			}
			// only the paths that went through the switch's last comparison matter: those asserting all false
			allFalse := false
			pathEdges(path, func(b *ssa.BasicBlock, succ int) {
				if constEdges[Edge{b, 1 - succ}] {
					allFalse = true
				}
			})
			if !allFalse {
				return
			}
			n++
			ev := rres(path, ret)[len(ret.Results)-1]
			if c, ok := ev.(*ssa.Call); !ok || (w.callKey(c) != "errors.New" && w.callKey(c) != "fmt.Errorf" && !alwaysNonNil(c.Call.StaticCallee(), 0)) {
				okDefault = false
			}
			if !isNilConst(rres(path, ret)[0]) {
				okDefault = false
			}
		})
		return out, okDefault && n > 0
	}
	nsRows, nsDefault := switchRows(np, "Space")
	r.Check(nsDefault, "R1", "stanza.NextPacket#default", w.pos(np.Pos()), "an element of an unknown namespace does not make NextPacket return (nil, error)", "unknown namespace ⇒ error")
	var nsKeys []string
	for k := range nsRows {
		nsKeys = append(nsKeys, k)
	}
	sort.Strings(nsKeys)
	for _, ns := range nsKeys {
		dec := nsRows[ns].callee
		// the dispatched start element is NextPacket's own
		localRows, okDef := switchRows(dec, "Local")
		r.Check(okDef, "R1", w.funcKey(dec)+"#default", w.pos(dec.Pos()), "an unknown element name in namespace "+ns+" does not yield (nil, error)", "unknown name ⇒ error")
		var lk []string
		for k := range localRows {
			lk = append(lk, k)
		}
		sort.Strings(lk)
		for _, local := range lk {
			lc := localRows[local].call
			leaf := localRows[local].callee
			hasSE := false
			for _, p := range leaf.Params {
				if isStartElementType(p.Type()) {
					hasSE = true
				}
			}
			if !hasSE {
				continue // end-element branch (</stream:stream>): judged separately below
			}
			leaves[leaf] = true
			T := leaf.Signature.Results().At(0).Type()
			rows = append(rows, row{ns, local, leaf, T})
			cons := fmt.Sprintf("dispatch(%s %s)", ns, local)
			tsp, tl, has := xmlNameTag(T)
			ok := has && tl == local && (tsp == "" || tsp == ns)
			r.Check(ok, "R1", cons, w.ipos(lc), fmt.Sprintf("<%s xmlns='%s'> is decoded by %s into %s, whose XMLName tag announces %q %q: encoding/xml rejects the element ('expected element type …') or a different kind of packet is produced", local, ns, w.funcKey(leaf), w.typeStr(T), tsp, tl), fmt.Sprintf("→ %s → %s (tag %q %q)", w.funcKey(leaf), w.typeStr(T), tsp, tl))
			// the result is returned as is
			retOK := false
			for _, rf := range *lc.Referrers() {
				switch x := rf.(type) {
				case *ssa.Return:
					retOK = true
				case *ssa.Extract:
					for _, rf2 := range *x.Referrers() {
						if _, isMI := rf2.(*ssa.MakeInterface); isMI {
							retOK = true
						}
						if _, isRet := rf2.(*ssa.Return); isRet {
							retOK = true
						}
					}
				}
			}
			r.Check(retOK, "R1", cons+"#returned", w.ipos(lc), "the decoded packet is not what the dispatcher returns", "returned unchanged")
		}
	}
	r.Tables["dispatch_rows"] = len(rows)
	if len(nsRows) < 5 {
		r.Undecided("R1", "stanza.NextPacket#namespaces", w.pos(np.Pos()), fmt.Sprintf("%d namespaces dispatched, 5 confirmed by hand", len(nsRows)))
	}
	r.Floor("R1", 17+5)
	// stream end: an EndElement token reaches decodeStream and yields StreamClosePacket only for </stream>
	// (whichever function produces the stream-close packet: decodeStream today)
	{
		okEnd, nSites := true, 0
		where := w.pos(np.Pos())
		for _, ds := range w.LibFuncs() {
			for _, cc := range w.callsIn(ds, "stanza.streamCloseDecoder.decode") {
				in := cc.(ssa.Instruction)
				nSites++
				where = w.pos(ds.Pos())
				guard := edgesAsserting(ds, func(cv ssa.Value, truth bool) bool {
					bo, ok := cv.(*ssa.BinOp)
					if !ok || bo.Op != token.EQL || !truth {
						return false
					}
					s, isS := stringConst(bo.Y)
					return isS && s == "stream"
				})
				// the guard may sit in the caller that selects this function for an end element
				for _, o := range w.owners(ds) {
					if o == ds {
						continue
					}
					guard = guard.union(edgesAsserting(o, func(cv ssa.Value, truth bool) bool {
						bo, ok := cv.(*ssa.BinOp)
						if !ok || bo.Op != token.EQL || !truth {
							return false
						}
						s, isS := stringConst(bo.Y)
						return isS && s == "stream"
					}))
				}
				root := w.ownerFn(ds)
				if len(guard) == 0 || reachable(entryLoc(root), func(x ssa.Instruction) bool { return x == in }, nil, guard) {
					okEnd = false
				}
			}
		}
		r.Check(okEnd && nSites > 0, "R1", "stanza.decodeStream#stream-close", where, "a stream-close packet can be produced for an end tag that is not </stream>", "StreamClosePacket only for an end element named stream")
	}

	// ---- R2 leaves
	var leafList []*ssa.Function
	for l := range leaves {
		leafList = append(leafList, l)
	}
	sort.Slice(leafList, func(i, j int) bool { return w.funcKey(leafList[i]) < w.funcKey(leafList[j]) })
	for _, leaf := range leafList {
		cons := w.funcKey(leaf)
		bad := ""
		// params: (recv?) p *xml.Decoder, se xml.StartElement
		var pDec, pSE *ssa.Parameter
		for _, p := range leaf.Params {
			if strings.HasSuffix(p.Type().String(), "encoding/xml.Decoder") {
				pDec = p
			}
			if isStartElementType(p.Type()) {
				pSE = p
			}
		}
		if pDec == nil || pSE == nil {
			r.Undecided("R2", cons, w.pos(leaf.Pos()), "the leaf does not take (decoder, start element)")
			continue
		}
		te := newTokenEngine(w)
		_, addrs := te.aliases(leaf, pSE)
		n := 0
		walkPaths(entryLoc(leaf), nil, nil, 1000, func(path []ssa.Instruction, end pathEnd) {
			ret, isRet := path[len(path)-1].(*ssa.Return)
			if !isRet {
				bad = "loop or panic in a leaf decoder"
				return
			}
			n++
			var de *ssa.Call
			cnt := 0
			for _, in := range path {
				if c, ok := in.(*ssa.Call); ok && w.callKey(c) == "encoding/xml.Decoder.DecodeElement" {
					cnt++
					de = c
				}
			}
			if cnt != 1 {
				bad = fmt.Sprintf("%d DecodeElement calls on a path: the element is not consumed exactly once, so the decoder is not positioned after it for the next packet", cnt)
				return
			}
			if de.Call.Args[0] != ssa.Value(pDec) || !addrs[de.Call.Args[2]] {
				bad = "DecodeElement is not called on the given decoder with the dispatched start element"
				return
			}
			// target: &packet, the value returned
			tgt := de.Call.Args[1]
			if mi, ok := tgt.(*ssa.MakeInterface); ok {
				tgt = mi.X
			}
			al, isAl := tgt.(*ssa.Alloc)
			if !isAl {
				bad = "DecodeElement does not decode into a local packet"
				return
			}
			rv := rres(path, ret)[0]
			okRet := rv == ssa.Value(al)
			if u, ok := rv.(*ssa.UnOp); ok && u.X == ssa.Value(al) {
				okRet = true
			}
			if !okRet {
				bad = "the leaf returns something other than the packet it decoded"
			}
			if rres(path, ret)[1] != ssa.Value(de) {
				bad = "the leaf does not return DecodeElement's error: a malformed element is reported as a good packet"
			}
		})
		r.Check(bad == "" && n > 0, "R2", cons, w.pos(leaf.Pos()), bad, "DecodeElement(&packet, &se) once; returns (packet, that error)")
	}
	r.Floor("R2", 14)

	// ---- R3 / R4 token loops
	te := newTokenEngine(w)
	nLoops := 0
	for _, fn := range w.LibFuncs() {
		if fn.Pkg == nil || fn.Pkg.Pkg.Path() != pkgStanza {
			continue
		}
		if fn.Name() != "UnmarshalXML" {
			continue
		}
		findings, npaths, hasLoop := te.checkUnmarshal(fn)
		fk := w.funcKey(fn)
		if !hasLoop {
			// no loop: the method must consume its own start element (delegation), e.g. Node
			idx := -1
			for i, p := range fn.Params {
				if isStartElementType(p.Type()) {
					idx = i
				}
			}
			ok := idx >= 0 && te.consumes(fn, idx)
			r.Check(ok, "R3", fk+"#delegates", w.pos(fn.Pos()), "an UnmarshalXML without a token loop does not consume its element exactly once", "consumes its own start element once (delegation)")
			continue
		}
		nLoops++
		if len(findings) == 0 {
			r.Ok("R3", fk, fmt.Sprintf("%d start-element path(s), each consumes the child exactly once", npaths))
		}
		for _, f := range findings {
			r.Fail("R3", f.construct, f.pos, f.detail)
		}
		if p := te.progress(fn); p != "" {
			r.Fail("R4", fk+"#progress", w.pos(fn.Pos()), p)
		} else {
			r.Ok("R4", fk+"#progress", "every cycle passes through Token; its error leaves the function")
		}
		// end detection: a return that can report success (nil, or an error value not known to be non-nil) happens only
		// on a path that has seen this element's own end tag: tt == start.End()
		endOK := true
		endWhere := ""
		nNil := 0
		isEndCmp := func(cv ssa.Value, truth bool) bool {
			bo, ok := cv.(*ssa.BinOp)
			if !ok || bo.Op != token.EQL || !truth {
				return false
			}
			isEnd := func(v ssa.Value) bool {
				c, ok := rvAny(v).(*ssa.Call)
				return ok && w.callKey(c) == "encoding/xml.StartElement.End"
			}
			return isEnd(bo.X) || isEnd(bo.Y)
		}
		walkLoopExits = true // the loop may end through a flag set where the end tag is recognised
		werr := walkPaths(entryLoc(fn), nil, nil, 100000, func(path []ssa.Instruction, end pathEnd) {
			ret, ok := path[len(path)-1].(*ssa.Return)
			if !ok || end == endCycle || len(ret.Results) != 1 {
				return
			}
			res := rres(path, ret)[0]
			if !isNilConst(res) {
				if te.errorReturn(ret, path) {
					return
				}
			}
			nNil++
			if !pathAsserts(path, isEndCmp) {
				endOK = false
				endWhere = w.ipos(ret) + " returning " + w.nfOn(res, path)
			}
		})
		walkLoopExits = false
		if werr != nil {
			endOK = false
		}
		r.Check(endOK && nNil > 0, "R3", fk+"#end-detection", w.pos(fn.Pos()), "the loop can report success without having seen this element's own end tag (tt == start.End()): "+endWhere, "nil only on tt == start.End()")
	}
	if nLoops < 11 {
		r.Undecided("R3", "stanza#token-loops", "-", fmt.Sprintf("%d hand-written token loops found, 11 confirmed by hand", nLoops))
	}
	// top-level scanners
	for _, k := range []string{"stanza.InitStream", "stanza.NextXmppToken", "stanza.NextStart"} {
		fn := w.Func(k)
		if p := te.progress(fn); p != "" {
			r.Fail("R4", k+"#progress", w.pos(fn.Pos()), p)
		} else {
			r.Ok("R4", k+"#progress", "every cycle passes through Token; its error leaves the function")
		}
	}
	{
		fn := w.Func("stanza.NextXmppToken")
		okEOF := false
		var scanBlocks []*ssa.BasicBlock
		for _, g := range withHelpers(fn) {
			scanBlocks = append(scanBlocks, g.Blocks...)
		}
		for _, b := range scanBlocks {
			for si := range b.Succs {
				c, truth, isIf := edgeAssertion(b, si)
				if !isIf || !truth {
					continue
				}
				bo, ok := c.(*ssa.BinOp)
				if !ok || bo.Op != token.EQL {
					continue
				}
				if !strings.Contains(w.nf(bo.Y, 0), "global:EOF") && !strings.Contains(w.nf(bo.X, 0), "global:EOF") {
					continue
				}
				okEOF = true
				walkPaths(Loc{b.Succs[si], 0}, nil, nil, 100, func(path []ssa.Instruction, end pathEnd) {
					ret, isRet := path[len(path)-1].(*ssa.Return)
					if !isRet {
						okEOF = false
						return
					}
					// (the comparison may sit in a helper that maps the token error: its own single result)
					rr := rres(path, ret)
					if c, ok := rr[len(rr)-1].(*ssa.Call); !ok || w.callKey(c) != "errors.New" {
						okEOF = false
					}
				})
			}
		}
		r.Check(okEOF, "R4", "stanza.NextXmppToken#eof", w.pos(fn.Pos()), "the end of the byte stream is not reported as an error by NextXmppToken", "io.EOF ⇒ errors.New(\"connection closed\")")
		// it returns only start elements and the </stream> end element
		okTok, nTok := true, 0
		walkPaths(entryLoc(fn), nil, nil, 20000, func(path []ssa.Instruction, end pathEnd) {
			ret, ok := path[len(path)-1].(*ssa.Return)
			if !ok || end == endCycle {
				return
			}
			res := rres(path, ret)
			if len(res) != 2 || !isNilConst(res[1]) {
				return
			}
			nTok++
			mi, isMI := res[0].(*ssa.MakeInterface)
			if !isMI {
				okTok = false
				return
			}
			ts := mi.X.Type().String()
			if strings.HasSuffix(ts, "xml.EndElement") {
				if !pathAsserts(path, func(cv ssa.Value, truth bool) bool {
					bo, ok := cv.(*ssa.BinOp)
					if !ok || bo.Op != token.EQL || !truth {
						return false
					}
					s, isS := stringConst(bo.Y)
					return isS && s == "stream"
				}) {
					okTok = false
				}
			} else if !strings.HasSuffix(ts, "xml.StartElement") {
				okTok = false
			}
		})
		if nTok == 0 {
			okTok = false
		}
		r.Check(okTok, "R4", "stanza.NextXmppToken#tokens", w.pos(fn.Pos()), "NextXmppToken can hand back a token that is neither a start element nor the </stream> end tag", "start elements and </stream:stream> only")
	}

	// ---- R5 panic inventory
	c02Panics(w, r, leaves)
}

// frozen table of panic-capable sites in the parser closure, each with the reason it cannot fire.
var c02SafeSites = map[string]string{}

func c02Panics(w *World, r *Report, leaves map[*ssa.Function]bool) {
	var roots []ssa.CallInstruction
	seed := map[*ssa.Function]bool{}
	for _, k := range []string{"stanza.NextPacket", "stanza.InitStream", "stanza.NextStart", "stanza.NextXmppToken"} {
		seed[w.Func(k)] = true
	}
	for _, fn := range w.LibFuncs() {
		if fn.Pkg != nil && fn.Pkg.Pkg.Path() == pkgStanza && (fn.Name() == "UnmarshalXML" || fn.Name() == "UnmarshalXMLAttr" || fn.Name() == "UnmarshalText") {
			seed[fn] = true
		}
	}
	for f := range seed {
		allInstrs(f, func(in ssa.Instruction) {
			if c := asCall(in); c != nil {
				roots = append(roots, c)
			}
		})
	}
	cl := w.closureFrom(roots, nil)
	for f := range seed {
		cl[f] = true
	}
	var fns []*ssa.Function
	for f := range cl {
		if !w.TestSupport[f] {
			fns = append(fns, f)
		}
	}
	sort.Slice(fns, func(i, j int) bool { return w.funcKey(fns[i]) < w.funcKey(fns[j]) })
	r.Tables["R5.closure"] = len(fns)
	n := 0
	cnt := map[string]int{}
	for _, fn := range fns {
		fk := w.funcKey(fn)
		allInstrs(fn, func(in ssa.Instruction) {
			kind, desc := "", ""
			switch x := in.(type) {
			case *ssa.Panic:
				if !x.Pos().IsValid() {
					return // compiler-synthesised (select with no case, etc.)
				}
				kind, desc = "panic", "explicit panic"
			case *ssa.TypeAssert:
				if x.CommaOk {
					return
				}
				kind, desc = "typeassert", "unchecked assertion to "+w.typeStr(x.AssertedType)
			case *ssa.IndexAddr:
				if _, isArr := x.X.Type().Underlying().(*types.Pointer); isArr {
					if _, isC := intConst(x.Index); isC {
						return // constant index into a fixed array literal
					}
				}
				if isRangeIndex(fn, x.Index) {
					return // range-loop index: within bounds by construction
				}
				kind, desc = "index", "index "+w.nf(x.Index, 0)+" into "+w.nf(x.X, 0)
			case *ssa.Index:
				kind, desc = "index", "index into a value"
			case *ssa.Slice:
				if x.Low == nil && x.High == nil && x.Max == nil {
					return
				}
				kind, desc = "slice", "slice expression "+w.nf(x, 0)
			case *ssa.MapUpdate:
				kind, desc = "mapstore", "map store into "+w.nf(x.Map, 0)
			case *ssa.BinOp:
				if (x.Op == token.QUO || x.Op == token.REM) && isIntType(x.Type()) {
					if k, ok := intConst(x.Y); ok && k != 0 {
						return
					}
					kind, desc = "div", "integer division"
				}
			}
			if kind == "" {
				return
			}
			n++
			k := fk + "#" + kind
			cnt[k]++
			cons := fmt.Sprintf("%s#%d", k, cnt[k])
			if why, ok := c02SafeSites[cons]; ok {
				r.Ok("R5", cons, desc+": "+why)
				return
			}
			// an unchecked assertion whose operand is, on every feasible path, a value of exactly the asserted type
			if ta, ok := in.(*ssa.TypeAssert); ok && kind == "typeassert" {
				okAll, nP := true, 0
				isIt := func(x ssa.Instruction) bool { return x == in }
				err := walkPaths(entryLoc(w.ownerFn(fn)), isIt, nil, 20000, func(path []ssa.Instruction, end pathEnd) {
					if !isIt(path[len(path)-1]) {
						return
					}
					nP++
					v := resolveOn(ta.X, len(path)-1, path)
					mi, isMI := v.(*ssa.MakeInterface)
					if !isMI || !types.Identical(mi.X.Type(), ta.AssertedType) {
						okAll = false
					}
				})
				if err == nil && okAll && nP > 0 {
					r.Ok("R5", cons, desc+fmt.Sprintf(": on all %d feasible path(s) the operand is a value of exactly that type", nP))
					return
				}
			}
			// guarded index: dominated by a length test on the same slice
			if kind == "index" {
				if ia, ok := in.(*ssa.IndexAddr); ok && indexGuarded(w, fn, ia) {
					r.Ok("R5", cons, desc+": dominated by a length test of the same slice")
					return
				}
			}
			r.Fail("R5", cons, w.ipos(in), "a panic-capable instruction on the parsing path that is not in the justified list: "+desc+" — malformed or unexpected input must yield an error, never a panic")
		})
	}
	r.Tables["R5.sites"] = n
	if n == 0 {
		r.Ok("R5", "stanza#parser-closure", fmt.Sprintf("%d functions in the parser closure, no panic-capable instruction of the listed kinds", len(fns)))
	}
}

func isIntType(t types.Type) bool {
	b, ok := t.Underlying().(*types.Basic)
	return ok && b.Info()&types.IsInteger != 0
}

func isRangeIndex(fn *ssa.Function, idx ssa.Value) bool {
	for _, l := range findRangeLoops(fn) {
		if l.idx == idx {
			return true
		}
	}
	return false
}

// indexGuarded: x[i] with constant i, dominated by an edge asserting len(x) > i (or == k with k > i, != 0 for i == 0 …).
func indexGuarded(w *World, fn *ssa.Function, ia *ssa.IndexAddr) bool {
	i, isC := intConst(ia.Index)
	if !isC {
		return false
	}
	base := w.nf(ia.X, 0)
	guard := edgesAsserting(fn, func(c ssa.Value, truth bool) bool {
		bo, ok := c.(*ssa.BinOp)
		if !ok {
			return false
		}
		lc, ok := bo.X.(*ssa.Call)
		if !ok || w.callKey(lc) != "builtin.len" || w.nf(lc.Call.Args[0], 0) != base {
			return false
		}
		k, isK := intConst(bo.Y)
		if !isK {
			return false
		}
		switch bo.Op {
		case token.EQL:
			return (truth && k > i) || (!truth && k == 0 && i == 0 && false)
		case token.NEQ:
			return (truth && k == 0 && i == 0) || (!truth && k > i)
		case token.GTR:
			return truth && k >= i
		case token.GEQ:
			return truth && k > i
		case token.LSS:
			return !truth && k > i
		case token.LEQ:
			return !truth && k >= i
		}
		return false
	})
	return len(guard) > 0 && !reachable(entryLoc(fn), func(in ssa.Instruction) bool { return in == ssa.Instruction(ia) }, nil, guard)
}
