package main

// C07 — IQ responses reach the SendIQ caller exactly once; races harmless.

import (
	"fmt"
	"go/token"
	"go/types"

	"golang.org/x/tools/go/ssa"
)

func init() {
	register(&propDef{
		id: "C07", level: "other", run: runC07,
		trusted: []string{"sync.RWMutex provides mutual exclusion", "a send on a channel with free buffer space does not block"},
		explain: "Decides the lock-region, ordering and blocking facts that are necessary for every schedule: the lookup that claims a pending entry and the delete that removes it lie in one write-locked critical section (R1: otherwise two goroutines can both claim it and the second sends on / closes a closed channel); the delivery cannot block the routing goroutine (R2: buffered channel or a select with the request context); the pending entry is registered before the request is written (R3: a response can arrive as soon as the bytes are out); on the claimed path delete, send and close happen exactly once in that order and the ordinary routes are not run (R4); the context watcher removes only its own entry (R5: clashing ids); every access to the pending table holds its lock and every acquire is released on all exits (R6). Not decided: linearizability of arbitrary interleavings; liveness when the application never cancels its context.",
	})
}

func runC07(w *World, r *Report, tier string) {
	r.Rule("R1", "atomic claim: in Router.route the map lookup of the pending entry and its delete lie in the same critical section of IQResultRouteLock, held for writing")
	r.Rule("R2", "non-blocking delivery: every send on IQResultRoute.result is on a channel created with capacity >= 1 or is a select case next to the request context's Done()")
	r.Rule("R3", "register before write: in Client.SendIQ and Component.SendIQ the registration of the pending route dominates the write of the request")
	r.Rule("R4", "delivery sequence: on the claimed path delete, send and close occur exactly once, in that order, then return; Match/HandlePacket are not reached")
	r.Rule("R5", "cleanup identity: the context watcher deletes the entry only under the test IQResultRoutes[id] == route")
	r.Rule("R6", "lock discipline: every access to Router.IQResultRoutes holds IQResultRouteLock (write lock for updates/deletes); every acquire is released on every exit")

	route := w.Func("xmpp.(*Router).route")
	fMap := w.Field("xmpp.Router.IQResultRoutes")
	fLock := w.Field("xmpp.Router.IQResultRouteLock")
	fResult := w.Field("xmpp.IQResultRoute.result")
	r.Anchor("xmpp.(*Router).route")
	lib := w.LibFuncs()

	// (the table may reach a function literal as the argument of the helper that runs it under the lock)
	isMapLoadVal := func(v ssa.Value) bool {
		if f, _ := loadedField(v); f == fMap {
			return true
		}
		f, _ := loadedField(origin(v))
		return f == fMap
	}

	// map accesses in the whole module
	type macc struct {
		fn   *ssa.Function
		in   ssa.Instruction
		kind string // lookup | update | delete | range | other
	}
	var accs []macc
	for _, f := range lib {
		allInstrs(f, func(in ssa.Instruction) {
			switch x := in.(type) {
			case *ssa.Lookup:
				if isMapLoadVal(x.X) {
					accs = append(accs, macc{f, in, "lookup"})
				}
			case *ssa.MapUpdate:
				if isMapLoadVal(x.Map) {
					accs = append(accs, macc{f, in, "update"})
				}
			case *ssa.Range:
				if isMapLoadVal(x.X) {
					accs = append(accs, macc{f, in, "range"})
				}
			case *ssa.Call:
				if w.callKey(x) == "builtin.delete" && isMapLoadVal(x.Call.Args[0]) {
					accs = append(accs, macc{f, in, "delete"})
				} else if w.callKey(x) == "builtin.len" && isMapLoadVal(x.Call.Args[0]) {
					accs = append(accs, macc{f, in, "lookup"})
				}
			case *ssa.Store:
				if fa, ok := x.Addr.(*ssa.FieldAddr); ok && fieldOfAddr(fa) == fMap && !isFreshAllocAddr(fa.X) {
					accs = append(accs, macc{f, in, "update"})
				}
			}
		})
	}
	lockInfos := map[*ssa.Function]*lockInfo{}
	li := func(f *ssa.Function) *lockInfo {
		if lockInfos[f] == nil {
			lockInfos[f] = analyseLocks(w, f, fLock)
		}
		return lockInfos[f]
	}
	// R6
	cnt := map[string]int{}
	for _, a := range accs {
		k := w.funcKey(a.fn) + "#" + a.kind
		cnt[k]++
		cons := fmt.Sprintf("%s#%d", k, cnt[k])
		st := li(a.fn).at[a.in]
		need := 1
		if a.kind == "update" || a.kind == "delete" {
			need = 2
		}
		r.Check(st.mode >= need, "R6", cons, w.ipos(a.in), fmt.Sprintf("the pending-request table is accessed (%s) without holding IQResultRouteLock%s", a.kind, map[int]string{1: "", 2: " for writing"}[need]), "lock held")
	}
	r.Floor("R6", 4)
	for f, l := range lockInfos {
		for _, is := range l.issues {
			r.Fail("R6", w.funcKey(f)+"#pairing", w.pos(f.Pos()), is)
		}
	}
	// pairing for every function that touches the lock at all
	for _, f := range lib {
		uses := false
		allInstrs(f, func(in ssa.Instruction) {
			if c := asCall(in); c != nil {
				if m, op := mutexCall(w, c); m == fLock && op != "" {
					uses = true
				}
			}
		})
		if uses {
			l := li(f)
			if len(l.issues) == 0 {
				r.Ok("R6", w.funcKey(f)+"#pairing", fmt.Sprintf("%d acquire(s), each released on every exit", l.nAcq))
			} else if _, done := lockInfos[f]; !done {
				for _, is := range l.issues {
					r.Fail("R6", w.funcKey(f)+"#pairing", w.pos(f.Pos()), is)
				}
			}
		}
	}

	// R1: in route (or in a helper that runs only on its behalf)
	routeKey := "xmpp.(*Router).route"
	var lookups, deletes []macc
	for _, a := range accs {
		if !w.ownedOnlyBy(a.fn, routeKey) {
			continue
		}
		if a.kind == "lookup" {
			lookups = append(lookups, a)
		}
		if a.kind == "delete" {
			deletes = append(deletes, a)
		}
	}
	if len(lookups) == 0 || len(deletes) == 0 {
		r.Undecided("R1", "xmpp.(*Router).route#claim", w.pos(route.Pos()), fmt.Sprintf("expected a lookup and a delete of the pending entry in route, found %d/%d", len(lookups), len(deletes)))
	} else {
		for i, d := range deletes {
			cons := fmt.Sprintf("xmpp.(*Router).route#claim#%d", i+1)
			ok := false
			rl := li(d.fn)
			for _, l := range lookups {
				if l.fn == d.fn && rl.sameRegion(l.in, d.in) && rl.holdsW(l.in) && rl.holdsW(d.in) {
					ok = true
				}
			}
			r.Check(ok, "R1", cons, w.ipos(d.in), "the lookup that finds the pending entry and the delete that removes it are in different critical sections (or not write-locked): two goroutines routing responses with the same id can both claim the entry; the second sends on and closes an already closed channel (panic)", "lookup and delete in one write-locked section")
		}
	}

	// R2: sends on result
	nSend := 0
	for _, f := range lib {
		allInstrs(f, func(in ssa.Instruction) {
			var ch ssa.Value
			inSelect := false
			switch x := in.(type) {
			case *ssa.Send:
				ch = x.Chan
			case *ssa.Select:
				for _, st := range x.States {
					if st.Dir == types.SendOnly {
						if fl, _ := loadedField(chanOrigin(st.Chan)); fl == fResult {
							ch = st.Chan
							inSelect = true
							// needs a Done() alternative or default
							okAlt := !x.Blocking
							for _, st2 := range x.States {
								if st2.Dir == types.RecvOnly {
									if c, _ := callResult(st2.Chan); c != nil && w.callKey(c) == "context.Context.Done" {
										okAlt = true
									}
								}
							}
							nSend++
							r.Check(okAlt, "R2", fmt.Sprintf("%s#select-send:result#%d", w.funcKey(f), nSend), w.ipos(in), "the select that delivers the response has no context/default alternative", "select with ctx.Done() or default")
						}
					}
				}
				return
			default:
				return
			}
			if inSelect {
				return
			}
			if fl, _ := loadedField(chanOrigin(ch)); fl != fResult {
				return
			}
			nSend++
			cons := fmt.Sprintf("%s#send:result#%d", w.funcKey(f), nSend)
			capv, known := chanMake(w, ch)
			r.Check(known && capv >= 1, "R2", cons, w.ipos(in), "bare send on an unbuffered result channel: if the SendIQ caller has given up (context expired, channel abandoned) the routing goroutine blocks forever — in a component, where route runs inside the receive loop, all packet processing stops", fmt.Sprintf("channel capacity %d", capv))
		})
	}
	if nSend == 0 {
		r.Undecided("R2", "send:result", "-", "no delivery site found")
	}

	// R3
	for _, k := range []string{"xmpp.(*Client).SendIQ", "xmpp.(*Component).SendIQ"} {
		f := w.Func(k)
		regs := w.callsInH(f, "xmpp.Router.NewIQResultRoute")
		sends := w.callsInH(f, "xmpp.Client.Send", "xmpp.Component.Send", "xmpp.Client.SendRaw", "xmpp.Component.SendRaw", "xmpp.Client.sendWithWriter", "xmpp.Component.sendWithWriter")
		if len(regs) != 1 || len(sends) != 1 {
			r.Undecided("R3", k, w.pos(f.Pos()), fmt.Sprintf("expected one registration and one send, found %d/%d", len(regs), len(sends)))
			continue
		}
		// registration dominates the send
		ok, _ := mustPass(entryLoc(f), func(in ssa.Instruction) bool { return in == sends[0].(ssa.Instruction) }, func(in ssa.Instruction) bool { return in == regs[0].(ssa.Instruction) }, nil)
		r.Check(ok, "R3", k, w.ipos(sends[0]), "the request is written before the pending route is registered: a response that arrives immediately finds no entry, goes to the ordinary routes and the caller waits forever", "NewIQResultRoute dominates Send")
		// same id registered as sent
		idOK := false
		if len(regs[0].Common().Args) == 3 {
			fp := fieldNames(fieldPath(regs[0].Common().Args[2]))
			idOK = fp == "Attrs.Id" || fp == "Id"
		}
		r.Check(idOK, "R3", k+"#id", w.ipos(regs[0]), "the pending route is not registered under the request's id", "registered under iq.Attrs.Id")
		// a request that could not be written is not left pending
		if sc, ok := sends[0].(*ssa.Call); ok {
			badRB := ""
			nFail := 0
			isUnreg := func(in ssa.Instruction) bool {
				cc := asCall(in)
				if cc == nil {
					return false
				}
				callee := cc.Common().StaticCallee()
				if callee == nil {
					return false
				}
				for _, a := range accs {
					if a.kind != "delete" {
						continue
					}
					for _, hf := range withHelpers(callee) { // the delete may sit in a literal run under a lock helper
						if a.fn == hf {
							return true
						}
					}
				}
				return false
			}
			walkPaths(after(sc), nil, nil, 5000, func(path []ssa.Instruction, end pathEnd) {
				if _, isRet := path[len(path)-1].(*ssa.Return); !isRet {
					return
				}
				if !pathAsserts(path, func(c ssa.Value, truth bool) bool { return assertsNonNil(c, truth, sc) }) {
					return
				}
				nFail++
				if countOn(path, isUnreg) == 0 {
					badRB = "when the request cannot be written its pending route stays registered: the caller got an error, but a later packet with that id is still taken for its response"
				}
			})
			r.Check(badRB == "" && nFail > 0, "R3", k+"#rollback", w.ipos(sc), badRB, "failed send ⇒ the route is unregistered")
		}
	}

	// R4: delivery sequence on the claimed path
	if len(lookups) > 0 {
		lk := lookups[0].in.(*ssa.Lookup)
		var okV ssa.Value
		for _, rf := range *lk.Referrers() {
			if ex, ok := rf.(*ssa.Extract); ok && ex.Index == 1 {
				okV = ex
			}
		}
		isDel := func(in ssa.Instruction) bool {
			for _, d := range deletes {
				if d.in == in {
					return true
				}
			}
			return false
		}
		isSendRes := func(in ssa.Instruction) bool {
			s, ok := in.(*ssa.Send)
			if !ok {
				if sel, ok := in.(*ssa.Select); ok {
					for _, st := range sel.States {
						if fl, _ := loadedField(chanOrigin(st.Chan)); fl == fResult && st.Dir == types.SendOnly {
							return true
						}
					}
				}
				return false
			}
			fl, _ := loadedField(chanOrigin(s.Chan))
			return fl == fResult
		}
		isCloseRes := func(in ssa.Instruction) bool {
			c := asCall(in)
			if c == nil || w.callKey(c) != "builtin.close" {
				return false
			}
			fl, _ := loadedField(chanOrigin(c.Common().Args[0]))
			return fl == fResult
		}
		isOrdinary := w.isCallTo("xmpp.Router.Match", "xmpp.Handler.HandlePacket", "xmpp.iqNotImplemented")
		bad := ""
		n := 0
		if okV == nil {
			r.Undecided("R4", "xmpp.(*Router).route#claimed-path", w.ipos(lk), "the lookup is not a comma-ok lookup")
		} else {
			chOnPath := map[ssa.Instruction]bool{}
			err := walkPaths(after(lk), nil, func(b *ssa.BasicBlock, succ int) bool {
				c, truth, ok := edgeAssertion(b, succ)
				if ok && (c == okV || rvLast(c) == okV) {
					return truth // follow only ok == true
				}
				return true
			}, 20000, func(path []ssa.Instruction, end pathEnd) {
				n++
				nd, nsd, nc := countOn(path, isDel), countOn(path, isSendRes), countOn(path, isCloseRes)
				if nd != 1 || nsd != 1 || nc != 1 {
					bad = fmt.Sprintf("claimed path has %d delete(s), %d send(s), %d close(s)", nd, nsd, nc)
					return
				}
				if !(indexOn(path, isDel) < indexOn(path, isSendRes) && indexOn(path, isSendRes) < indexOn(path, isCloseRes)) {
					bad = "delete, send and close are not in that order"
				}
				if countOn(path, isOrdinary) > 0 {
					bad = "after delivering the response the packet is also handed to the ordinary routes"
				}
				if _, ok := path[len(path)-1].(*ssa.Return); !ok || end == endCycle {
					bad = "the claimed path does not end in a return"
				}
				// the channel sent on, as this path determines it (the claimed entry may travel through a variable a
				// function literal assigns)
				forPath(path, func(i int, in ssa.Instruction) {
					if s, ok := in.(*ssa.Send); ok && isSendRes(in) {
						if _, base := loadedField(chanOrigin(s.Chan)); base != nil {
							if ex, ok := resolveOn(base, i, path).(*ssa.Extract); ok && ex.Tuple == ssa.Value(lk) && ex.Index == 0 {
								chOnPath[in] = true
							}
						}
					}
				})
			})
			if err != nil {
				r.Undecided("R4", "xmpp.(*Router).route#claimed-path", w.ipos(lk), err.Error())
			} else {
				r.Check(bad == "" && n > 0, "R4", "xmpp.(*Router).route#claimed-path", w.ipos(lk), bad, fmt.Sprintf("%d path(s): delete ≺ send ≺ close, once each, then return", n))
			}
			// the value sent is the routed IQ; the channel is the claimed entry's
			allInstrsH(route, func(in ssa.Instruction) {
				if s, ok := in.(*ssa.Send); ok && isSendRes(in) {
					okVal := false
					if u, ok := s.X.(*ssa.UnOp); ok && u.Op == token.MUL {
						if T, _ := typeAssertSource(origin(u.X), nil); T != nil && w.typeStr(T) == "*stanza.IQ" {
							okVal = true
						}
					}
					_, base := loadedField(chanOrigin(s.Chan))
					okCh := false
					if ex, ok := originNN(base).(*ssa.Extract); ok && ex.Tuple == ssa.Value(lk) && ex.Index == 0 {
						okCh = true
					}
					if chOnPath[in] {
						okCh = true
					}
					r.Check(okVal && okCh, "R4", "xmpp.(*Router).route#delivered-value", w.ipos(in), "the value delivered is not the routed IQ, or the channel is not the claimed entry's", "sends *iq on the claimed entry's channel")
				}
			})
		}
	}

	// R5: cleanup identity — every removal other than route's claim (the context watcher, the roll-back of a request
	// that could not be written) removes the entry only if it is still the one it registered
	nWatch := 0
	rootOfAccess := func(v ssa.Value) ssa.Value {
		for i := 0; i < 8; i++ {
			switch x := v.(type) {
			case *ssa.UnOp:
				if x.Op != token.MUL {
					return v
				}
				v = x.X
			case *ssa.FieldAddr:
				v = x.X
			case *ssa.Field:
				v = x.X
			case *ssa.Extract:
				if l, ok := x.Tuple.(*ssa.Lookup); ok {
					return l
				}
				return v
			default:
				return v
			}
		}
		return v
	}
	for _, a := range accs {
		if a.kind != "delete" || w.ownedOnlyBy(a.fn, routeKey) {
			continue
		}
		nWatch++
		cons := w.funcKey(a.fn) + "#delete"
		guard := edgesAsserting(a.fn, func(c ssa.Value, truth bool) bool {
			bo, ok := c.(*ssa.BinOp)
			if !ok || (bo.Op != token.EQL && bo.Op != token.NEQ) {
				return false
			}
			isLk := func(v ssa.Value) bool {
				l, ok := rootOfAccess(v).(*ssa.Lookup)
				return ok && isMapLoadVal(l.X)
			}
			isOwn := func(v ssa.Value) bool {
				switch rootOfAccess(v).(type) {
				case *ssa.FreeVar, *ssa.Parameter:
					return true
				}
				return false
			}
			if !((isLk(bo.X) && isOwn(bo.Y)) || (isLk(bo.Y) && isOwn(bo.X))) {
				return false
			}
			return (bo.Op == token.EQL) == truth
		})
		ok := len(guard) > 0 && !reachable(entryLoc(a.fn), func(in ssa.Instruction) bool { return in == a.in }, nil, guard)
		r.Check(ok, "R5", cons, w.ipos(a.in), "when a request's context ends its watcher deletes whatever entry is registered under that id — also the entry of a newer request that reuses the id, whose response is then routed to the ordinary handlers and never delivered (history: SendIQ(id=x) answered; SendIQ(id=x) again; first context expires; second response arrives)", "delete guarded by IQResultRoutes[id] == the caller's own route")
	}
	// a request whose context ends stops being pending: NewIQResultRoute starts a goroutine that waits for the context and
	// removes the entry (so that a late response is routed like any other packet)
	{
		nir := w.Func("xmpp.(*Router).NewIQResultRoute")
		okW := false
		allInstrsH(nir, func(in ssa.Instruction) {
			g, ok := in.(*ssa.Go)
			if !ok {
				return
			}
			var started *ssa.Function
			if callee := g.Call.StaticCallee(); callee != nil {
				started = callee
			} else if mc, ok := g.Call.Value.(*ssa.MakeClosure); ok {
				started, _ = mc.Fn.(*ssa.Function)
			}
			if started == nil {
				return
			}
			waits, removes := false, false
			allInstrsH(started, func(x ssa.Instruction) {
				if u, ok := x.(*ssa.UnOp); ok && u.Op.String() == "<-" {
					if cc, ok := chanOrigin(u.X).(*ssa.Call); ok && w.callKey(cc) == "context.Context.Done" {
						waits = true
					}
				}
				if sel, ok := x.(*ssa.Select); ok {
					for _, st := range sel.States {
						if cc, ok := chanOrigin(st.Chan).(*ssa.Call); ok && w.callKey(cc) == "context.Context.Done" {
							waits = true
						}
					}
				}
			})
			for _, a := range accs {
				if a.kind == "delete" {
					for _, hf := range withHelpers(started) {
						if a.fn == hf {
							removes = true
						}
					}
				}
			}
			if waits && removes {
				okW = true
			}
		})
		r.Check(okW, "R5", "xmpp.(*Router).NewIQResultRoute#watcher", w.pos(nir.Pos()), "no goroutine waits for the request's context and unregisters the pending entry: after a timeout the entry stays for ever and a late response is delivered to a channel nobody reads instead of being routed like any other packet", "go: <-ctx.Done(); guarded delete")
	}
	if nWatch == 0 {
		r.Undecided("R5", "watcher#delete", "-", "no cleanup goroutine found")
	}
}

// iqClaimAtomic (C07.R1; shared as C05.R9): in Router.route — or in helpers and literals that run only on its behalf —
// every delete of a pending IQ entry lies in the same write-locked critical section as a lookup of it. Two responses
// with the same id that both find the entry would both send on and close its channel: the second one panics.
func iqClaimAtomic(w *World, r *Report, rule string) {
	fMap := w.Field("xmpp.Router.IQResultRoutes")
	fLock := w.Field("xmpp.Router.IQResultRouteLock")
	routeKey := "xmpp.(*Router).route"
	route := w.Func(routeKey)
	isMap := func(v ssa.Value) bool {
		if f, _ := loadedField(v); f == fMap {
			return true
		}
		f, _ := loadedField(origin(v))
		return f == fMap
	}
	type acc struct {
		fn *ssa.Function
		in ssa.Instruction
	}
	var lookups, deletes []acc
	for _, f := range w.LibFuncs() {
		if !w.ownedOnlyBy(f, routeKey) {
			continue
		}
		allInstrs(f, func(in ssa.Instruction) {
			switch x := in.(type) {
			case *ssa.Lookup:
				if isMap(x.X) {
					lookups = append(lookups, acc{f, in})
				}
			case *ssa.Call:
				if w.callKey(x) == "builtin.delete" && isMap(x.Call.Args[0]) {
					deletes = append(deletes, acc{f, in})
				}
			}
		})
	}
	// a removal delegated to a function shared with other callers (removeIQResultRoute) is a delete as well
	allInstrsH(route, func(in ssa.Instruction) {
		c, ok := in.(*ssa.Call)
		if !ok {
			return
		}
		callee := c.Call.StaticCallee()
		if callee == nil || callee.Blocks == nil || !w.inModule(callee) || w.ownedOnlyBy(callee, routeKey) {
			return
		}
		deletesMap := false
		for _, hf := range withHelpers(callee) {
			allInstrs(hf, func(x ssa.Instruction) {
				if cc, ok := x.(*ssa.Call); ok && w.callKey(cc) == "builtin.delete" && isMap(cc.Call.Args[0]) {
					deletesMap = true
				}
			})
		}
		if deletesMap {
			deletes = append(deletes, acc{c.Parent(), in})
		}
	})
	if len(lookups) == 0 || len(deletes) == 0 {
		r.Undecided(rule, routeKey+"#claim", w.pos(route.Pos()), fmt.Sprintf("expected a lookup and a delete of the pending entry in route, found %d/%d", len(lookups), len(deletes)))
		return
	}
	lis := map[*ssa.Function]*lockInfo{}
	li := func(f *ssa.Function) *lockInfo {
		if lis[f] == nil {
			lis[f] = analyseLocks(w, f, fLock)
		}
		return lis[f]
	}
	for i, d := range deletes {
		ok := false
		rl := li(d.fn)
		for _, l := range lookups {
			if l.fn == d.fn && rl.sameRegion(l.in, d.in) && rl.holdsW(l.in) && rl.holdsW(d.in) {
				ok = true
			}
		}
		r.Check(ok, rule, fmt.Sprintf("%s#claim#%d", routeKey, i+1), w.ipos(d.in), "the lookup that finds the pending entry and the delete that removes it are in different critical sections (or not write-locked): two goroutines routing responses with the same id can both claim the entry; the second sends on and closes an already closed channel (panic)", "lookup and delete in one write-locked section")
	}
}
