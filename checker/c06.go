package main

// C06 — the router runs only the first matching route; unhandled IQ requests get one error.

import (
	"fmt"
	"go/token"
	"go/types"
	"strings"

	"golang.org/x/tools/go/ssa"
)

func init() {
	register(&propDef{
		id: "C06", level: "other", run: runC06,
		trusted: []string{"range over a slice visits elements in ascending index order", "string equality"},
		explain: "The route table and the packet only select paths through three loops and two switches; the control structure that makes the statement hold for every table and packet is decided: Router.Match ranges ascending over the routes and returns true at the first route whose Match is true, false only after the loop (R1); Route.Match returns false at the first matcher that says no without touching the match record, and fills it with this route's handler only after all matchers agreed — so a route without matchers matches (R2); Router.route calls exactly one HandlePacket, that of the matched route, with the routed sender and packet, and none when nothing matched (R3); the three matchers compute, per dynamic packet type, exactly the documented name / type (\"normal\" for an untyped message) / payload namespace and compare it by equality with the configured values (R4); the automatic reply is reachable only for an unmatched *IQ of type get or set, is sent exactly once, is the request turned around (from/to swapped, type error, id untouched) with condition feature-not-implemented (R5); no other send is reachable from route (R6).",
	})
}

func runC06(w *World, r *Report, tier string) {
	r.Rule("R1", "first match wins: Router.Match ranges over r.routes ascending; the true-edge of route.Match returns true without another Route.Match call; false is returned only from the loop exit")
	r.Rule("R2", "conjunction: in Route.Match a false from any Matcher.Match returns false without storing match.Route/Handler; the stores happen only after the loop, with r and r.handler; then true")
	r.Rule("R3", "one handler: below the IQ-result block Router.route calls HandlePacket(s, p) of match.Handler exactly once on the matched path and returns; none on the unmatched path")
	r.Rule("R4", "matcher tables: nameMatcher, nsTypeMatcher, nsIQMatcher compute the documented key per packet type and compare by equality; matchInArray returns true only from an equality with an element")
	r.Rule("R5", "automatic error: iqNotImplemented is reachable only for an unmatched *IQ with Type get or set; it sends iq.MakeError(feature-not-implemented) exactly once; MakeError swaps from/to, sets type error, never stores Id")
	r.Rule("R6", "no other reply: the only sends reachable from Router.route are iqNotImplemented→Send and, under the SMAnswer guard, SendMissingStz")

	// ---- R1
	rm := w.Func("xmpp.(*Router).Match")
	// ascendingFrom0: v is the index of a loop that visits 0, 1, 2, … (a range index, or i := 0; …; i++)
	ascendingFrom0 := func(v ssa.Value) bool {
		if inc, ok := v.(*ssa.BinOp); ok && inc.Op == token.ADD {
			if one, isOne := intConst(inc.Y); isOne && one == 1 {
				if phi, ok := inc.X.(*ssa.Phi); ok && len(phi.Edges) == 2 {
					m1, back := false, false
					for _, e := range phi.Edges {
						if k, ok := intConst(e); ok && k == -1 {
							m1 = true
						}
						if e == ssa.Value(inc) {
							back = true
						}
					}
					return m1 && back
				}
			}
		}
		if phi, ok := v.(*ssa.Phi); ok && len(phi.Edges) == 2 {
			zero, step := false, false
			for _, e := range phi.Edges {
				if k, ok := intConst(e); ok && k == 0 {
					zero = true
				}
				if inc, ok := e.(*ssa.BinOp); ok && inc.Op == token.ADD && inc.X == ssa.Value(phi) {
					if one, isOne := intConst(inc.Y); isOne && one == 1 {
						step = true
					}
				}
			}
			return zero && step
		}
		return false
	}
	// elemOfField: v is s[i] with i ascending from 0 and s the receiver's field of that name (possibly through a local copy)
	elemOfField := func(v ssa.Value, field string) bool {
		u, ok := v.(*ssa.UnOp)
		if !ok {
			return false
		}
		ia, ok := u.X.(*ssa.IndexAddr)
		if !ok || !ascendingFrom0(ia.Index) {
			return false
		}
		return strings.HasSuffix(w.nf(ia.X, 0), "."+field)
	}
	isRet := func(in ssa.Instruction) bool { _, ok := in.(*ssa.Return); return ok }
	_ = isRet
	// ---- R1: first match wins — judged from the one call of Route.Match under both outcomes
	{
		calls := w.callsInH(rm, "xmpp.Route.Match")
		ok := len(calls) == 1
		detail := fmt.Sprintf("%d Route.Match calls", len(calls))
		if ok {
			mc := calls[0].(*ssa.Call)
			isMC := func(in ssa.Instruction) bool { return in == ssa.Instruction(mc) }
			if !elemOfField(mc.Call.Args[0], "routes") {
				ok, detail = false, "Match is not called on the routes in ascending order from the first"
			}
			if origin(mc.Call.Args[1]) != ssa.Value(rm.Params[1]) || origin(mc.Call.Args[2]) != ssa.Value(rm.Params[2]) {
				ok, detail = false, "the packet/match record passed to Route.Match are not Router.Match's own"
			}
			withAssumption(mc, true, func() {
				n := 0
				walkPaths(after(mc), isMC, nil, 2000, func(path []ssa.Instruction, end pathEnd) {
					n++
					last := path[len(path)-1]
					rt, isRet := last.(*ssa.Return)
					if !isRet {
						ok, detail = false, "after a route matched, the search continues: a later route can overwrite the match (last match wins)"
						return
					}
					if bv, isC := boolConst(rres(path, rt)[0]); !isC || !bv {
						ok, detail = false, "a matching route does not make Router.Match return true"
					}
				})
				if n == 0 {
					ok, detail = false, "no path after a matching route"
				}
			})
			withAssumption(mc, false, func() {
				again, exhausted := 0, 0
				walkPaths(after(mc), isMC, nil, 2000, func(path []ssa.Instruction, end pathEnd) {
					last := path[len(path)-1]
					if isMC(last) {
						again++
						return
					}
					rt, isRet := last.(*ssa.Return)
					if !isRet {
						return
					}
					exhausted++
					if bv, isC := boolConst(rres(path, rt)[0]); !isC || bv {
						ok, detail = false, "with no matching route Router.Match does not return false"
					}
				})
				if again == 0 {
					ok, detail = false, "a route that does not match ends the search"
				}
				if exhausted == 0 {
					ok, detail = false, "the search never ends without a match"
				}
			})
			// no route at all: false
			walkPaths(entryLoc(rm), isMC, nil, 2000, func(path []ssa.Instruction, end pathEnd) {
				if rt, isRet := path[len(path)-1].(*ssa.Return); isRet {
					if bv, isC := boolConst(rres(path, rt)[0]); !isC || bv {
						ok, detail = false, "with no route at all Router.Match does not return false"
					}
				}
			})
		}
		r.Check(ok, "R1", "xmpp.(*Router).Match", w.pos(rm.Pos()), detail, "routes asked in ascending order; first true ⇒ return true without asking further; exhausted ⇒ false")
	}

	// ---- R2: a route is the conjunction of its matchers; the match record is written only when all agreed
	rtm := w.Func("xmpp.(*Route).Match")
	{
		fRoute := w.Field("xmpp.RouteMatch.Route")
		fHandler := w.Field("xmpp.RouteMatch.Handler")
		isRecStore := func(in ssa.Instruction) bool { return isStoreTo(in, fRoute) || isStoreTo(in, fHandler) }
		recorded := func(path []ssa.Instruction) bool {
			okR, okH := false, false
			for _, in := range path {
				if st, isSt := in.(*ssa.Store); isSt {
					if isStoreTo(in, fRoute) && st.Val == ssa.Value(rtm.Params[0]) {
						okR = true
					}
					if isStoreTo(in, fHandler) && fieldNames(fieldPath(st.Val)) == "handler" && rootOf(st.Val) == ssa.Value(rtm.Params[0]) {
						okH = true
					}
					if fa, isFA := st.Addr.(*ssa.FieldAddr); isFA && (fieldOfAddr(fa) == fRoute || fieldOfAddr(fa) == fHandler) && fa.X != ssa.Value(rtm.Params[2]) {
						okR = false
					}
				}
			}
			return okR && okH
		}
		calls := w.callsInH(rtm, "xmpp.Matcher.Match")
		ok := len(calls) == 1
		detail := fmt.Sprintf("%d Matcher.Match calls", len(calls))
		if ok {
			mc := calls[0].(*ssa.Call)
			isMC := func(in ssa.Instruction) bool { return in == ssa.Instruction(mc) }
			if !elemOfField(mc.Call.Value, "matchers") {
				ok, detail = false, "Route.Match does not ask its matchers in order from the first"
			}
			if origin(mc.Call.Args[0]) != ssa.Value(rtm.Params[1]) {
				ok, detail = false, "the matchers are not asked about the routed packet"
			}
			withAssumption(mc, false, func() {
				n := 0
				walkPaths(after(mc), isMC, nil, 2000, func(path []ssa.Instruction, end pathEnd) {
					n++
					last := path[len(path)-1]
					rt, isRet := last.(*ssa.Return)
					if !isRet {
						ok, detail = false, "a matcher's refusal does not end Route.Match"
						return
					}
					if bv, isC := boolConst(rres(path, rt)[0]); !isC || bv {
						ok, detail = false, "a matcher's refusal does not make Route.Match return false"
					}
					if countOn(path, isRecStore) > 0 {
						ok, detail = false, "the match record is written although a matcher refused"
					}
				})
				if n == 0 {
					ok, detail = false, "no path after a refusing matcher"
				}
			})
			withAssumption(mc, true, func() {
				again, done := 0, 0
				walkPaths(after(mc), isMC, nil, 2000, func(path []ssa.Instruction, end pathEnd) {
					last := path[len(path)-1]
					if isMC(last) {
						again++
						if countOn(path, isRecStore) > 0 {
							ok, detail = false, "the match record is written before all matchers agreed"
						}
						return
					}
					rt, isRet := last.(*ssa.Return)
					if !isRet {
						return
					}
					done++
					bv, isC := boolConst(rres(path, rt)[0])
					if !isC || !bv || !recorded(path) {
						ok, detail = false, "when all matchers agree Route.Match does not record this route and its handler and return true"
					}
				})
				if again == 0 {
					ok, detail = false, "after a matcher accepted, the remaining matchers are not consulted (disjunction instead of conjunction)"
				}
				if done == 0 {
					ok, detail = false, "Route.Match never succeeds"
				}
			})
			// no matcher at all: the route matches
			walkPaths(entryLoc(rtm), isMC, nil, 2000, func(path []ssa.Instruction, end pathEnd) {
				if rt, isRet := path[len(path)-1].(*ssa.Return); isRet {
					if bv, isC := boolConst(rres(path, rt)[0]); !isC || !bv || !recorded(path) {
						ok, detail = false, "a route without matchers does not match (record route and handler, return true)"
					}
				}
			})
		}
		r.Check(ok, "R2", "xmpp.(*Route).Match", w.pos(rtm.Pos()), detail, "all matchers must accept; then match.Route = r, match.Handler = r.handler, true")
	}

	// ---- R3 / R5 / R6 in Router.route
	route := w.Func("xmpp.(*Router).route")
	// the automatic reply: a Send of iq.MakeError(…) — in iqNotImplemented today, possibly inlined into route
	isReplySend := func(in ssa.Instruction) bool {
		c := asCall(in)
		if c == nil || !w.isCallTo("xmpp.Sender.Send")(in) {
			return false
		}
		arg := c.Common().Args[0]
		if mi, ok := arg.(*ssa.MakeInterface); ok {
			arg = mi.X
		}
		mk, ok := arg.(*ssa.Call)
		return ok && w.callKey(mk) == "stanza.IQ.MakeError"
	}
	// requestTable: the edge asserts that the IQ's Type is a key of an effectively constant set (map[…]bool with true
	// values): the keys, else nil
	requestTable := func(c ssa.Value, truth bool) []string {
		lk, ok := c.(*ssa.Lookup)
		if !ok || lk.CommaOk || !truth {
			return nil
		}
		fp := fieldPath(lk.Index)
		if len(fp) == 0 || fp[len(fp)-1].Name() != "Type" {
			return nil
		}
		t, _ := w.tableLookup(lk)
		var ks []string
		for _, e := range t {
			if b, isB := boolConst(e.Val); !isB || !b {
				return nil
			}
			ks = append(ks, e.Key)
		}
		return ks
	}
	niFn := w.FuncOpt("xmpp.iqNotImplemented")
	isNIsite := func(in ssa.Instruction) bool {
		if niFn != nil {
			return w.isCallTo("xmpp.iqNotImplemented")(in)
		}
		return isReplySend(in)
	}
	{
		mcalls := w.callsInH(route, "xmpp.Router.Match")
		if len(mcalls) != 1 {
			r.Undecided("R3", "xmpp.(*Router).route→Match", w.pos(route.Pos()), fmt.Sprintf("%d Router.Match calls", len(mcalls)))
		} else {
			mc := mcalls[0].(*ssa.Call)
			isHP := w.isCallTo("xmpp.Handler.HandlePacket")
			isNI := isNIsite
			okArgs := mc.Call.Args[1] == ssa.Value(route.Params[2])
			matchRec := mc.Call.Args[2]
			bad := ""
			nM, nU := 0, 0
			pIQ := route.Params[2]
			// (from the entry, so that a flag variable set where the packet's type was tested is known on the path)
			walkPaths(entryLoc(route), nil, nil, 200000, func(path []ssa.Instruction, end pathEnd) {
				if countOn(path, func(in ssa.Instruction) bool { return in == ssa.Instruction(mc) }) == 0 {
					// the only packets that are not offered to the routes are IQ responses claimed by a pending SendIQ
					if _, isRet := path[len(path)-1].(*ssa.Return); isRet && end != endCycle {
						claimed := pathAsserts(path, func(c ssa.Value, truth bool) bool {
							if !truth {
								return false
							}
							v := c
							if rc := resolveOn(c, curEdgeIdx, path); rc != nil {
								v = rc
							}
							ex, ok := v.(*ssa.Extract)
							if !ok || ex.Index != 1 {
								return false
							}
							lk, ok := ex.Tuple.(*ssa.Lookup)
							if !ok {
								return false
							}
							f, _ := loadedField(origin(lk.X))
							return f != nil && f.Name() == "IQResultRoutes"
						})
						if !claimed {
							bad = "a packet can leave route without having been offered to the routes (return at " + w.ipos(path[len(path)-1]) + "): the first matching route's handler does not run for it"
						}
					}
					return
				}
				if _, isRet := path[len(path)-1].(*ssa.Return); !isRet {
					bad = "a path after Match does not return"
					return
				}
				matched := pathAsserts(path, func(c ssa.Value, truth bool) bool { return c == ssa.Value(mc) && truth })
				nh := countOn(path, isHP)
				if matched {
					nM++
					if nh != 1 {
						bad = fmt.Sprintf("a matched packet is handled %d time(s)", nh)
					}
					if countOn(path, isNI) != 0 {
						bad = "a matched IQ is also answered with feature-not-implemented"
					}
					for _, in := range path {
						if isHP(in) {
							c := asCall(in).Common()
							if rootOf(c.Value) != matchRec || fieldNames(fieldPath(c.Value)) != "Handler" {
								bad = "the handler invoked is not the matched route's"
							}
							if c.Args[0] != ssa.Value(route.Params[1]) || c.Args[1] != ssa.Value(route.Params[2]) {
								bad = "the handler is not given the routed sender and packet"
							}
							if _, isCall := in.(*ssa.Call); !isCall {
								bad = "the handler is not invoked synchronously"
							}
						}
					}
					return
				}
				nU++
				if nh != 0 {
					bad = "a handler runs although no route matched"
				}
				// R5: not-implemented only for *IQ get/set
				nni := countOn(path, isNI)
				isIQ := pathAsserts(path, func(c ssa.Value, truth bool) bool {
					T, ok := typeAssertOK(c, pIQ)
					return ok && truth && w.typeStr(T) == "*stanza.IQ"
				})
				isReq := pathAsserts(path, func(c ssa.Value, truth bool) bool {
					if ks := requestTable(c, truth); len(ks) > 0 {
						return true
					}
					bo, ok := c.(*ssa.BinOp)
					if !ok || bo.Op != token.EQL || !truth {
						return false
					}
					s, isS := stringConst(bo.Y)
					fp := fieldPath(bo.X)
					return isS && (s == "get" || s == "set") && len(fp) > 0 && fp[len(fp)-1].Name() == "Type"
				})
				if nni > 1 || (nni == 1 && !(isIQ && isReq)) {
					bad = "the automatic error reply is sent for something that is not an unmatched IQ get/set"
				}
				if nni == 0 && isIQ && isReq {
					bad = "an unmatched IQ request gets no reply"
				}
			})
			r.Check(bad == "" && okArgs && nM > 0 && nU > 0, "R3", "xmpp.(*Router).route#dispatch", w.ipos(mc), bad, fmt.Sprintf("%d matched path(s) with one HandlePacket(s,p) of match.Handler; %d unmatched path(s) with none", nM, nU))
			// isIq is the ok of p.(*stanza.IQ) at function level: the not-implemented call is unreachable without type IQ and get/set
			var niCalls []ssa.CallInstruction
			allInstrsH(route, func(in ssa.Instruction) {
				if isNIsite(in) {
					niCalls = append(niCalls, asCall(in))
				}
			})
			okNI := len(niCalls) == 1
			if okNI {
				ni := niCalls[0].(ssa.Instruction)
				// every feasible path from the entry to the call asserts all three conditions
				tgt := func(in ssa.Instruction) bool { return in == ni }
				reqS := map[string]bool{w.ConstString("stanza.IQTypeGet"): true, w.ConstString("stanza.IQTypeSet"): true}
				nPaths := 0
				seenReq := map[string]bool{}
				err := walkPaths(entryLoc(route), tgt, nil, 100000, func(path []ssa.Instruction, end pathEnd) {
					if !tgt(path[len(path)-1]) {
						return
					}
					nPaths++
					isIQ := pathAsserts(path, func(c ssa.Value, truth bool) bool {
						T, ok := typeAssertOK(c, pIQ)
						return ok && truth && w.typeStr(T) == "*stanza.IQ"
					})
					isReq := pathAsserts(path, func(c ssa.Value, truth bool) bool {
						if ks := requestTable(c, truth); len(ks) > 0 {
							for _, k := range ks {
								if reqS[k] {
									seenReq[k] = true
								}
							}
							return len(ks) == len(reqS)
						}
						bo, ok := c.(*ssa.BinOp)
						if !ok || bo.Op != token.EQL || !truth {
							return false
						}
						s, isS := stringConst(bo.Y)
						fp := fieldPath(bo.X)
						if isS && reqS[s] && len(fp) > 0 && fp[len(fp)-1].Name() == "Type" {
							seenReq[s] = true
							return true
						}
						return false
					})
					unm := pathAsserts(path, func(c ssa.Value, truth bool) bool { return c == ssa.Value(mc) && !truth })
					if !(isIQ && isReq && unm) {
						okNI = false
					}
				})
				if err != nil || nPaths == 0 || len(seenReq) != len(reqS) {
					okNI = false // both request types (get and set) must lead to the reply
				}
				// argument is the asserted IQ and the routed sender
				var sender, iqArg ssa.Value
				if niFn != nil {
					a := niCalls[0].Common().Args
					sender, iqArg = a[0], a[1]
				} else {
					// inlined: s.Send(iq.MakeError(…))
					cc := niCalls[0].Common()
					sender = cc.Value
					arg := cc.Args[0]
					if mi, ok := arg.(*ssa.MakeInterface); ok {
						arg = mi.X
					}
					iqArg = arg.(*ssa.Call).Call.Args[0]
				}
				T, _ := typeAssertSource(origin(iqArg), pIQ)
				iqOnEveryPath := false
				if T == nil {
					// a variable assigned where the type was tested: judged on every path to the reply
					nT, okT := 0, true
					walkPaths(entryLoc(route), tgt, nil, 100000, func(path []ssa.Instruction, end pathEnd) {
						if !tgt(path[len(path)-1]) {
							return
						}
						nT++
						T2, _ := typeAssertSource(origin(resolveOn(iqArg, len(path)-1, path)), pIQ)
						if T2 == nil || w.typeStr(T2) != "*stanza.IQ" {
							okT = false
						}
					})
					iqOnEveryPath = okT && nT > 0
				}
				if origin(sender) != ssa.Value(route.Params[1]) || !(iqOnEveryPath || (T != nil && w.typeStr(T) == "*stanza.IQ")) {
					okNI = false
				}
			}
			r.Check(okNI, "R5", "xmpp.(*Router).route→iqNotImplemented", w.pos(route.Pos()), "the automatic feature-not-implemented reply is not guarded by: packet is *IQ ∧ no route matched ∧ (Type == get ∨ Type == set)", "reachable only under isIq ∧ unmatched ∧ Type ∈ {get, set}")
		}
	}
	// iqNotImplemented body
	{
		// the function that builds and sends the reply: iqNotImplemented, or route itself (with its helpers) when inlined
		ni := niFn
		var sends []ssa.CallInstruction
		var wantIQ, wantSender ssa.Value
		if ni != nil {
			sends = w.callsInH(ni, "xmpp.Sender.Send", "xmpp.Sender.SendRaw", "xmpp.Sender.SendIQ")
			wantIQ, wantSender = ni.Params[1], ni.Params[0]
		} else {
			ni = route
			allInstrsH(route, func(in ssa.Instruction) {
				if isReplySend(in) {
					sends = append(sends, asCall(in))
				}
			})
			wantSender = route.Params[1]
		}
		ok := len(sends) == 1 && w.callKey(sends[0]) == "xmpp.Sender.Send"
		detail := fmt.Sprintf("%d sends", len(sends))
		if ok {
			arg := sends[0].Common().Args[0]
			if mi, isMI := arg.(*ssa.MakeInterface); isMI {
				arg = mi.X
			}
			mk, isCall := arg.(*ssa.Call)
			okIQ := isCall && w.callKey(mk) == "stanza.IQ.MakeError"
			if okIQ && wantIQ != nil && mk.Call.Args[0] != wantIQ {
				okIQ = false
			}
			if okIQ && wantIQ == nil {
				T, _ := typeAssertSource(origin(mk.Call.Args[0]), route.Params[2])
				okIQ = T != nil && w.typeStr(T) == "*stanza.IQ"
			}
			if !okIQ {
				ok, detail = false, "what is sent is not iq.MakeError(…) of the request"
			} else {
				fields, _ := w.literalFields(mk.Call.Args[1])
				reason, _ := stringConst(fields["Reason"])
				typ, _ := stringConst(fields["Type"])
				if reason != "feature-not-implemented" || typ != "cancel" {
					ok, detail = false, fmt.Sprintf("the error condition is %q/%q, not cancel/feature-not-implemented", typ, reason)
				}
				if code, isC := intConst(fields["Code"]); !isC || code == 0 {
					ok, detail = false, "the error has no legacy code: Err.MarshalXML omits an error whose code is 0, so the reply would carry no error element"
				}
			}
			if origin(sends[0].Common().Value) != wantSender {
				ok, detail = false, "the reply is not sent through the routed sender"
			}
		}
		r.Check(ok, "R5", "xmpp.iqNotImplemented", w.pos(ni.Pos()), detail, "one s.Send(iq.MakeError(Err{cancel, feature-not-implemented}))")
		me := w.Func("stanza.(*IQ).MakeError")
		var stores []string
		okME := true
		allInstrs(me, func(in ssa.Instruction) {
			st, isSt := in.(*ssa.Store)
			if !isSt {
				return
			}
			fa, isFA := st.Addr.(*ssa.FieldAddr)
			if !isFA || rootOf(fa) != ssa.Value(me.Params[0]) {
				return
			}
			name := fieldNames(fieldPath(fa))
			val := w.nf(st.Val, 0)
			stores = append(stores, name+"="+val)
		})
		want := map[string]string{"Attrs.Type": `"error"`, "Attrs.From": "field:param:iq.Attrs.To", "Attrs.To": "field:param:iq.Attrs.From"}
		seen := map[string]bool{}
		for _, s := range stores {
			kv := strings.SplitN(s, "=", 2)
			if kv[0] == "Error" {
				seen["Error"] = true
				continue
			}
			if wv, ok := want[kv[0]]; ok && wv == kv[1] {
				seen[kv[0]] = true
				continue
			}
			okME = false
		}
		// loads of From/To must precede the stores (true swap)
		var firstStore ssa.Instruction
		allInstrs(me, func(in ssa.Instruction) {
			if st, isSt := in.(*ssa.Store); isSt && firstStore == nil {
				if fa, isFA := st.Addr.(*ssa.FieldAddr); isFA && (fieldOfAddr(fa).Name() == "From" || fieldOfAddr(fa).Name() == "To") {
					firstStore = in
				}
			}
		})
		allInstrs(me, func(in ssa.Instruction) {
			if u, isU := in.(*ssa.UnOp); isU && firstStore != nil {
				if f, _ := loadedField(u); f != nil && (f.Name() == "From" || f.Name() == "To") {
					if !reachable(after(in), func(x ssa.Instruction) bool { return x == firstStore }, nil, nil) {
						okME = false
					}
				}
			}
		})
		rets := 0
		allInstrs(me, func(in ssa.Instruction) {
			if rt, isRet := in.(*ssa.Return); isRet {
				rets++
				if rt.Results[0] != ssa.Value(me.Params[0]) {
					okME = false
				}
			}
		})
		r.Check(okME && seen["Attrs.Type"] && seen["Attrs.From"] && seen["Attrs.To"] && seen["Error"], "R5", "stanza.(*IQ).MakeError", w.pos(me.Pos()), "MakeError does not turn the request around (type error, from/to swapped with the values read before the stores, id untouched, error attached): "+strings.Join(stores, "; "), strings.Join(stores, "; "))
	}
	// R6: sends reachable from route
	{
		var roots []ssa.CallInstruction
		allInstrs(route, func(in ssa.Instruction) {
			if c := asCall(in); c != nil {
				roots = append(roots, c)
			}
		})
		cl := w.closureFrom(roots, func(f *ssa.Function) bool {
			// handlers are application code; stop at the interface boundary
			return false
		})
		cl[route] = true
		allowed := map[string]bool{"xmpp.iqNotImplemented": true, "xmpp.SendMissingStz": true}
		isSend := w.isCallTo("xmpp.Sender.Send", "xmpp.Sender.SendRaw", "xmpp.Sender.SendIQ", "xmpp.Client.Send", "xmpp.Client.SendRaw", "xmpp.Component.Send", "xmpp.Component.SendRaw")
		n := 0
		for f := range cl {
			// only functions reachable without passing through the Sender interface itself
			fk := w.funcKey(f)
			if strings.HasPrefix(fk, "xmpp.(*Client).") || strings.HasPrefix(fk, "xmpp.(*Component).") || strings.Contains(fk, "Transport)") || strings.Contains(fk, "streamLogger") {
				continue // implementation of Sender reached through the allowed sends
			}
			allInstrs(f, func(in ssa.Instruction) {
				if isSend(in) {
					n++
					r.Check(allowed[fk] || w.ownedOnlyBy(f, "xmpp.iqNotImplemented", "xmpp.SendMissingStz") || isReplySend(in), "R6", fk+"→"+w.callKey(asCall(in)), w.ipos(in), "a send reachable from Router.route outside the automatic error reply and the stream-management retransmission", "allowed reply site")
				}
			})
		}
		if n < 3 {
			r.Undecided("R6", "xmpp.(*Router).route#sends", "-", fmt.Sprintf("only %d send sites found under route, 3 confirmed by hand", n))
		}
	}

	// ---- R4 matchers
	c06Matchers(w, r)
}

func c06Matchers(w *World, r *Report) {
	pts := packetTypes(w)
	stanzaName := map[string]string{}
	for _, n := range []string{"stanza.Message", "stanza.Presence", "*stanza.IQ"} {
		T := pts[n]
		if T == nil {
			r.Undecided("R4", "stanza.Packet#"+n, "-", "stanza type not found among Packet implementers")
			continue
		}
		// constant returned by T.Name()
		ms := w.Prog.MethodSets.MethodSet(T)
		sel := ms.Lookup(nil, "Name")
		if sel == nil {
			continue
		}
		fn := w.unwrap(w.Prog.MethodValue(sel))
		allInstrs(fn, func(in ssa.Instruction) {
			if rt, ok := in.(*ssa.Return); ok {
				if s, isS := stringConst(rt.Results[0]); isS {
					stanzaName[n] = s
				}
			}
		})
	}
	// the membership function the matchers return through (matchInArray today): found at the return sites, judged by its body
	memb := map[*ssa.Function]bool{}
	membershipOK := func(mia *ssa.Function) bool {
		if mia == nil || mia.Blocks == nil || len(mia.Params) != 2 || !w.inModule(mia) {
			return false
		}
		if v, done := memb[mia]; done {
			return v
		}
		// judged on every path: a true result needs an element found equal to the value; an element found equal gives true
		isElem := func(v ssa.Value) bool {
			u, ok := v.(*ssa.UnOp)
			if !ok {
				return false
			}
			ia, ok := u.X.(*ssa.IndexAddr)
			return ok && ia.X == ssa.Value(mia.Params[0])
		}
		okEq, nTrue, nFalse := true, 0, 0
		err := walkPaths(entryLoc(mia), nil, nil, 5000, func(path []ssa.Instruction, end pathEnd) {
			rt, isRet := path[len(path)-1].(*ssa.Return)
			if !isRet || end == endCycle {
				return
			}
			found := pathAsserts(path, func(c ssa.Value, truth bool) bool {
				bo, ok := c.(*ssa.BinOp)
				if !ok || (bo.Op != token.EQL && bo.Op != token.NEQ) || (bo.Op == token.EQL) != truth {
					return false
				}
				return (isElem(bo.X) && bo.Y == ssa.Value(mia.Params[1])) || (isElem(bo.Y) && bo.X == ssa.Value(mia.Params[1]))
			})
			res := rres(path, rt)[0]
			bv, isC := boolConst(res)
			if !isC {
				bv, isC = w.pathDecides(path, res)
			}
			if !isC || bv != found {
				okEq = false
				return
			}
			if bv {
				nTrue++
			} else {
				nFalse++
			}
		})
		if err != nil || nTrue == 0 || nFalse == 0 {
			okEq = false
		}
		memb[mia] = okEq
		r.Check(okEq, "R4", w.funcKey(mia), w.pos(mia.Pos()), "the membership function the matchers rely on does not return true exactly from an equality with an element of the list", "true iff some element equals the value")
		return okEq
	}
	// nameMatcher
	nm := w.Func("xmpp.(nameMatcher).Match")
	for n, T := range pts {
		want, isStanza := stanzaName[n]
		if !isStanza && n != "stanza.SMAnswer" && n != "stanza.StreamError" {
			continue
		}
		bad := ""
		np := 0
		walkPaths(entryLoc(nm), nil, typeEdgeFilter(nm.Params[1], T), 2000, func(path []ssa.Instruction, end pathEnd) {
			rt, ok := path[len(path)-1].(*ssa.Return)
			if !ok {
				return
			}
			np++
			// the comparison on the path
			var cmp *ssa.BinOp
			var truthV bool
			pathEdges(path, func(b *ssa.BasicBlock, succ int) {
				if c, t, ok := edgeAssertion(b, succ); ok {
					if bo, isB := c.(*ssa.BinOp); isB && (bo.Op == token.EQL || bo.Op == token.NEQ) {
						cmp, truthV = bo, t
					}
				}
			})
			if cmp == nil {
				// direct `return name == string(n)`
				if bo, isB := rres(path, rt)[0].(*ssa.BinOp); isB && bo.Op == token.EQL {
					cmp = bo
					truthV = true
				} else {
					bad = "no comparison of the packet's name with the configured name"
					return
				}
			} else {
				bv, isC := boolConst(rres(path, rt)[0])
				eqHolds := (cmp.Op == token.EQL) == truthV
				if !isC || bv != eqHolds {
					bad = "the result is not the outcome of the name comparison"
				}
			}
			x, y := valueOnPath(rvAny(cmp.X), path), valueOnPath(rvAny(cmp.Y), path)
			isN := func(v ssa.Value) bool { return w.nf(v, 0) == "param:n" }
			var nameV ssa.Value
			if isN(y) {
				nameV = x
			} else if isN(x) {
				nameV = y
			} else {
				bad = "the comparison is not with the configured name"
				return
			}
			got, isS := stringConst(nameV)
			if !isS {
				bad = "the packet's name is not a constant on this path"
				return
			}
			if isStanza && got != want {
				bad = fmt.Sprintf("a %s is named %q by the matcher but %q by its Name() method", n, got, want)
			}
			if !isStanza && got != "" {
				bad = fmt.Sprintf("a non-stanza %s is given the name %q", n, got)
			}
		})
		r.Check(bad == "" && np > 0, "R4", "xmpp.(nameMatcher).Match#type:"+n, w.pos(nm.Pos()), bad, fmt.Sprintf("name %q compared by equality with the configured name", want))
	}
	// nsTypeMatcher
	tm := w.Func("xmpp.(nsTypeMatcher).Match")
	normal := w.ConstString("stanza.MessageTypeNormal")
	for n, T := range pts {
		_, isStanza := stanzaName[n]
		if !isStanza && n != "stanza.SMAnswer" && n != "stanza.StreamError" {
			continue
		}
		bad := ""
		np := 0
		walkPaths(entryLoc(tm), nil, typeEdgeFilter(tm.Params[1], T), 2000, func(path []ssa.Instruction, end pathEnd) {
			rt, ok := path[len(path)-1].(*ssa.Return)
			if !ok {
				return
			}
			np++
			if !isStanza {
				if bv, isC := boolConst(rres(path, rt)[0]); !isC || bv {
					bad = "a non-stanza packet can match a stanza-type route"
				}
				return
			}
			c, isCall := rt.Results[0].(*ssa.Call) // the membership call itself, not what a walked-through helper returned
			if !isCall {
				// … or a named result that received it on this path
				c, isCall = rres(path, rt)[0].(*ssa.Call)
			}
			if !isCall || len(c.Call.Args) != 2 || !membershipOK(c.Call.StaticCallee()) || w.nf(c.Call.Args[0], 0) != "param:m" {
				bad = "the result is not membership of the stanza's type in the configured types"
				return
			}
			v := valueOnPath(c.Call.Args[1], path)
			for k := 0; k < 6; k++ {
				if ct, ok := v.(*ssa.ChangeType); ok {
					v = valueOnPath(ct.X, path)
					continue
				}
				// (the type computed by a helper the path went through: what it returned on this path)
				if rv := resolveOn(v, len(path)-1, path); rv != nil && rv != v {
					v = rv
					continue
				}
				break
			}
			emptyType := pathAsserts(path, func(cv ssa.Value, truth bool) bool {
				bo, ok := cv.(*ssa.BinOp)
				if !ok || (bo.Op != token.EQL && bo.Op != token.NEQ) || (bo.Op == token.EQL) != truth {
					return false
				}
				s, isS := stringConst(bo.Y)
				fp := fieldPath(bo.X)
				return isS && s == "" && len(fp) > 0 && fp[len(fp)-1].Name() == "Type"
			})
			if s, isS := stringConst(v); isS {
				if !(n == "stanza.Message" && emptyType && s == normal) {
					bad = fmt.Sprintf("the type used for a %s is the constant %q", n, s)
				}
				return
			}
			Ta, fp := typeAssertSource(v, tm.Params[1])
			if Ta == nil || w.typeStr(Ta) != n || !strings.HasSuffix(fp, "Type") {
				bad = "the type used is not the stanza's own Type attribute (" + w.nf(v, 0) + ")"
			}
			if n == "stanza.Message" && emptyType {
				bad = "an untyped message is not treated as type \"normal\""
			}
		})
		r.Check(bad == "" && np > 0, "R4", "xmpp.(nsTypeMatcher).Match#type:"+n, w.pos(tm.Pos()), bad, "stanza's Type (\"normal\" for an untyped message) looked up in the configured list")
	}
	// nsIQMatcher
	im := w.Func("xmpp.(nsIQMatcher).Match")
	for n, T := range pts {
		_, isStanza := stanzaName[n]
		if !isStanza {
			continue
		}
		bad := ""
		np := 0
		walkPaths(entryLoc(im), nil, typeEdgeFilter(im.Params[1], T), 2000, func(path []ssa.Instruction, end pathEnd) {
			rt, ok := path[len(path)-1].(*ssa.Return)
			if !ok {
				return
			}
			np++
			if n != "*stanza.IQ" {
				if bv, isC := boolConst(rres(path, rt)[0]); !isC || bv {
					bad = "a non-IQ packet can match an IQ-namespace route"
				}
				return
			}
			payloadNil := pathAsserts(path, func(cv ssa.Value, truth bool) bool {
				x, eq, ok := nilCompare(cv)
				if !ok || eq != truth {
					return false
				}
				fp := fieldPath(x)
				return len(fp) > 0 && fp[len(fp)-1].Name() == "Payload"
			})
			if payloadNil {
				if bv, isC := boolConst(rres(path, rt)[0]); !isC || bv {
					bad = "an IQ without payload can match"
				}
				return
			}
			c, isCall := rt.Results[0].(*ssa.Call) // the membership call itself, not what a walked-through helper returned
			if !isCall || len(c.Call.Args) != 2 || !membershipOK(c.Call.StaticCallee()) || w.nf(c.Call.Args[0], 0) != "param:m" {
				bad = "the result is not membership of the payload namespace in the configured namespaces"
				return
			}
			nsCall, isNS := c.Call.Args[1].(*ssa.Call)
			if !isNS || !nsCall.Call.IsInvoke() || nsCall.Call.Method.Name() != "Namespace" {
				bad = "the value looked up is not Payload.Namespace()"
				return
			}
			fp := fieldPath(nsCall.Call.Value)
			if len(fp) == 0 || fp[len(fp)-1].Name() != "Payload" {
				bad = "Namespace() is not asked of the IQ's payload"
			}
			if !pathAsserts(path, func(cv ssa.Value, truth bool) bool {
				x, eq, ok := nilCompare(cv)
				return ok && eq != truth && len(fieldPath(x)) > 0
			}) {
				bad = "Payload.Namespace() is called without a nil check of the payload"
			}
		})
		r.Check(bad == "" && np > 0, "R4", "xmpp.(nsIQMatcher).Match#type:"+n, w.pos(im.Pos()), bad, "IQ with payload: payload namespace looked up; everything else false")
	}
	_ = types.Typ
}
