package main

// E9 — token-loop discipline. In a function that loops over
// (*xml.Decoder).Token, every xml.StartElement taken from a token must be
// consumed exactly once — DecodeElement(_, &tt), Skip(), or a module callee that
// consumes its start-element argument — before the next Token call or a nil
// return. Paths that return a non-nil error are exempt.

import (
	"fmt"
	"go/token"
	"go/types"
	"strings"

	"golang.org/x/tools/go/ssa"
)

type tokenEngine struct {
	w       *World
	summary map[string]int // fnKey#param -> 1 consumes, 0 does not, -1 in progress
}

func newTokenEngine(w *World) *tokenEngine { return &tokenEngine{w: w, summary: map[string]int{}} }

func isStartElementType(t types.Type) bool {
	return strings.HasSuffix(t.String(), "encoding/xml.StartElement")
}

// aliases of a start-element value v inside fn: v itself, the allocs it is
// stored into, and loads of those allocs.
func (te *tokenEngine) aliases(fn *ssa.Function, v ssa.Value) (vals map[ssa.Value]bool, addrs map[ssa.Value]bool) {
	vals = map[ssa.Value]bool{v: true}
	addrs = map[ssa.Value]bool{}
	if v.Referrers() != nil {
		for _, r := range *v.Referrers() {
			if st, ok := r.(*ssa.Store); ok && st.Val == v {
				if al, ok := st.Addr.(*ssa.Alloc); ok {
					addrs[al] = true
					for _, r2 := range *al.Referrers() {
						if u, ok := r2.(*ssa.UnOp); ok && u.X == ssa.Value(al) {
							vals[u] = true
						}
					}
				}
			}
		}
	}
	return
}

// consumption: does instruction `in` consume the start element (vals/addrs)?
func (te *tokenEngine) consumption(in ssa.Instruction, vals, addrs map[ssa.Value]bool) (bool, string) {
	c, ok := in.(*ssa.Call)
	if !ok {
		return false, ""
	}
	k := te.w.callKey(c)
	switch k {
	case "encoding/xml.Decoder.DecodeElement":
		if len(c.Call.Args) == 3 && addrs[c.Call.Args[2]] {
			return true, "DecodeElement"
		}
		return false, ""
	case "encoding/xml.Decoder.Skip":
		return true, "Skip"
	}
	callee := c.Call.StaticCallee()
	if callee == nil {
		// a decoder looked up in an effectively constant table: consumes if every entry does
		fs := te.w.dynCallees(c.Parent(), c)
		if len(fs) == 0 {
			return false, ""
		}
		for i, a := range c.Call.Args {
			if !vals[a] {
				continue
			}
			all := true
			for _, f := range fs {
				if i >= len(f.Params) {
					all = false
					break
				}
				ok := false
				withBind(f, c.Call.Args, func() { ok = te.consumes(f, i) })
				if !ok {
					all = false
				}
			}
			if all {
				return true, "callee:table"
			}
		}
		return false, ""
	}
	if callee.Blocks == nil || !te.w.inModule(callee) {
		return false, ""
	}
	for i, a := range c.Call.Args {
		if vals[a] && i < len(callee.Params) {
			ok := false
			withBind(callee, c.Call.Args, func() { ok = te.consumes(callee, i) })
			if ok {
				return true, "callee:" + te.w.funcKey(callee)
			}
		}
	}
	return false, ""
}

// countConsumptions counts consumptions on a path. A module callee consumes its
// start element only when it returns a nil error, so its call counts only on
// paths that assert that error to be nil (or return it directly).
func (te *tokenEngine) countConsumptions(path []ssa.Instruction, vals0, addrs0 map[ssa.Value]bool) (int, []string) {
	cnt := 0
	var how []string
	vals, addrs := map[ssa.Value]bool{}, map[ssa.Value]bool{}
	for k := range vals0 {
		vals[k] = true
	}
	for k := range addrs0 {
		addrs[k] = true
	}
	for pi, in := range path {
		// a helper that is walked through on this path: its body is on the path, so what counts is what the body
		// does with the element (seen through the helper's parameter), not the callee summary
		if call, ok := in.(*ssa.Call); ok {
			if callee := call.Call.StaticCallee(); isHelper(callee) && pi+1 < len(path) && path[pi+1].Parent() == callee {
				for i, a := range call.Call.Args {
					if i >= len(callee.Params) {
						break
					}
					if vals[a] {
						v2, a2 := te.aliases(callee, callee.Params[i])
						for k := range v2 {
							vals[k] = true
						}
						for k := range a2 {
							addrs[k] = true
						}
					} else if addrs[a] {
						// the address of the element is handed on (&tt)
						addrs[callee.Params[i]] = true
					}
				}
				continue
			}
		}
		c, h := te.consumption(in, vals, addrs)
		if !c {
			continue
		}
		if strings.HasPrefix(h, "callee:") {
			call := in.(*ssa.Call)
			ev := errResult(call)
			okNil := ev != nil && pathAsserts(path, func(cv ssa.Value, truth bool) bool { return assertsNil(cv, truth, ev) })
			if ret, isRet := path[len(path)-1].(*ssa.Return); isRet && ev != nil && len(ret.Results) > 0 && (ret.Results[len(ret.Results)-1] == ev || rres(path, ret)[len(ret.Results)-1] == ev) {
				okNil = true
			}
			if !okNil {
				continue
			}
		}
		cnt++
		how = append(how, h)
	}
	return cnt, how
}

// consumes: fn consumes its parameter #idx (a xml.StartElement) exactly once on
// every path that can return a nil error.
func (te *tokenEngine) consumes(fn *ssa.Function, idx int) bool {
	key := fmt.Sprintf("%s#%d", te.w.funcKey(fn), idx)
	// a summary that depends on what the caller passes (a dispatch table) is specific to that caller
	for _, p := range fn.Params {
		if b, ok := dynBind[p]; ok {
			if u, isLoad := b.(*ssa.UnOp); isLoad {
				if g, isG := u.X.(*ssa.Global); isG {
					key += "@" + g.Name()
				}
			}
		}
	}
	if v, ok := te.summary[key]; ok {
		return v == 1
	}
	te.summary[key] = -1
	p := fn.Params[idx]
	if !isStartElementType(p.Type()) {
		te.summary[key] = 0
		return false
	}
	vals, addrs := te.aliases(fn, p)
	ok := true
	n := 0
	err := walkPathsP(entryLoc(fn), nil, phiFeasible, 20000, func(path []ssa.Instruction, end pathEnd) {
		if end == endCycle {
			return // bounded inner loops (attribute ranges)
		}
		ret, isRet := path[len(path)-1].(*ssa.Return)
		if !isRet {
			ok = false
			return
		}
		if te.errorReturn(ret, path) {
			return
		}
		n++
		cnt, _ := te.countConsumptions(path, vals, addrs)
		if cnt != 1 {
			ok = false
		}
	})
	if err != nil || n == 0 {
		ok = false
	}
	if ok {
		te.summary[key] = 1
	} else {
		te.summary[key] = 0
	}
	return ok
}

// errorReturn: the return certainly carries a non-nil error.
func (te *tokenEngine) errorReturn(ret *ssa.Return, path []ssa.Instruction) bool {
	if len(ret.Results) == 0 {
		return false
	}
	ev := valueOnPath(rres(path, ret)[len(ret.Results)-1], path)
	if isNilConst(ev) {
		return false
	}
	if c, ok := ev.(*ssa.Call); ok {
		k := te.w.callKey(c)
		if k == "errors.New" || k == "fmt.Errorf" || alwaysNonNil(c.Call.StaticCallee(), 0) {
			return true
		}
		// the error result of some other call: an error return only if this path found it non-nil
	}
	if _, ok := ev.(*ssa.MakeInterface); ok {
		return true
	}
	return pathAsserts(path, func(c ssa.Value, truth bool) bool { return assertsNonNil(c, truth, ev) })
}

// certainError: ev, an error value as a path determines it, is certainly non-nil on that path — a constructed error, or
// a value the path has tested and found non-nil.
func certainError(w *World, ev ssa.Value, path []ssa.Instruction) bool {
	if isNilConst(ev) {
		return false
	}
	switch x := ev.(type) {
	case *ssa.Call:
		k := w.callKey(x)
		if k == "errors.New" || k == "fmt.Errorf" || alwaysNonNil(x.Call.StaticCallee(), 0) {
			return true
		}
	case *ssa.MakeInterface:
		return true
	case *ssa.UnOp:
		if g, ok := x.X.(*ssa.Global); ok && x.Op == token.MUL && strings.HasPrefix(g.Name(), "Err") {
			return true // a package-level sentinel error
		}
	}
	return pathAsserts(path, func(c ssa.Value, truth bool) bool { return assertsNonNil(c, truth, ev) })
}

type loopFinding struct {
	construct string
	pos       string
	detail    string
}

// checkUnmarshal applies the discipline to one UnmarshalXML-like function.
// Returns findings and the number of start-element paths examined.
func (te *tokenEngine) checkUnmarshal(fn *ssa.Function) (findings []loopFinding, npaths int, hasLoop bool) {
	w := te.w
	toks := w.callsInH(fn, "encoding/xml.Decoder.Token")
	if len(toks) == 0 {
		return nil, 0, false
	}
	hasLoop = true
	fk := w.funcKey(fn)
	if len(toks) != 1 {
		findings = append(findings, loopFinding{fk + "#token-calls", w.pos(fn.Pos()), fmt.Sprintf("%d Token calls: cannot decide the loop discipline", len(toks))})
		return
	}
	tok := toks[0].(*ssa.Call)
	isTok := func(in ssa.Instruction) bool { return in == ssa.Instruction(tok) }
	var tokV ssa.Value
	for _, rf := range *tok.Referrers() {
		if ex, ok := rf.(*ssa.Extract); ok && ex.Index == 0 {
			tokV = ex
		}
	}
	// the typeassert to StartElement
	var starts []*ssa.Extract
	allInstrs(fn, func(in ssa.Instruction) {
		if ta, ok := in.(*ssa.TypeAssert); ok && ta.CommaOk && ta.X == tokV && isStartElementType(ta.AssertedType) {
			for _, rf := range *ta.Referrers() {
				if ex, ok := rf.(*ssa.Extract); ok && ex.Index == 0 {
					starts = append(starts, ex)
				}
			}
		}
	})
	if len(starts) == 0 {
		findings = append(findings, loopFinding{fk + "#start-elements-ignored", w.ipos(tok), "the token loop has no case for child start elements: a child is walked token by token, so its descendants are taken for children of this element, and a descendant's end tag named like this element ends the loop early (encoding/xml then fails with 'did not consume entire element' and the stream is lost)"})
		return
	}
	for _, se := range starts {
		ta := se.Tuple.(*ssa.TypeAssert)
		// ok edge
		var okV ssa.Value
		for _, rf := range *ta.Referrers() {
			if ex, ok := rf.(*ssa.Extract); ok && ex.Index == 1 {
				okV = ex
			}
		}
		vals, addrs := te.aliases(fn, se)
		for _, b := range fn.Blocks {
			for si := range b.Succs {
				c, truth, isIf := edgeAssertion(b, si)
				if !isIf || c != okV || !truth {
					continue
				}
				err := walkPathsP(Loc{b.Succs[si], 0}, isTok, phiFeasible, 50000, func(path []ssa.Instruction, end pathEnd) {
					last := path[len(path)-1]
					if end == endCycle {
						return // inner bounded loops (attribute ranges) do not matter here
					}
					if ret, isRet := last.(*ssa.Return); isRet && te.errorReturn(ret, path) {
						return
					}
					npaths++
					cnt, how := te.countConsumptions(path, vals, addrs)
					if cnt == 1 {
						return
					}
					// describe the path by the constants it compared the child's name with
					var names []string
					pathEdges(path, func(bb *ssa.BasicBlock, s int) {
						if cv, t, ok := edgeAssertion(bb, s); ok && t {
							if bo, isB := cv.(*ssa.BinOp); isB {
								if str, isS := stringConst(bo.Y); isS {
									names = append(names, str)
								}
							}
						}
					})
					which := "unknown/unlisted child"
					if len(names) > 0 {
						which = "child <" + strings.Join(names, "/") + ">"
					}
					if cnt == 0 {
						findings = append(findings, loopFinding{fk + "#unconsumed", w.ipos(last), "a start element (" + which + ") reaches the next Token call without being consumed by DecodeElement/Skip: its content is walked inline — nested known names are misread as children of this element, and a descendant named like this element ends the loop early (the forwarded-message / MAM / carbons shape: 'UnmarshalXML did not consume entire element', the packet and the rest of the stream are lost)"})
					} else {
						findings = append(findings, loopFinding{fk + "#consumed-twice", w.ipos(last), fmt.Sprintf("a start element (%s) is consumed %d times (%s): the second call swallows the following sibling or the parent's end tag", which, cnt, strings.Join(how, ", "))})
					}
				})
				if err != nil {
					findings = append(findings, loopFinding{fk + "#paths", w.pos(fn.Pos()), err.Error()})
				}
			}
		}
	}
	// dedupe by construct
	seen := map[string]bool{}
	var out []loopFinding
	for _, f := range findings {
		if !seen[f.construct] {
			seen[f.construct] = true
			out = append(out, f)
		}
	}
	return out, npaths, true
}

// progress: every cycle of fn passes through the Token call (range loops
// excepted), and the error edge of Token leaves the function.
func (te *tokenEngine) progress(fn *ssa.Function) string {
	w := te.w
	toks := w.callsInH(fn, "encoding/xml.Decoder.Token")
	if len(toks) != 1 {
		return fmt.Sprintf("%d Token calls", len(toks))
	}
	tok := toks[0].(*ssa.Call)
	if tok.Parent() != fn {
		fn = tok.Parent() // the scanning loop lives in a helper this function delegates to: judge the loop there
	}
	ev := errResult(tok)
	if ev == nil {
		return "the error of Token is discarded: a closed or broken stream makes the loop spin"
	}
	// error edge returns without another Token
	found := false
	bad := ""
	for _, b := range fn.Blocks {
		for si := range b.Succs {
			c, truth, isIf := edgeAssertion(b, si)
			if !isIf || !assertsNonNil(c, truth, ev) {
				// err == io.EOF style comparisons are handled by the nil test that follows them
				continue
			}
			found = true
			if reachable(Loc{b.Succs[si], 0}, func(in ssa.Instruction) bool { return in == ssa.Instruction(tok) }, nil, nil) {
				bad = "after Token returned an error the loop can call Token again"
			}
		}
	}
	if !found {
		return "the error of Token is never tested"
	}
	if bad != "" {
		return bad
	}
	// acyclic once the Token block and range-loop headers are removed
	skip := map[*ssa.BasicBlock]bool{tok.Block(): true}
	for _, l := range findRangeLoops(fn) {
		skip[l.header] = true
	}
	color := map[*ssa.BasicBlock]int{}
	var cyc *ssa.BasicBlock
	var dfs func(b *ssa.BasicBlock)
	dfs = func(b *ssa.BasicBlock) {
		color[b] = 1
		for _, s := range b.Succs {
			if skip[s] {
				continue
			}
			if color[s] == 1 {
				cyc = s
			} else if color[s] == 0 {
				dfs(s)
			}
		}
		color[b] = 2
	}
	for _, b := range fn.Blocks {
		if color[b] == 0 && !skip[b] {
			dfs(b)
		}
	}
	if cyc != nil {
		return "a cycle that does not pass through Token (no progress): block " + fmt.Sprint(cyc.Index)
	}
	return ""
}
