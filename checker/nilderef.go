package main

// Contradiction rule (Engler et al.: "check then use"): a value that a branch has just found to be nil is dereferenced
// or invoked further down the same path without having been assigned in between.

import (
	"fmt"
	"go/types"

	"golang.org/x/tools/go/ssa"
)

type nilUse struct {
	fn    *ssa.Function
	check ssa.Instruction // the branch
	use   ssa.Instruction
	what  string
}

func (w *World) nilUses(fns []*ssa.Function) []nilUse {
	var out []nilUse
	for _, fn := range fns {
		for _, b := range fn.Blocks {
			for si := range b.Succs {
				c, truth, isIf := edgeAssertion(b, si)
				if !isIf {
					continue
				}
				x, eq, isN := nilCompare(c)
				if !isN || eq != truth {
					continue // this edge does not assert x == nil
				}
				// x: a load of a field (through any base) or a parameter; loads are re-done after the test
				f, _ := loadedField(x)
				_, isParam := x.(*ssa.Parameter)
				if f == nil && !isParam {
					continue
				}
				same := func(v ssa.Value) bool {
					if v == x {
						return true
					}
					if f != nil {
						g, _ := loadedField(v)
						return g == f && sameValue(v, x)
					}
					return false
				}
				var hit ssa.Instruction
				what := ""
				use := func(in ssa.Instruction) bool {
					switch y := in.(type) {
					case *ssa.Call:
						if y.Call.IsInvoke() && same(y.Call.Value) {
							hit, what = in, "method call on it"
							return true
						}
						if !y.Call.IsInvoke() {
							if _, isB := y.Call.Value.(*ssa.Builtin); !isB && same(y.Call.Value) {
								hit, what = in, "call of it"
								return true
							}
						}
					case *ssa.FieldAddr:
						if same(y.X) {
							hit, what = in, "field access through it"
							return true
						}
					case *ssa.UnOp:
						if y.Op.String() == "*" && same(y.X) {
							hit, what = in, "dereference"
							return true
						}
					case *ssa.MapUpdate:
						if same(y.Map) {
							hit, what = in, "store into it (nil map)"
							return true
						}
					}
					return false
				}
				// stop at any store to the same field (it may be assigned) and at calls that could assign it
				stop := func(in ssa.Instruction) bool {
					if st, ok := in.(*ssa.Store); ok && f != nil {
						if fa, ok := st.Addr.(*ssa.FieldAddr); ok && fieldOfAddr(fa) == f {
							return true
						}
					}
					if c, ok := in.(*ssa.Call); ok && f != nil {
						if callee := c.Call.StaticCallee(); callee != nil && w.inModule(callee) {
							return true // a module callee may set the field
						}
					}
					return false
				}
				if path, _ := reach(Loc{b.Succs[si], 0}, use, stop, nil); path != nil && hit != nil {
					out = append(out, nilUse{fn, b.Instrs[len(b.Instrs)-1], hit, what})
				}
			}
		}
	}
	return out
}

func nilUseCons(w *World, u nilUse) string {
	return fmt.Sprintf("%s#nil-then-use@%s", w.funcKey(u.fn), u.what)
}

// optionalMemberInvokes: method calls on a value read from a struct field whose type is one of the stanza package's
// interfaces (StanzaErrorGroup, IQPayload, MsgExtension, …). Such a member of a decoded element is nil whenever the
// peer's element simply lacks that child, so the call must be behind a nil test of the same field on every path.
type memberInvoke struct {
	fn      *ssa.Function
	call    *ssa.Call
	field   string
	guarded bool
}

func (w *World) optionalMemberInvokes(fns []*ssa.Function) []memberInvoke {
	var out []memberInvoke
	for _, fn := range fns {
		allInstrs(fn, func(in ssa.Instruction) {
			c, ok := in.(*ssa.Call)
			if !ok || !c.Call.IsInvoke() {
				return
			}
			v := c.Call.Value
			f, _ := loadedField(v)
			if f == nil {
				return
			}
			nt, ok := f.Type().(*types.Named)
			if !ok || nt.Obj().Pkg() == nil || nt.Obj().Pkg().Path() != pkgStanza {
				return
			}
			if _, isIface := nt.Underlying().(*types.Interface); !isIface {
				return
			}
			nonNil := edgesAsserting(fn, func(cv ssa.Value, truth bool) bool {
				x, eq, ok := nilCompare(cv)
				if !ok || eq == truth {
					return false
				}
				g, _ := loadedField(x)
				return g == f && (x == v || sameValue(x, v))
			})
			guarded := len(nonNil) > 0 && !reachable(entryLoc(fn), func(x ssa.Instruction) bool { return x == in }, nil, nonNil)
			out = append(out, memberInvoke{fn, c, f.Name(), guarded})
		})
	}
	return out
}
