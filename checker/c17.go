package main

// C17 — the unacknowledged-stanza queue is a FIFO with increasing sequence numbers.

import (
	"fmt"
	"go/token"
	"strings"

	"golang.org/x/tools/go/ssa"
)

func init() {
	register(&propDef{
		id: "C17", level: "other", run: runC17,
		trusted: []string{"append(s, x) adds x after the last element; s[k:] drops the first k elements; len"},
		explain: "Decides the local facts from which FIFO behaviour follows by induction on the operation sequence, on six tiny functions: peeks and Empty store nothing and call no mutator (R1); only the constructor, Push, Pop and PopN write the slice, and package xmpp never does (R2); Push appends exactly one fresh element at the tail whose id is 1 on an empty queue and last.Id+1 otherwise, carrying the given text (R3); Pop/PopN remove from the head exactly as many elements as the corresponding peek returned, and return those (R4); PeekN returns nil for n <= 0, clamps n to the length, and copies Uslice[0..n) in ascending order; Peek returns Uslice[0] of a non-empty queue; Empty is len == 0 (R5); every method starts with the nil-receiver guard (R6). Ids strictly increase by induction because insertion is tail-only with last.Id+1 and removal head-only. Not decided as a whole-sequence equivalence with a reference FIFO (no execution, no model).",
	})
}

func runC17(w *World, r *Report, tier string) {
	r.Rule("R1", "purity: Peek, PeekN and Empty contain no store through the receiver and call no mutator")
	r.Rule("R2", "who-writes: UnAckQueue.Uslice is stored only by NewUnAckQueue, Push, Pop and PopN")
	r.Rule("R3", "tail insertion: Push stores append(Uslice, &e) with one fresh element; e.Id is 1 on the empty edge and Uslice[len-1].Id + 1 otherwise; e.Stz is the argument's text")
	r.Rule("R4", "head removal: Pop stores Uslice[1:] only when Peek() != nil and returns that element; PopN stores Uslice[len(PeekN(n)):] and returns PeekN(n)")
	r.Rule("R5", "peeks: PeekN returns nil when n <= 0, clamps n to len(Uslice), copies Uslice[i] for i ascending from 0; Peek returns Uslice[0] iff non-empty; Empty returns len(Uslice) == 0")
	r.Rule("R6", "nil receiver: every method starts with `if uaq == nil` returning the zero result")

	fU := w.Field("stanza.UnAckQueue.Uslice")
	method := func(n string) *ssa.Function { return w.Func("stanza.(*UnAckQueue)." + n) }
	names := []string{"Peek", "PeekN", "Pop", "PopN", "Push", "Empty"}
	U := "field:param:uaq.Uslice"

	// R6
	for _, n := range names {
		fn := method(n)
		b := fn.Blocks[0]
		ok := false
		if c, truth, isIf := edgeAssertion(b, 0); isIf {
			if x, eq, isN := nilCompare(c); isN && x == ssa.Value(fn.Params[0]) {
				nilEdge := 0
				if eq != truth {
					nilEdge = 1
				}
				// no dereference before the test, and the nil edge returns at once
				clean := true
				for _, in := range b.Instrs {
					if _, isFA := in.(*ssa.FieldAddr); isFA {
						clean = false
					}
				}
				tb := b.Succs[nilEdge]
				if rt, isRet := tb.Instrs[len(tb.Instrs)-1].(*ssa.Return); isRet && clean && len(tb.Instrs) <= 2 {
					ok = true
					for _, res := range rt.Results {
						if bv, isB := boolConst(res); isB {
							if !bv && n == "Empty" {
								ok = false // a nil queue is empty
							}
						} else if !isNilConst(res) {
							ok = false
						}
					}
				}
			}
		}
		r.Check(ok, "R6", "stanza.(*UnAckQueue)."+n+"#nil-guard", w.pos(fn.Pos()), "the method does not begin with the nil-receiver guard (the queue is nil until stream management is enabled; Send calls Push on it unconditionally)", "if uaq == nil { return zero }")
	}

	// R1
	mutators := w.isCallTo("stanza.UnAckQueue.Push", "stanza.UnAckQueue.Pop", "stanza.UnAckQueue.PopN")
	for _, n := range []string{"Peek", "PeekN", "Empty"} {
		fn := method(n)
		bad := ""
		allInstrs(fn, func(in ssa.Instruction) {
			if st, ok := in.(*ssa.Store); ok {
				if rootOf(st.Addr) == ssa.Value(fn.Params[0]) {
					bad = "stores through the receiver at " + w.ipos(in)
				}
				// store into an element of the queue's slice
				if ia, ok := st.Addr.(*ssa.IndexAddr); ok {
					if f, _ := loadedField(ia.X); f == fU {
						bad = "overwrites a queue element at " + w.ipos(in)
					}
				}
			}
			if mutators(in) {
				bad = "calls a mutator at " + w.ipos(in)
			}
		})
		r.Check(bad == "", "R1", "stanza.(*UnAckQueue)."+n+"#pure", w.pos(fn.Pos()), "a peek modifies the queue: "+bad, "no store, no mutator call")
	}

	// R2
	allowed := map[string]bool{"stanza.NewUnAckQueue": true, "stanza.(*UnAckQueue).Push": true, "stanza.(*UnAckQueue).Pop": true, "stanza.(*UnAckQueue).PopN": true}
	nW := 0
	for _, a := range w.fieldAccesses(fU, w.LibFuncs()) {
		if a.Kind == "load" || a.Kind == "subfield" {
			continue
		}
		if a.Kind == "whole-store" && !isFreshAllocAddr(a.Addr) {
			r.Fail("R2", w.funcKey(a.Fn)+"#whole-store:UnAckQueue", w.ipos(a.Instr), "a whole queue value is overwritten")
			continue
		}
		if a.Kind != "store" {
			if a.Kind == "addr" {
				r.Fail("R2", w.funcKey(a.Fn)+"#addr:Uslice", w.ipos(a.Instr), "the address of the queue's slice escapes")
			}
			continue
		}
		nW++
		k := w.funcKey(a.Fn)
		r.Check(allowed[k], "R2", k+"#store:Uslice", w.ipos(a.Instr), "the queue's slice is written outside the constructor, Push, Pop and PopN", "allowed writer")
	}
	r.Floor("R2", 4)

	// R3 Push
	{
		fn := method("Push")
		var stores []*ssa.Store
		allInstrs(fn, func(in ssa.Instruction) {
			if st, ok := in.(*ssa.Store); ok && isStoreTo(in, fU) {
				stores = append(stores, st)
			}
		})
		if len(stores) != 1 {
			r.Fail("R3", "stanza.(*UnAckQueue).Push#store", w.pos(fn.Pos()), fmt.Sprintf("%d stores to the slice", len(stores)))
		} else {
			st := stores[0]
			okApp := false
			var elem ssa.Value
			if c, ok := st.Val.(*ssa.Call); ok && w.callKey(c) == "builtin.append" {
				if f, _ := loadedField(c.Call.Args[0]); f == fU {
					els := sliceLitElems(c.Call.Args[1])
					if len(els) == 1 {
						okApp = true
						elem = els[0]
					}
				}
			}
			r.Check(okApp, "R3", "stanza.(*UnAckQueue).Push#append", w.ipos(st), "Push does not append exactly one element to the tail of the current slice: "+w.nf(st.Val, 0), "Uslice = append(Uslice, &e)")
			if okApp {
				al, isAl := elem.(*ssa.Alloc)
				var fields map[string]ssa.Value
				if isAl && al.Heap {
					for _, rf := range *al.Referrers() {
						if s2, ok := rf.(*ssa.Store); ok && s2.Addr == ssa.Value(al) {
							fields, _ = complitFields(s2.Val)
						}
					}
				}
				if fields == nil && isAl && al.Heap {
					// literal built in place in the fresh variable
					if f2, _ := complitFields(al); len(f2) > 0 {
						fields = f2
					}
				}
				if fields == nil {
					r.Undecided("R3", "stanza.(*UnAckQueue).Push#element", w.ipos(st), fmt.Sprintf("the appended element is not a fresh literal: %T %v heap=%v", elem, elem, isAl && al.Heap))
				} else {
					idNF := w.nf(fields["Id"], 0)
					wantID := fmt.Sprintf("phi(1|add(1,field:&index(%s,-(builtin.len(%s),1)).Id))", U, U)
					r.Check(idNF == wantID, "R3", "stanza.(*UnAckQueue).Push#id", w.ipos(st), "the new element's id is "+idNF+", expected "+wantID, "Id = phi(1 | last.Id + 1)")
					// the constant-1 edge is the empty edge
					if phi, ok := fields["Id"].(*ssa.Phi); ok {
						okEdge := true
						for i, e := range phi.Edges {
							pred := phi.Block().Preds[i]
							_, isOne := intConst(e)
							for si, s := range pred.Succs {
								if s != phi.Block() {
									continue
								}
								c, truth, isIf := edgeAssertion(pred, si)
								if !isIf {
									continue
								}
								cn := w.condNF(c, truth)
								if isOne && cn != fmt.Sprintf("eq(0,builtin.len(%s))=true", U) {
									okEdge = false
								}
							}
							if !isOne {
								// computed in a block only reachable when non-empty
								cut := edgesAsserting(fn, func(cv ssa.Value, truth bool) bool {
									return w.condNF(cv, truth) == fmt.Sprintf("eq(0,builtin.len(%s))=false", U)
								})
								if in, ok := e.(ssa.Instruction); ok {
									if len(cut) == 0 || reachable(entryLoc(fn), func(x ssa.Instruction) bool { return x == in }, nil, cut) {
										okEdge = false
									}
								}
							}
						}
						r.Check(okEdge, "R3", "stanza.(*UnAckQueue).Push#id-cases", w.ipos(st), "the id 1 is not used exactly on an empty queue", "1 iff empty")
					}
					T, fp := typeAssertSource(fields["Stz"], fn.Params[1])
					r.Check(T != nil && fp == "Stz", "R3", "stanza.(*UnAckQueue).Push#text", w.ipos(st), "the held text is not the argument's text", "Stz = s.(*UnAckedStz).Stz")
				}
			}
		}
	}

	// R4
	{
		fn := method("Pop")
		var stores []*ssa.Store
		allInstrs(fn, func(in ssa.Instruction) {
			if st, ok := in.(*ssa.Store); ok && isStoreTo(in, fU) {
				stores = append(stores, st)
			}
		})
		ok := len(stores) == 1
		detail := fmt.Sprintf("%d stores", len(stores))
		if ok {
			got := w.nf(stores[0].Val, 0)
			want := fmt.Sprintf("slice(%s,1,_,_)", U)
			if got != want {
				ok, detail = false, "Pop stores "+got+", expected "+want
			}
			// guarded by Peek() != nil, and returns Peek()'s result
			pk := w.callsIn(fn, "stanza.UnAckQueue.Peek")
			if len(pk) != 1 {
				ok, detail = false, "Pop does not consult Peek exactly once"
			} else {
				pv := pk[0].(*ssa.Call)
				cut := edgesAsserting(fn, func(c ssa.Value, truth bool) bool { return assertsNonNil(c, truth, pv) })
				if len(cut) == 0 || reachable(entryLoc(fn), func(in ssa.Instruction) bool { return in == ssa.Instruction(stores[0]) }, nil, cut) {
					ok, detail = false, "Pop removes the head even when the queue is empty (slice bounds out of range)"
				}
				allInstrs(fn, func(in ssa.Instruction) {
					if rt, isRet := in.(*ssa.Return); isRet && !isNilConst(rt.Results[0]) && rt.Results[0] != ssa.Value(pv) {
						ok, detail = false, "Pop returns something other than the peeked head"
					}
				})
			}
		}
		r.Check(ok, "R4", "stanza.(*UnAckQueue).Pop", w.pos(fn.Pos()), detail, "r := Peek(); if r != nil { Uslice = Uslice[1:] }; return r")
	}
	{
		fn := method("PopN")
		var stores []*ssa.Store
		allInstrs(fn, func(in ssa.Instruction) {
			if st, ok := in.(*ssa.Store); ok && isStoreTo(in, fU) {
				stores = append(stores, st)
			}
		})
		ok := len(stores) == 1
		detail := fmt.Sprintf("%d stores", len(stores))
		if ok {
			got := w.nf(stores[0].Val, 0)
			want := fmt.Sprintf("slice(%s,builtin.len(stanza.UnAckQueue.PeekN(param:uaq,param:n)),_,_)", U)
			if got != want {
				ok, detail = false, "PopN stores "+got+", expected "+want
			}
			allInstrs(fn, func(in ssa.Instruction) {
				if rt, isRet := in.(*ssa.Return); isRet && !isNilConst(rt.Results[0]) {
					if w.nf(rt.Results[0], 0) != "stanza.UnAckQueue.PeekN(param:uaq,param:n)" {
						ok, detail = false, "PopN returns something other than PeekN(n)"
					}
				}
			})
		}
		r.Check(ok, "R4", "stanza.(*UnAckQueue).PopN", w.pos(fn.Pos()), detail, "r := PeekN(n); Uslice = Uslice[len(r):]; return r")
	}

	// R5
	{
		fn := method("PeekN")
		n := fn.Params[1]
		nonNilRet := func(in ssa.Instruction) bool {
			rt, ok := in.(*ssa.Return)
			return ok && !isNilConst(rt.Results[0])
		}
		pos := edgesAsserting(fn, func(c ssa.Value, truth bool) bool {
			return w.condNF(c, truth) == "le(param:n,0)=false"
		})
		r.Check(len(pos) > 0 && !reachable(entryLoc(fn), nonNilRet, nil, pos), "R5", "stanza.(*UnAckQueue).PeekN#non-positive", w.pos(fn.Pos()), "PeekN can return elements for n <= 0", "non-nil result only when n > 0")
		// loop: i from 0, i+1, bound phi(n, len(U)), body appends Uslice[i]
		var iPhi, rPhi *ssa.Phi
		var bound ssa.Value
		for _, b := range fn.Blocks {
			for _, in := range b.Instrs {
				phi, ok := in.(*ssa.Phi)
				if !ok {
					continue
				}
				for _, e := range phi.Edges {
					if bo, ok := e.(*ssa.BinOp); ok && bo.Op == token.ADD && bo.X == ssa.Value(phi) {
						if one, ok := intConst(bo.Y); ok && one == 1 {
							iPhi = phi
						}
					}
					if c, ok := e.(*ssa.Call); ok && w.callKey(c) == "builtin.append" && c.Call.Args[0] == ssa.Value(phi) {
						rPhi = phi
					}
				}
			}
		}
		okLoop := iPhi != nil && rPhi != nil
		detail := "no copy loop of the expected shape (i ascending by 1, r = append(r, Uslice[i]))"
		if okLoop {
			startsAt0 := false
			for _, e := range iPhi.Edges {
				if z, ok := intConst(e); ok && z == 0 {
					startsAt0 = true
				}
			}
			if !startsAt0 {
				okLoop, detail = false, "the copy does not start at index 0"
			}
			// loop condition i < bound
			if c, truth, ok := edgeAssertion(iPhi.Block(), 0); ok {
				bo, isB := c.(*ssa.BinOp)
				if !isB || bo.Op != token.LSS || bo.X != ssa.Value(iPhi) || !truth {
					okLoop, detail = false, "the loop condition is not i < n"
				} else {
					bound = bo.Y
				}
			}
			// appended element is Uslice[i]
			for _, e := range rPhi.Edges {
				if c, ok := e.(*ssa.Call); ok {
					els := sliceLitElems(c.Call.Args[1])
					okEl := false
					if len(els) == 1 {
						e0 := els[0]
						if mi, ok := e0.(*ssa.MakeInterface); ok {
							e0 = mi.X
						}
						if u, ok := e0.(*ssa.UnOp); ok && u.Op == token.MUL {
							if ia, ok := u.X.(*ssa.IndexAddr); ok && ia.Index == ssa.Value(iPhi) {
								if f, _ := loadedField(ia.X); f == fU {
									okEl = true
								}
							}
						}
					}
					if !okEl {
						okLoop, detail = false, "the loop does not append Uslice[i]"
					}
				}
			}
			// returns r
			allInstrs(fn, func(in ssa.Instruction) {
				if rt, ok := in.(*ssa.Return); ok && !isNilConst(rt.Results[0]) && rt.Results[0] != ssa.Value(rPhi) {
					okLoop, detail = false, "PeekN returns something other than the copied elements"
				}
			})
		}
		r.Check(okLoop, "R5", "stanza.(*UnAckQueue).PeekN#copy-loop", w.pos(fn.Pos()), detail, "for i := 0; i < n; i++ { r = append(r, Uslice[i]) }")
		if okLoop && bound != nil {
			got := w.nf(bound, 0)
			want := fmt.Sprintf("phi(builtin.len(%s)|param:n)", U)
			okClamp := got == want
			if okClamp {
				if phi, ok := bound.(*ssa.Phi); ok {
					for i, e := range phi.Edges {
						if e == ssa.Value(n) {
							continue
						}
						pred := phi.Block().Preds[i]
						cut := edgesAsserting(fn, func(c ssa.Value, truth bool) bool {
							return w.condNF(c, truth) == fmt.Sprintf("le(param:n,builtin.len(%s))=false", U)
						})
						if len(cut) == 0 || reachable(entryLoc(fn), func(x ssa.Instruction) bool { return x.Block() == pred }, nil, cut) {
							okClamp = false
						}
					}
				}
			}
			r.Check(okClamp, "R5", "stanza.(*UnAckQueue).PeekN#clamp", w.pos(fn.Pos()), "the number of elements copied is "+got+", expected n clamped to the length ("+want+" with the length chosen exactly when len < n): an n larger than the queue indexes out of range", "bound = min(n, len(Uslice))")
		}
	}
	{
		fn := method("Peek")
		ok := true
		detail := ""
		nNon := 0
		walkPaths(entryLoc(fn), nil, nil, 100, func(path []ssa.Instruction, end pathEnd) {
			rt, isRet := path[len(path)-1].(*ssa.Return)
			if !isRet {
				return
			}
			if isNilConst(rt.Results[0]) {
				return
			}
			nNon++
			if w.nf(rt.Results[0], 0) != fmt.Sprintf("index(%s,0)", U) {
				ok, detail = false, "Peek returns "+w.nf(rt.Results[0], 0)+", not the head Uslice[0]"
			}
			conds := strings.Join(w.pathConds(path), " ∧ ")
			if !strings.Contains(conds, fmt.Sprintf("eq(0,builtin.len(%s))=false", U)) {
				ok, detail = false, "Peek indexes the slice without having checked that it is non-empty"
			}
		})
		r.Check(ok && nNon > 0, "R5", "stanza.(*UnAckQueue).Peek", w.pos(fn.Pos()), detail, "Uslice[0] iff len != 0")
	}
	{
		fn := method("Empty")
		ok := false
		allInstrs(fn, func(in ssa.Instruction) {
			if rt, isRet := in.(*ssa.Return); isRet {
				if _, isC := boolConst(rt.Results[0]); isC {
					return
				}
				if w.condNF(rt.Results[0], true) == fmt.Sprintf("eq(0,builtin.len(%s))=true", U) {
					ok = true
				} else {
					ok = false
				}
			}
		})
		r.Check(ok, "R5", "stanza.(*UnAckQueue).Empty", w.pos(fn.Pos()), "Empty is not len(Uslice) == 0", "len(Uslice) == 0")
	}
}
