package main

// C17 — the unacknowledged-stanza queue is a FIFO with increasing sequence numbers.

import (
	"fmt"
	"go/token"
	"sort"
	"strings"

	"golang.org/x/tools/go/ssa"
)

func init() {
	register(&propDef{
		id: "C17", level: "other", run: runC17,
		trusted: []string{"append(s, x) adds x after the last element; s[k:] drops the first k elements; len"},
		explain: "Decides the local facts from which FIFO behaviour follows by induction on the operation sequence, on six tiny functions: peeks and Empty store nothing and call no mutator (R1); only the constructor, Push, Pop and PopN write the slice, and package xmpp never does (R2); Push appends exactly one fresh element at the tail whose id is 1 on an empty queue and last.Id+1 otherwise, carrying the given text (R3); Pop/PopN remove from the head exactly as many elements as the corresponding peek returned, and return those (R4); PeekN returns nil for n <= 0, clamps n to the length, and copies Uslice[0..n) in ascending order; Peek returns Uslice[0] of a non-empty queue; Empty is len == 0 (R5); no method dereferences a nil receiver and a nil queue is empty (R6). Ids strictly increase by induction because insertion is tail-only with last.Id+1 and removal head-only. The facts are phrased over edges and normal forms, so guard merging, helper extraction, range/index loop forms and inlining of one method into another do not matter. Not decided as a whole-sequence equivalence with a reference FIFO (no execution, no model).",
	})
}

func runC17(w *World, r *Report, tier string) {
	r.Rule("R1", "purity: Peek, PeekN and Empty contain no store through the receiver and call no mutator")
	r.Rule("R2", "who-writes: UnAckQueue.Uslice is stored only by NewUnAckQueue, Push, Pop and PopN")
	r.Rule("R3", "tail insertion: Push stores append(Uslice, &e) with one fresh element; e.Id is 1 on the empty path and Uslice[len-1].Id + 1 otherwise; e.Stz is the argument's text")
	r.Rule("R4", "head removal: Pop stores Uslice[1:] only when the queue is non-empty and returns the former head; PopN stores Uslice[len(PeekN(n)):] and returns PeekN(n)")
	r.Rule("R5", "peeks: PeekN returns nil when n <= 0, clamps n to len(Uslice), copies Uslice[i] for i ascending from 0; Peek returns Uslice[0] iff non-empty; Empty returns len(Uslice) == 0")
	r.Rule("R6", "nil receiver: no dereference of the receiver is reachable unless an edge has established that it is non-nil (directly, or through Empty()==false / Peek()!=nil of the same receiver); a nil queue is empty")

	fU := w.Field("stanza.UnAckQueue.Uslice")
	method := func(n string) *ssa.Function { return w.Func("stanza.(*UnAckQueue)." + n) }
	names := []string{"Peek", "PeekN", "Pop", "PopN", "Push", "Empty"}

	// edges of fn that establish "the queue is not empty" / "the receiver is not nil"
	isRecv := func(fn *ssa.Function, v ssa.Value) bool {
		o := origin(v)
		return o == ssa.Value(fn.Params[0])
	}
	isLenU := func(v ssa.Value) bool {
		c, ok := v.(*ssa.Call)
		if !ok || w.callKey(c) != "builtin.len" {
			return false
		}
		f, _ := loadedField(origin(c.Call.Args[0]))
		return f == fU
	}
	// (res: how a value is to be resolved — identity for the flow-insensitive use, along the path for the path-based one)
	assertsNonEmpty := func(fn *ssa.Function, c ssa.Value, truth bool, res func(ssa.Value) ssa.Value) bool {
		if bo, ok := c.(*ssa.BinOp); ok {
			if z, isZ := intConst(bo.Y); isZ && z == 0 && isLenU(bo.X) {
				switch bo.Op {
				case token.EQL, token.LEQ:
					return !truth
				case token.NEQ, token.GTR:
					return truth
				}
			}
			if z, isZ := intConst(bo.X); isZ && z == 0 && isLenU(bo.Y) {
				switch bo.Op {
				case token.EQL, token.GEQ:
					return !truth
				case token.NEQ, token.LSS:
					return truth
				}
			}
		}
		if call, _ := callResult(res(c)); call != nil && w.callKey(call) == "stanza.UnAckQueue.Empty" && isRecv(fn, call.Call.Args[0]) {
			return !truth
		}
		if x, eq, ok := nilCompare(c); ok {
			if call, _ := callResult(res(x)); call != nil && w.callKey(call) == "stanza.UnAckQueue.Peek" && isRecv(fn, call.Call.Args[0]) {
				return eq != truth
			}
		}
		return false
	}
	nonEmptyEdges := func(fn *ssa.Function) EdgeSet {
		return edgesAsserting(fn, func(c ssa.Value, truth bool) bool {
			return assertsNonEmpty(fn, c, truth, func(v ssa.Value) ssa.Value { return v })
		})
	}
	// path-based form: every path from the entry that passes `at` has crossed an edge establishing non-emptiness
	// (a test in a deferred function literal, or of a variable kept in memory, is resolved along the path)
	nonEmptyOnPathsTo := func(fn *ssa.Function, at ssa.Instruction) bool {
		okAll, n := true, 0
		err := walkPaths(entryLoc(fn), nil, nil, 5000, func(path []ssa.Instruction, end pathEnd) {
			if countOn(path, func(in ssa.Instruction) bool { return in == at }) == 0 {
				return
			}
			n++
			if !pathAsserts(path, func(c ssa.Value, truth bool) bool {
				return assertsNonEmpty(fn, c, truth, func(v ssa.Value) ssa.Value { return resolveOn(v, curEdgeIdx, path) })
			}) {
				okAll = false
			}
		})
		return err == nil && okAll && n > 0
	}
	nonNilEdges := func(fn *ssa.Function) EdgeSet {
		direct := edgesAsserting(fn, func(c ssa.Value, truth bool) bool {
			x, eq, ok := nilCompare(c)
			return ok && isRecv(fn, x) && eq != truth
		})
		return direct.union(nonEmptyEdges(fn))
	}

	// ---- R6
	for _, n := range names {
		fn := method(n)
		cut := nonNilEdges(fn)
		var derefs []ssa.Instruction
		allInstrsH(fn, func(in ssa.Instruction) {
			if fa, ok := in.(*ssa.FieldAddr); ok && isRecv(fn, fa.X) {
				derefs = append(derefs, in)
			}
		})
		bad := ""
		for _, d := range derefs {
			if len(cut) == 0 || reachable(entryLoc(fn), func(in ssa.Instruction) bool { return in == d }, nil, cut) {
				bad = "the receiver is dereferenced at " + w.ipos(d) + " on a path on which it may be nil (the queue is nil until stream management is enabled; Send calls Push on it unconditionally)"
			}
		}
		// the nil path returns the zero result; a nil queue is empty
		if n == "Empty" {
			okTrue, nNil := true, 0
			walkPaths(entryLoc(fn), nil, nil, 500, func(path []ssa.Instruction, end pathEnd) {
				rt, ok := path[len(path)-1].(*ssa.Return)
				if !ok {
					return
				}
				isNilPath := pathAsserts(path, func(c ssa.Value, truth bool) bool {
					x, eq, ok := nilCompare(c)
					return ok && isRecv(fn, x) && eq == truth
				})
				if !isNilPath {
					return
				}
				nNil++
				if b, isC := boolConst(resolveOn(rres(path, rt)[0], len(path)-1, path)); !isC || !b {
					okTrue = false
				}
			})
			if nNil == 0 {
				okTrue = false
			}
			if !okTrue {
				bad = "Empty does not report a nil queue as empty"
			}
		}
		delegates := len(w.callsInH(fn, "stanza.UnAckQueue.PeekN", "stanza.UnAckQueue.Peek", "stanza.UnAckQueue.Empty", "stanza.UnAckQueue.Pop", "stanza.UnAckQueue.PopN")) > 0
		r.Check(bad == "" && (len(derefs) > 0 || delegates), "R6", "stanza.(*UnAckQueue)."+n+"#nil-safe", w.pos(fn.Pos()), bad, fmt.Sprintf("%d dereference(s), all behind a non-nil / non-empty edge", len(derefs)))
	}

	// ---- R1
	mutators := w.isCallTo("stanza.UnAckQueue.Push", "stanza.UnAckQueue.Pop", "stanza.UnAckQueue.PopN")
	for _, n := range []string{"Peek", "PeekN", "Empty"} {
		fn := method(n)
		bad := ""
		allInstrsH(fn, func(in ssa.Instruction) {
			if st, ok := in.(*ssa.Store); ok {
				if isRecv(fn, rootOf(st.Addr)) {
					bad = "stores through the receiver at " + w.ipos(in)
				}
				if ia, ok := st.Addr.(*ssa.IndexAddr); ok {
					if f, _ := loadedField(origin(ia.X)); f == fU {
						bad = "overwrites a queue element at " + w.ipos(in)
					}
				}
			}
			if mutators(in) {
				bad = "calls a mutator at " + w.ipos(in)
			}
		})
		r.Check(bad == "", "R1", "stanza.(*UnAckQueue)."+n+"#pure", w.pos(fn.Pos()), "a peek modifies the queue: "+bad, "no store, no mutator call")
	}

	// ---- R2
	allowed := map[string]bool{"stanza.NewUnAckQueue": true, "stanza.(*UnAckQueue).Push": true, "stanza.(*UnAckQueue).Pop": true, "stanza.(*UnAckQueue).PopN": true}
	ownerOf := func(f *ssa.Function) string {
		// a helper the reference tree does not have (or a function literal called or deferred where it is written)
		// counts for the known function it runs for
		return w.ownerKey(f)
	}
	for _, a := range w.fieldAccesses(fU, w.LibFuncs()) {
		if a.Kind == "load" || a.Kind == "subfield" {
			continue
		}
		if a.Kind == "whole-store" && !isFreshAllocAddr(a.Addr) {
			r.Fail("R2", w.funcKey(a.Fn)+"#whole-store:UnAckQueue", w.ipos(a.Instr), "a whole queue value is overwritten")
			continue
		}
		if a.Kind != "store" {
			if a.Kind == "addr" {
				r.Fail("R2", w.funcKey(a.Fn)+"#addr:Uslice", w.ipos(a.Instr), "the address of the queue's slice escapes")
			}
			continue
		}
		k := ownerOf(a.Fn)
		if !allowed[k] {
			// a helper that runs only for the allowed writers writes for them
			forWhom := map[string]bool{}
			var onlyFor func(f *ssa.Function, depth int) bool
			onlyFor = func(f *ssa.Function, depth int) bool {
				if allowed[ownerOf(f)] {
					forWhom[ownerOf(f)] = true
					return true
				}
				sites := w.callSitesOf(w.ownerFn(f))
				if depth > 2 || len(sites) == 0 || !isHelper(w.ownerFn(f)) {
					return false
				}
				for _, c := range sites {
					if !onlyFor(c.Parent(), depth+1) {
						return false
					}
				}
				return true
			}
			if onlyFor(a.Fn, 0) {
				for _, o := range sortedKeysB(forWhom) {
					r.Ok("R2", o+"→"+k+"#store:Uslice", "helper called only by the allowed writers")
				}
				continue
			}
		}
		r.Check(allowed[k], "R2", k+"#store:Uslice", w.ipos(a.Instr), "the queue's slice is written outside the constructor, Push, Pop and PopN", "allowed writer")
	}
	r.Floor("R2", 4)

	storesOf := func(fn *ssa.Function) []*ssa.Store {
		var out []*ssa.Store
		allInstrsH(fn, func(in ssa.Instruction) {
			if st, ok := in.(*ssa.Store); ok && isStoreTo(in, fU) {
				out = append(out, st)
			}
		})
		return out
	}
	U := func(fn *ssa.Function) string { return "field:param:" + fn.Params[0].Name() + ".Uslice" }

	// ---- R3 Push (per path)
	{
		fn := method("Push")
		stores := storesOf(fn)
		if len(stores) != 1 {
			r.Fail("R3", "stanza.(*UnAckQueue).Push#store", w.pos(fn.Pos()), fmt.Sprintf("%d stores to the slice", len(stores)))
		} else {
			st := stores[0]
			isSt := func(in ssa.Instruction) bool { return in == ssa.Instruction(st) }
			bad := ""
			nEmpty, nNon := 0, 0
			walkPaths(entryLoc(fn), isSt, nil, 20000, func(path []ssa.Instruction, end pathEnd) {
				if !isSt(path[len(path)-1]) {
					return
				}
				idx := len(path) - 1
				val := rvI(st.Val, idx)
				c, ok := val.(*ssa.Call)
				if !ok || w.callKey(c) != "builtin.append" || w.nfOn(c.Call.Args[0], path) != U(fn) {
					bad = "Push does not append to the tail of the current slice: " + w.nfOn(st.Val, path)
					return
				}
				els := sliceLitElems(c.Call.Args[1])
				if len(els) != 1 {
					bad = fmt.Sprintf("Push appends %d elements", len(els))
					return
				}
				elem := rvAny(els[0])
				al, isAl := elem.(*ssa.Alloc)
				if !isAl || !al.Heap {
					bad = "the appended element is not a fresh value (the caller's element would be aliased and its id rewritten): " + w.nfOn(els[0], path)
					return
				}
				var fields map[string]ssa.Value
				for _, rf := range *al.Referrers() {
					if s2, ok := rf.(*ssa.Store); ok && s2.Addr == ssa.Value(al) {
						fields, _ = complitFields(s2.Val)
					}
				}
				if fields == nil {
					if f2, _ := complitFields(al); len(f2) > 0 {
						fields = f2
					}
				}
				if fields == nil {
					bad = "the appended element is not a literal"
					return
				}
				idNF := w.nfOn(fields["Id"], path)
				conds := strings.Join(w.pathConds(path), " ∧ ")
				emptyT := fmt.Sprintf("eq(0,builtin.len(%s))=true", U(fn))
				emptyF := fmt.Sprintf("eq(0,builtin.len(%s))=false", U(fn))
				lastID := fmt.Sprintf("add(1,field:&index(%s,-(builtin.len(%s),1)).Id)", U(fn), U(fn))
				switch {
				case strings.Contains(conds, emptyT):
					nEmpty++
					if idNF != "1" {
						bad = "on an empty queue the new element's id is " + idNF + ", not 1"
					}
				case strings.Contains(conds, emptyF):
					nNon++
					if idNF != lastID {
						bad = "on a non-empty queue the new element's id is " + idNF + ", not last.Id + 1 (" + lastID + ")"
					}
				default:
					bad = "the id " + idNF + " is chosen without testing whether the queue is empty"
				}
				T, fp := typeAssertSource(rvAny(fields["Stz"]), fn.Params[1])
				if T == nil || fp != "Stz" {
					bad = "the held text is not the argument's text: " + w.nfOn(fields["Stz"], path)
				}
			})
			r.Check(bad == "" && nEmpty > 0 && nNon > 0, "R3", "stanza.(*UnAckQueue).Push", w.ipos(st), bad, fmt.Sprintf("Uslice = append(Uslice, &e) with a fresh e; Id = 1 on %d empty path(s), last.Id+1 on %d non-empty path(s); Stz = argument's text", nEmpty, nNon))
		}
	}

	// ---- R4
	{
		fn := method("Pop")
		stores := storesOf(fn)
		ok := len(stores) == 1
		detail := fmt.Sprintf("%d stores to the slice", len(stores))
		if ok {
			st := stores[0]
			got := w.nf(st.Val, 0)
			want := fmt.Sprintf("slice(%s,1,_,_)", U(fn))
			if got != want {
				// (a store in a helper shared with PopN reads the helper's parameter: judged on each path of Pop)
				nOn, okOn := 0, true
				walkPaths(entryLoc(fn), nil, nil, 5000, func(path []ssa.Instruction, end pathEnd) {
					if countOn(path, func(in ssa.Instruction) bool { return in == ssa.Instruction(st) }) == 0 {
						return
					}
					nOn++
					if g := w.nfOn(st.Val, path); g != want {
						okOn = false
						got = g
					}
				})
				if nOn == 0 || !okOn {
					ok, detail = false, "Pop stores "+got+", expected "+want
				}
			}
			cut := nonEmptyEdges(fn)
			if (len(cut) == 0 || reachable(entryLoc(fn), func(in ssa.Instruction) bool { return in == ssa.Instruction(st) }, nil, cut)) && !nonEmptyOnPathsTo(fn, st) {
				ok, detail = false, "Pop removes the head even when the queue is empty (slice bounds out of range)"
			}
			// every non-nil result is the former head: Peek()'s result or Uslice[0] read before the store
			walkPaths(entryLoc(fn), nil, nil, 5000, func(path []ssa.Instruction, end pathEnd) {
				rt, isRet := path[len(path)-1].(*ssa.Return)
				if !isRet {
					return
				}
				res := rvI(rres(path, rt)[0], len(path)-1)
				if isNilConst(res) || pathAsserts(path, func(c ssa.Value, truth bool) bool { return assertsNil(c, truth, res) }) {
					if countOn(path, func(in ssa.Instruction) bool { return in == ssa.Instruction(st) }) > 0 {
						ok, detail = false, "Pop removes an element and returns nil"
					}
					return
				}
				nfv := w.nfOn(rres(path, rt)[0], path)
				isPeek := strings.HasPrefix(nfv, "stanza.UnAckQueue.Peek(")
				isHead := nfv == fmt.Sprintf("index(%s,0)", U(fn))
				if !isPeek && !isHead {
					ok, detail = false, "Pop returns "+nfv+", not the former head"
					return
				}
				if isHead {
					// the element must have been read before the slice was cut
					var ld ssa.Instruction
					v := res
					if mi, isMI := v.(*ssa.MakeInterface); isMI {
						v = mi.X
					}
					if u, isU := v.(*ssa.UnOp); isU {
						ld = u
					}
					iL, iS := -1, -1
					for i, in := range path {
						if in == ld {
							iL = i
						}
						if in == ssa.Instruction(st) {
							iS = i
						}
					}
					if iS >= 0 && (iL < 0 || iL > iS) {
						ok, detail = false, "Pop reads the head after having removed it: it returns the second element"
					}
				}
				if countOn(path, func(in ssa.Instruction) bool { return in == ssa.Instruction(st) }) != 1 {
					ok, detail = false, "Pop returns an element without removing it"
				}
			})
		}
		r.Check(ok, "R4", "stanza.(*UnAckQueue).Pop", w.pos(fn.Pos()), detail, "removes Uslice[0] only when non-empty and returns it")
	}
	{
		fn := method("PopN")
		stores := storesOf(fn)
		ok := len(stores) == 1
		detail := fmt.Sprintf("%d stores", len(stores))
		if ok {
			got := w.nf(stores[0].Val, 0)
			peek := fmt.Sprintf("stanza.UnAckQueue.PeekN(param:%s,param:%s)", fn.Params[0].Name(), fn.Params[1].Name())
			want := fmt.Sprintf("slice(%s,builtin.len(%s),_,_)", U(fn), peek)
			perPath := got != want // (a store in a deferred literal reads the result variable: judged on each path)
			walkPaths(entryLoc(fn), nil, nil, 500, func(path []ssa.Instruction, end pathEnd) {
				rt, isRet := path[len(path)-1].(*ssa.Return)
				if !isRet {
					return
				}
				res := rres(path, rt)[0]
				stored := countOn(path, func(in ssa.Instruction) bool { return in == ssa.Instruction(stores[0]) }) > 0
				if perPath && stored {
					if g := w.nfOn(stores[0].Val, path); g != want {
						ok, detail = false, "PopN stores "+g+", expected "+want
					}
				}
				if isNilConst(res) {
					if stored {
						ok, detail = false, "PopN removes elements and returns nil"
					}
					return
				}
				if w.nfOn(res, path) != peek || !stored {
					ok, detail = false, "PopN returns something other than PeekN(n), or returns it without removing it"
				}
			})
		}
		r.Check(ok, "R4", "stanza.(*UnAckQueue).PopN", w.pos(fn.Pos()), detail, "r := PeekN(n); Uslice = Uslice[len(r):]; return r")
	}

	// ---- R5
	{
		fn := method("PeekN")
		n := fn.Params[1]
		nonNilRet := func(in ssa.Instruction) bool {
			rt, ok := in.(*ssa.Return)
			return ok && in.Parent() == fn && !isNilConst(rt.Results[0])
		}
		pos := edgesAsserting(fn, func(c ssa.Value, truth bool) bool {
			s := w.condNF(c, truth)
			return s == "le(param:"+n.Name()+",0)=false"
		})
		r.Check(len(pos) > 0 && !reachable(entryLoc(fn), nonNilRet, nil, pos), "R5", "stanza.(*UnAckQueue).PeekN#non-positive", w.pos(fn.Pos()), "PeekN can return elements for n <= 0", "non-nil result only when n > 0")
		// a nil result only for a nil receiver, n <= 0 or an empty queue
		{
			badNil, nNilRet := "", 0
			walkPaths(entryLoc(fn), nil, nil, 2000, func(path []ssa.Instruction, end pathEnd) {
				rt, isRet := path[len(path)-1].(*ssa.Return)
				// only explicit `return nil` statements: an accumulator that is still nil after a copy loop over nothing is
				// governed by the clamp and copy-loop rules
				if !isRet || end == endCycle || !isNilConst(rt.Results[0]) {
					return
				}
				nNilRet++
				saved := nfPath
				nfPath = path
				okWhy := pathAsserts(path, func(c ssa.Value, truth bool) bool {
					if x, eq, isN := nilCompare(c); isN && isRecv(fn, x) && eq == truth {
						return true
					}
					switch w.condNF(c, truth) {
					case "le(param:" + n.Name() + ",0)=true", fmt.Sprintf("eq(0,builtin.len(%s))=true", U(fn)), fmt.Sprintf("le(builtin.len(%s),0)=true", U(fn)):
						return true
					}
					return false
				})
				nfPath = saved
				if !okWhy {
					badNil = "PeekN returns nothing at " + w.ipos(rt) + " although the receiver is not nil, n > 0 and the queue is not known to be empty"
				}
			})
			r.Check(badNil == "" && nNilRet > 0, "R5", "stanza.(*UnAckQueue).PeekN#nil-only-when-nothing-to-return", w.pos(fn.Pos()), badNil, fmt.Sprintf("%d nil return(s), each for a nil receiver, n <= 0 or an empty queue", nNilRet))
		}
		// copy loop: either `for i := 0; i < bound; i++ { r = append(r, Uslice[i]) }` or `for _, e := range Uslice[:bound] { r = append(r, e) }`
		var bound ssa.Value
		okLoop, detail := false, "no copy loop of a recognised shape (ascending from 0, r = append(r, Uslice[i]))"
		var rPhi *ssa.Phi
		appendOf := func(idxOK func(ia *ssa.IndexAddr) bool) bool {
			found := false
			allInstrs(fn, func(in ssa.Instruction) {
				phi, ok := in.(*ssa.Phi)
				if !ok {
					return
				}
				for _, e := range phi.Edges {
					c, ok := e.(*ssa.Call)
					if !ok || w.callKey(c) != "builtin.append" || c.Call.Args[0] != ssa.Value(phi) {
						continue
					}
					els := sliceLitElems(c.Call.Args[1])
					if len(els) != 1 {
						continue
					}
					e0 := els[0]
					if mi, ok := e0.(*ssa.MakeInterface); ok {
						e0 = mi.X
					}
					if u, ok := e0.(*ssa.UnOp); ok && u.Op == token.MUL {
						if ia, ok := u.X.(*ssa.IndexAddr); ok && idxOK(ia) {
							found = true
							rPhi = phi
						}
					}
				}
			})
			return found
		}
		// form (a)
		var iPhi *ssa.Phi
		allInstrs(fn, func(in ssa.Instruction) {
			if phi, ok := in.(*ssa.Phi); ok {
				for _, e := range phi.Edges {
					if bo, ok := e.(*ssa.BinOp); ok && bo.Op == token.ADD && bo.X == ssa.Value(phi) {
						if one, ok := intConst(bo.Y); ok && one == 1 {
							for _, e2 := range phi.Edges {
								if z, ok := intConst(e2); ok && z == 0 {
									iPhi = phi
								}
							}
						}
					}
				}
			}
		})
		if iPhi != nil && appendOf(func(ia *ssa.IndexAddr) bool {
			f, _ := loadedField(ia.X)
			return ia.Index == ssa.Value(iPhi) && f == fU
		}) {
			if c, truth, ok := edgeAssertion(iPhi.Block(), 0); ok {
				if bo, isB := c.(*ssa.BinOp); isB && bo.Op == token.LSS && bo.X == ssa.Value(iPhi) && truth {
					bound = bo.Y
					okLoop = true
				}
			}
		}
		// form (b)
		if !okLoop {
			for _, lp := range findRangeLoops(fn) {
				sl, ok := lp.slice.(*ssa.Slice)
				if !ok || sl.Low != nil || sl.High == nil {
					continue
				}
				if f, _ := loadedField(sl.X); f != fU {
					continue
				}
				if appendOf(func(ia *ssa.IndexAddr) bool { return ia.Index == lp.idx && ia.X == ssa.Value(sl) }) {
					bound = sl.High
					okLoop = true
				}
			}
		}
		if okLoop {
			allInstrs(fn, func(in ssa.Instruction) {
				if rt, ok := in.(*ssa.Return); ok && !isNilConst(rt.Results[0]) && rt.Results[0] != ssa.Value(rPhi) {
					okLoop, detail = false, "PeekN returns something other than the copied elements"
				}
			})
		}
		r.Check(okLoop, "R5", "stanza.(*UnAckQueue).PeekN#copy-loop", w.pos(fn.Pos()), detail, "copies Uslice[0..bound) in ascending order")
		if okLoop && bound != nil {
			got := w.nf(bound, 0)
			want := fmt.Sprintf("phi(builtin.len(%s)|param:%s)", U(fn), n.Name())
			okClamp := got == want
			// (a clamp the normal form has already recognised as min(n, len): its guard was checked there)
			if got == fmt.Sprintf("math.Min(builtin.len(%s),param:%s)", U(fn), n.Name()) || got == fmt.Sprintf("math.Min(param:%s,builtin.len(%s))", n.Name(), U(fn)) {
				okClamp = true
			} else if okClamp {
				if phi, ok := bound.(*ssa.Phi); ok {
					for i, e := range phi.Edges {
						if e == ssa.Value(n) {
							continue
						}
						pred := phi.Block().Preds[i]
						cut := edgesAsserting(fn, func(c ssa.Value, truth bool) bool {
							return w.condNF(c, truth) == fmt.Sprintf("le(param:%s,builtin.len(%s))=false", n.Name(), U(fn))
						})
						if len(cut) == 0 || reachable(entryLoc(fn), func(x ssa.Instruction) bool { return x.Block() == pred }, nil, cut) {
							okClamp = false
						}
					}
				}
			}
			r.Check(okClamp, "R5", "stanza.(*UnAckQueue).PeekN#clamp", w.pos(fn.Pos()), "the number of elements copied is "+got+", expected n clamped to the length ("+want+" with the length chosen exactly when len < n): an n larger than the queue indexes out of range", "bound = min(n, len(Uslice))")
		}
	}
	{
		fn := method("Peek")
		ok := true
		detail := ""
		nNon := 0
		cut := nonEmptyEdges(fn)
		walkPaths(entryLoc(fn), nil, nil, 200, func(path []ssa.Instruction, end pathEnd) {
			rt, isRet := path[len(path)-1].(*ssa.Return)
			if !isRet {
				return
			}
			if isNilConst(rvI(rres(path, rt)[0], len(path)-1)) {
				return
			}
			nNon++
			got := w.nfOn(rres(path, rt)[0], path)
			viaNonEmpty := false
			pathEdges(path, func(b *ssa.BasicBlock, succ int) {
				if cut[Edge{b, succ}] {
					viaNonEmpty = true
				}
			})
			// the head taken from PeekN(1), which R5 establishes to be the first min(1, len) elements
			peek1 := fmt.Sprintf("stanza.UnAckQueue.PeekN(param:%s,1)", fn.Params[0].Name())
			if got == "index("+peek1+",0)" {
				if pathAsserts(path, func(c ssa.Value, truth bool) bool {
					cn := w.condNF(c, truth)
					return cn == "eq(0,builtin.len("+peek1+"))=false" || cn == "le(builtin.len("+peek1+"),0)=false"
				}) {
					return
				}
				ok, detail = false, "Peek indexes PeekN(1) without having checked that it is non-empty"
				return
			}
			if got != fmt.Sprintf("index(%s,0)", U(fn)) {
				ok, detail = false, "Peek returns "+got+", not the head Uslice[0]"
			}
			if !viaNonEmpty {
				ok, detail = false, "Peek indexes the slice without having checked that it is non-empty"
			}
		})
		r.Check(ok && nNon > 0, "R5", "stanza.(*UnAckQueue).Peek", w.pos(fn.Pos()), detail, "Uslice[0] iff non-empty")
	}
	{
		fn := method("Empty")
		ok, n := true, 0
		walkPaths(entryLoc(fn), nil, nil, 200, func(path []ssa.Instruction, end pathEnd) {
			rt, isRet := path[len(path)-1].(*ssa.Return)
			if !isRet {
				return
			}
			res := resolveOn(rres(path, rt)[0], len(path)-1, path)
			if _, isC := boolConst(res); isC {
				return
			}
			n++
			saved := nfPath
			nfPath = path
			got := w.condNF(res, true)
			nfPath = saved
			if got != fmt.Sprintf("eq(0,builtin.len(%s))=true", U(fn)) && got != fmt.Sprintf("le(builtin.len(%s),0)=true", U(fn)) {
				ok = false
			}
		})
		r.Check(ok && n > 0, "R5", "stanza.(*UnAckQueue).Empty", w.pos(fn.Pos()), "Empty is not len(Uslice) == 0", "len(Uslice) == 0")
	}
}

func sortedKeysB(m map[string]bool) []string {
	var out []string
	for k := range m {
		out = append(out, k)
	}
	sort.Strings(out)
	return out
}
