package main

// C04 — no credentials or stanzas without verified TLS unless insecure mode is
// requested. Configurations and server replies only select a path; the
// obligations are facts about all paths.

import (
	"fmt"
	"go/types"
	"sort"
	"strings"

	"golang.org/x/tools/go/ssa"
)

func init() {
	register(&propDef{
		id: "C04", level: "proof", run: runC04,
		trusted: []string{
			"crypto/tls: (*Conn).Handshake returns nil only after a completed handshake whose certificate chain verified (unless InsecureSkipVerify); VerifyHostname(h) returns nil only if the peer certificate is valid for h",
			"net.Conn / tls.Conn: bytes written through a *tls.Conn after a successful handshake are protected",
			"nhooyr.io/websocket: Dial with a wss: URL and no custom HTTPClient performs default certificate verification",
		},
		explain: "Decides the whole statement as path facts: (O1) in NewSession every path from entry to auth/resume/bind/session/enable-SM crosses the true edge of Transport.IsSecure() or of Config.Insecure, and nothing between that test and auth can change the flag; (O2) every byte written before the gate is a constant or the stream header; (O3) isSecure is set to true only after Handshake()==nil and (InsecureSkipVerify or VerifyHostname(Config.Domain)==nil) on the very connection that becomes t.conn; (O4) every function that replaces t.conn also writes isSecure, so the flag describes the current connection; (O5) no library code relaxes Config.Insecure or InsecureSkipVerify; (O6) the websocket transport is secure exactly for wss: and supplies no custom HTTP client.",
		assume:  []string{"the application does not mutate Config or the transport concurrently with Connect", "one negotiation runs at a time per Client"},
	})
}

func runC04(w *World, r *Report, tier string) {
	r.Rule("O1", "gate: with the true-edges of Transport.IsSecure() and Config.Insecure deleted, auth, resume, bind, rfc3921Session and EnableStreamManagement are unreachable from NewSession's entry; no call between the gate test and auth can store the secure flag or the connection")
	r.Rule("O2", "pre-gate writes: every write reachable before the gate (from Client.connect through NewSession's ungated part) writes a constant, the stream header with Config.Domain, or is a pass-through wrapper")
	r.Rule("O3", "flag invariant: isSecure is stored only by XMPPTransport methods; a store of true is unreachable once the err==nil edge of Handshake is deleted, and unreachable once both the InsecureSkipVerify true-edge and the err==nil edge of VerifyHostname(Config.Domain) are deleted; the handshaken connection is the one stored in conn")
	r.Rule("O4", "typestate: every path through a store of XMPPTransport.conn also passes a store of isSecure")
	r.Rule("O5", "switches belong to the application: no library store to Config.Insecure; no library store of a non-false value to tls.Config.InsecureSkipVerify")
	r.Rule("O6", "websocket: IsSecure is HasPrefix(Config.Address, \"wss:\"), DoesStartTLS is false, Dial gets no custom HTTPClient")

	ns := w.Func("xmpp.NewSession")
	r.Anchor("xmpp.NewSession")
	fInsecure := w.Field("xmpp.Config.Insecure")
	fIsSecure := w.Field("xmpp.XMPPTransport.isSecure")
	fConn := w.Field("xmpp.XMPPTransport.conn")
	r.Anchor("xmpp.Config.Insecure")
	r.Anchor("xmpp.XMPPTransport.isSecure")
	r.Anchor("xmpp.XMPPTransport.conn")

	// ---- O1
	isSecureKeys := []string{"xmpp.Transport.IsSecure"}
	gate := edgesAsserting(ns, func(c ssa.Value, truth bool) bool {
		if !truth {
			return false
		}
		if w.isResultOf(c, 0, isSecureKeys...) {
			return true
		}
		if f, _ := loadedField(c); f == fInsecure {
			return true
		}
		return false
	})
	r.Tables["O1.gate_edges"] = len(gate)
	// path form of the same gate, for a test that sits in a helper whose boolean result NewSession branches on: every path
	// (helpers walked through) from the entry to the instruction has taken IsSecure()==true or Config.Insecure==true, the
	// branch conditions being resolved through what the helper returned on that path
	isGateAssertion := func(c ssa.Value, truth bool) bool {
		if !truth {
			return false
		}
		var rc ssa.Value
		if curPath != nil {
			rc = resolveOn(c, curEdgeIdx, curPath.path)
		}
		for _, v := range []ssa.Value{c, rc} {
			if v == nil {
				continue
			}
			if w.isResultOf(v, 0, isSecureKeys...) {
				return true
			}
			if f, _ := loadedField(v); f == fInsecure {
				return true
			}
		}
		return false
	}
	gatedCache := map[ssa.Instruction]bool{}
	gatedOnEveryPath := func(target ssa.Instruction) bool {
		if v, ok := gatedCache[target]; ok {
			return v
		}
		okAll, n := true, 0
		err := walkPaths(entryLoc(ns), func(in ssa.Instruction) bool { return in == target }, nil, 200000, func(path []ssa.Instruction, end pathEnd) {
			if path[len(path)-1] != target {
				return
			}
			n++
			if !pathAsserts(path, isGateAssertion) {
				okAll = false
			}
		})
		v := err == nil && okAll && n > 0
		gatedCache[target] = v
		return v
	}
	c04GatedPathForm = gatedOnEveryPath
	protected := []string{"xmpp.Session.auth", "xmpp.Session.resume", "xmpp.Session.bind", "xmpp.Session.rfc3921Session", "xmpp.Session.EnableStreamManagement"}
	for _, k := range protected {
		calls := w.callsInH(ns, k)
		if len(calls) == 0 {
			r.Undecided("O1", "xmpp.NewSession→"+k, w.pos(ns.Pos()), "negotiation step is not called from NewSession: the gate rule has nothing to protect (anchor moved)")
			continue
		}
		for i, c := range calls {
			cons := fmt.Sprintf("xmpp.NewSession→%s#%d", k, i)
			path, _ := reach(entryLoc(ns), func(in ssa.Instruction) bool { return in == c.(ssa.Instruction) }, nil, gate)
			if path != nil && gatedOnEveryPath(c.(ssa.Instruction)) {
				r.Ok("O1", cons, "path form: every path to the call has taken IsSecure()==true or Config.Insecure==true (test in a helper)")
				continue
			}
			if path != nil {
				r.Fail("O1", cons, w.ipos(c), "reachable without crossing IsSecure()==true or Config.Insecure==true: "+pathString(w, path))
			} else {
				r.Ok("O1", cons, fmt.Sprintf("unreachable after deleting %d gate edges", len(gate)))
			}
		}
	}
	// any direct write in NewSession must be behind the gate too
	writeKeys := []string{"xmpp.Transport.Write", "fmt.Fprintf", "fmt.Fprint", "fmt.Fprintln", "io.Writer.Write", "io.WriteString", "xmpp.Client.sendWithWriter", "xmpp.Client.Send", "xmpp.Client.SendRaw", "xmpp.Client.SendIQ"}
	for i, c := range w.callsInH(ns, writeKeys...) {
		cons := fmt.Sprintf("xmpp.NewSession→write#%d", i)
		if path, _ := reach(entryLoc(ns), func(in ssa.Instruction) bool { return in == c.(ssa.Instruction) }, nil, gate); path != nil && !gatedOnEveryPath(c.(ssa.Instruction)) {
			r.Fail("O1", cons, w.ipos(c), "direct write in NewSession reachable before the TLS gate")
		} else {
			r.Ok("O1", cons)
		}
	}
	// between the gate's IsSecure test and auth: nothing may change the flag/conn
	mayStore := w.mayStoreClosure(fIsSecure, fConn)
	for _, ac := range w.callsInH(ns, "xmpp.Session.auth") {
		// walk backwards is awkward; instead: from each IsSecure call that carries a gate edge,
		// every call reachable before auth (not passing another IsSecure) must not be in mayStore.
		for _, ic := range w.callsInH(ns, isSecureKeys...) {
			call := ic.(*ssa.Call)
			usedAsGate := false
			for e := range gate {
				if cv, _, ok := edgeAssertion(e.From, e.Succ); ok && cv == ssa.Value(call) {
					// the gate edge that leads on towards auth
					if reachable(Loc{e.From.Succs[e.Succ], 0}, func(in ssa.Instruction) bool { return in == ac.(ssa.Instruction) }, nil, nil) {
						usedAsGate = true
					}
				}
			}
			if !usedAsGate {
				continue
			}
			// calls between this test and auth
			var offenders []string
			seenB := map[*ssa.BasicBlock]bool{}
			var scan func(l Loc)
			scan = func(l Loc) {
				for i := l.I; i < len(l.B.Instrs); i++ {
					in := l.B.Instrs[i]
					if in == ac.(ssa.Instruction) {
						return
					}
					if c := asCall(in); c != nil {
						if w.isCallTo(isSecureKeys...)(in) {
							// a later IsSecure test re-reads the flag: handled as its own gate
						}
						for _, g := range w.callees(c) {
							if mayStore[g] {
								offenders = append(offenders, w.ipos(in)+" calls "+w.funcKey(g))
							}
						}
					}
				}
				for _, s := range l.B.Succs {
					if !seenB[s] && reachable(Loc{s, 0}, func(in ssa.Instruction) bool { return in == ac.(ssa.Instruction) }, nil, nil) {
						seenB[s] = true
						scan(Loc{s, 0})
					}
				}
			}
			// only the last IsSecure test before auth needs the no-change argument
			laterGate := false
			for _, ic2 := range w.callsInH(ns, isSecureKeys...) {
				if ic2 != ic && reachable(after(call), func(in ssa.Instruction) bool { return in == ic2.(ssa.Instruction) }, nil, nil) {
					laterGate = true
				}
			}
			if laterGate {
				continue
			}
			scan(after(call))
			cons := "xmpp.NewSession#gate-test→auth"
			if len(offenders) > 0 {
				r.Fail("O1", cons, w.ipos(call), "a call between the TLS test and auth may change the secure flag or the connection: "+strings.Join(offenders, "; "))
			} else {
				r.Ok("O1", cons, "no call between the last IsSecure() test and auth reaches a store of isSecure/conn")
			}
		}
	}
	r.Floor("O1", 6)

	// ---- O2 pre-gate writes
	c04PreGateWrites(w, r, ns, gate)

	// ---- O3 flag invariant
	lib := w.LibFuncs()
	nStores := 0
	for _, a := range w.fieldAccesses(fIsSecure, lib) {
		if a.Kind == "load" {
			continue
		}
		nStores++
		cons := fmt.Sprintf("%s#store:isSecure@%s", w.funcKey(a.Fn), valStr(a.Val))
		recv := a.Fn.Signature.Recv()
		if recv == nil || !strings.HasSuffix(w.typeStr(recv.Type()), "xmpp.XMPPTransport") {
			r.Fail("O3", cons, w.ipos(a.Instr), "isSecure is written outside the methods of XMPPTransport")
			continue
		}
		if a.Kind != "store" {
			if a.Kind == "whole-store" && isFreshAllocAddr(a.Addr) {
				continue // building a new transport value: flag starts false unless stored explicitly (seen as its own store)
			}
			r.Undecided("O3", cons, w.ipos(a.Instr), "isSecure is accessed through "+a.Kind+" (address escapes or whole-struct store): cannot track its value")
			continue
		}
		b, isConst := boolConst(a.Val)
		if isConst && !b {
			r.Ok("O3", cons, "store of false")
			continue
		}
		// store of true (or non-constant): must be gated
		fn := a.Fn
		target := func(in ssa.Instruction) bool { return in == a.Instr }
		hsEdges := edgesAsserting(fn, func(c ssa.Value, truth bool) bool {
			x, eq, ok := nilCompare(c)
			return ok && eq == truth && w.isResultOf(x, 0, "crypto/tls.Conn.Handshake", "crypto/tls.Conn.HandshakeContext")
		})
		skipEdges := edgesAsserting(fn, func(c ssa.Value, truth bool) bool {
			f, _ := loadedField(c)
			return truth && f != nil && f.Name() == "InsecureSkipVerify" && f.Pkg() != nil && f.Pkg().Path() == "crypto/tls"
		})
		var vhCalls []*ssa.Call
		vhEdges := edgesAsserting(fn, func(c ssa.Value, truth bool) bool {
			x, eq, ok := nilCompare(c)
			if ok && eq == truth && w.isResultOf(x, 0, "crypto/tls.Conn.VerifyHostname") {
				call, _ := callResult(x)
				vhCalls = append(vhCalls, call)
				return true
			}
			return false
		})
		ok := true
		if !isConst {
			r.Undecided("O3", cons, w.ipos(a.Instr), "isSecure is assigned a non-constant value")
			continue
		}
		// path form of the same two gates, for tests that sit in helpers or function literals (the error travels back
		// through their results): every path from the entry to the store has crossed such an edge
		everyPath := func(pred func(c ssa.Value, truth bool, res func(ssa.Value) ssa.Value) bool) bool {
			okAll, n := true, 0
			err := walkPaths(entryLoc(fn), target, nil, 50000, func(path []ssa.Instruction, end pathEnd) {
				if !target(path[len(path)-1]) {
					return
				}
				n++
				if !pathAsserts(path, func(c ssa.Value, truth bool) bool {
					return pred(c, truth, func(v ssa.Value) ssa.Value { return resolveOn(v, curEdgeIdx, path) })
				}) {
					okAll = false
				}
			})
			return err == nil && okAll && n > 0
		}
		resultNil := func(c ssa.Value, truth bool, res func(ssa.Value) ssa.Value, keys ...string) *ssa.Call {
			x, eq, ok := nilCompare(c)
			if !ok || eq != truth {
				return nil
			}
			if call, _ := callResult(res(x)); call != nil {
				for _, k := range keys {
					if w.callKey(call) == k {
						return call
					}
				}
			}
			return nil
		}
		if len(hsEdges) == 0 || reachable(entryLoc(fn), target, nil, hsEdges) {
			if !everyPath(func(c ssa.Value, truth bool, res func(ssa.Value) ssa.Value) bool {
				return resultNil(c, truth, res, "crypto/tls.Conn.Handshake", "crypto/tls.Conn.HandshakeContext") != nil
			}) {
				r.Fail("O3", cons, w.ipos(a.Instr), "isSecure=true is reachable without passing the err==nil edge of tls.Conn.Handshake")
				ok = false
			}
		}
		if len(vhEdges) == 0 || reachable(entryLoc(fn), target, nil, skipEdges.union(vhEdges)) {
			if !everyPath(func(c ssa.Value, truth bool, res func(ssa.Value) ssa.Value) bool {
				if f, _ := loadedField(c); truth && f != nil && f.Name() == "InsecureSkipVerify" && f.Pkg() != nil && f.Pkg().Path() == "crypto/tls" {
					return true
				}
				if call := resultNil(c, truth, res, "crypto/tls.Conn.VerifyHostname"); call != nil {
					seen := false
					for _, vc := range vhCalls {
						if vc == call {
							seen = true
						}
					}
					if !seen {
						vhCalls = append(vhCalls, call)
					}
					return true
				}
				return false
			}) {
				r.Fail("O3", cons, w.ipos(a.Instr), "isSecure=true is reachable without InsecureSkipVerify and without a successful VerifyHostname")
				ok = false
			}
		}
		// verified name is Config.Domain; verified conn is the handshaken conn that is stored in t.conn
		for _, vc := range vhCalls {
			if len(vc.Call.Args) < 2 {
				continue
			}
			fp := fieldPath(vc.Call.Args[1])
			names := fieldNames(fp)
			if names != "Config.Domain" {
				r.Fail("O3", cons+"#verified-name", w.ipos(vc), "VerifyHostname is not called with the configured domain (Config.Domain) but with "+describe(w, vc.Call.Args[1]))
				ok = false
			}
			// same *tls.Conn as Handshake and as the value stored to conn
			tlsConn := vc.Call.Args[0]
			hsSame, connSame := false, false
			allInstrsH(fn, func(in ssa.Instruction) {
				if c, okc := in.(*ssa.Call); okc && w.isCallTo("crypto/tls.Conn.Handshake", "crypto/tls.Conn.HandshakeContext")(in) && len(c.Call.Args) > 0 && (c.Call.Args[0] == tlsConn || origin(c.Call.Args[0]) == origin(tlsConn)) {
					hsSame = true
				}
				if st, oks := in.(*ssa.Store); oks {
					if fa, okf := st.Addr.(*ssa.FieldAddr); okf && fieldOfAddr(fa) == fConn {
						if mi, okm := originIn(fn, st.Val).(*ssa.MakeInterface); okm && (mi.X == tlsConn || origin(mi.X) == origin(tlsConn)) {
							connSame = true
						}
					}
				}
			})
			if !hsSame || !connSame {
				r.Fail("O3", cons+"#same-conn", w.ipos(vc), "the connection whose hostname is verified is not the one that was handshaken and stored in t.conn")
				ok = false
			}
		}
		if ok {
			r.Ok("O3", cons, "store of true gated by Handshake()==nil and (InsecureSkipVerify or VerifyHostname(Config.Domain)==nil) on the connection stored in conn")
		}
	}
	r.Floor("O3", 2)
	_ = nStores

	// ---- O3 (continued): StartTLS reports success only when the connection has really been upgraded — the flag is
	// set, and what the transport reads from and writes to from now on is the TLS connection
	{
		stls := w.Func("xmpp.(*XMPPTransport).StartTLS")
		fRW := w.Field("xmpp.XMPPTransport.readWriter")
		fDec := w.Field("xmpp.XMPPTransport.decoder")
		bad := ""
		nOK := 0
		err := walkPaths(entryLoc(stls), nil, nil, 50000, func(path []ssa.Instruction, end pathEnd) {
			ret, ok := path[len(path)-1].(*ssa.Return)
			if !ok || end == endCycle || len(ret.Results) != 1 {
				return
			}
			res := rres(path, ret)[0]
			if !isNilConst(res) {
				if _, isCall := res.(*ssa.Call); isCall {
					if pathAsserts(path, func(c ssa.Value, truth bool) bool { return assertsNonNil(c, truth, res) }) {
						return
					}
				} else if _, isMI := res.(*ssa.MakeInterface); isMI {
					return
				} else if pathAsserts(path, func(c ssa.Value, truth bool) bool { return assertsNonNil(c, truth, res) }) {
					return
				}
			}
			nOK++
			// the TLS connection of this path
			var tlsConn ssa.Value
			flagSet, rwOK, decOK := false, false, false
			var rwVal ssa.Value
			forPath(path, func(i int, in ssa.Instruction) {
				if c, ok := in.(*ssa.Call); ok && w.callKey(c) == "crypto/tls.Client" {
					tlsConn = c
				}
				st, ok := in.(*ssa.Store)
				if !ok {
					return
				}
				fa, ok := st.Addr.(*ssa.FieldAddr)
				if !ok {
					return
				}
				val := rvI(st.Val, i)
				switch fieldOfAddr(fa) {
				case fIsSecure:
					if b, isC := boolConst(val); isC {
						flagSet = b
					}
				case fRW:
					// newStreamLogger(tlsConn, …) or the TLS connection itself
					v := val
					if mi, ok := v.(*ssa.MakeInterface); ok {
						v = mi.X
					}
					if c, ok := v.(*ssa.Call); ok && len(c.Call.Args) > 0 {
						a0 := c.Call.Args[0]
						for k := 0; k < 6; k++ {
							a0 = resolveOn(a0, i, path) // through helper parameters and variables a function literal captures
							if mi, ok := a0.(*ssa.MakeInterface); ok {
								a0 = mi.X
							} else if ci, ok := a0.(*ssa.ChangeInterface); ok {
								a0 = ci.X
							} else {
								break
							}
						}
						rwOK = tlsConn != nil && a0 == tlsConn
					} else {
						rwOK = tlsConn != nil && (v == tlsConn || resolveOn(v, i, path) == tlsConn)
					}
					rwVal = st.Val
				case fDec:
					// a decoder over (a buffered reader over) the new readWriter
					decOK = rwVal != nil && strings.Contains(w.nfOn(val, path), "readWriter")
				}
			})
			switch {
			case !flagSet:
				bad = "StartTLS returns nil at " + w.ipos(ret) + " without the secure flag set: a failed handshake or verification is reported as success"
			case !rwOK:
				bad = "after a successful upgrade the transport still writes to the connection beneath TLS: what follows (the restarted stream, <auth/>) goes out in clear text"
			case !decOK:
				bad = "after a successful upgrade the transport still reads from the connection beneath TLS"
			}
		})
		if err != nil {
			r.Undecided("O3", "xmpp.(*XMPPTransport).StartTLS#success", w.pos(stls.Pos()), err.Error())
		} else {
			r.Check(bad == "" && nOK > 0, "O3", "xmpp.(*XMPPTransport).StartTLS#success", w.pos(stls.Pos()), bad, fmt.Sprintf("%d success path(s): flag set, reader and writer rebuilt over the TLS connection", nOK))
		}
	}

	// ---- O4 typestate of conn
	isFlagStore := func(in ssa.Instruction) bool {
		st, ok := in.(*ssa.Store)
		if !ok {
			return false
		}
		fa, ok := st.Addr.(*ssa.FieldAddr)
		return ok && fieldOfAddr(fa) == fIsSecure
	}
	for _, a := range w.fieldAccesses(fConn, lib) {
		if a.Kind != "store" && a.Kind != "whole-store" && a.Kind != "addr" {
			continue
		}
		if a.Kind == "whole-store" && isFreshAllocAddr(a.Addr) {
			continue
		}
		cons := w.funcKey(a.Fn) + "#store:conn"
		if a.Kind != "store" {
			r.Undecided("O4", cons, w.ipos(a.Instr), "conn is written through "+a.Kind)
			continue
		}
		// in every function on whose behalf the store runs: each path through the store also stores the flag
		bad := ""
		for _, o := range w.owners(a.Fn) {
			n := 0
			err := walkPaths(entryLoc(o), nil, nil, 200000, func(path []ssa.Instruction, end pathEnd) {
				if end == endCycle {
					return
				}
				if _, isRet := path[len(path)-1].(*ssa.Return); !isRet {
					return
				}
				if countOn(path, func(in ssa.Instruction) bool { return in == a.Instr }) == 0 {
					return
				}
				n++
				if countOn(path, isFlagStore) == 0 {
					bad = "in " + w.funcKey(o) + " (return at " + w.ipos(path[len(path)-1]) + ")"
				}
			})
			if err != nil {
				bad = err.Error()
			}
			if n == 0 && bad == "" {
				bad = "the store is not on any path of " + w.funcKey(o)
			}
		}
		if bad == "" {
			r.Ok("O4", cons, "every path through the store of conn also stores isSecure")
		} else {
			r.Fail("O4", cons, w.ipos(a.Instr), "conn is replaced but isSecure keeps its previous value "+bad+" — the flag no longer describes the current connection (history: TLS session, connection lost, reconnect: IsSecure() still true on a plain TCP connection, STARTTLS and the gate are skipped, <auth/> goes out in clear text)")
		}
	}
	r.Floor("O4", 2)

	// ---- O5
	n5 := 0
	for _, a := range w.fieldAccesses(fInsecure, lib) {
		if a.Kind == "load" {
			n5++
			continue
		}
		if a.Kind == "whole-store" {
			continue // Config values are built by the application; library code copying a Config does not relax it
		}
		r.Fail("O5", w.funcKey(a.Fn)+"#store:Config.Insecure", w.ipos(a.Instr), "library code writes Config.Insecure")
	}
	r.Check(n5 >= 1, "O5", "xmpp.Config.Insecure#readers", "-", "Config.Insecure is never read", fmt.Sprintf("%d loads, no library store", n5))
	// InsecureSkipVerify: find the field object through XMPPTransport.TLSConfig
	var fSkip *types.Var
	if pt, ok := w.Field("xmpp.XMPPTransport.TLSConfig").Type().(*types.Pointer); ok {
		if st, ok := pt.Elem().Underlying().(*types.Struct); ok {
			for i := 0; i < st.NumFields(); i++ {
				if st.Field(i).Name() == "InsecureSkipVerify" {
					fSkip = st.Field(i)
				}
			}
		}
	}
	if fSkip == nil {
		die("unresolved anchor: crypto/tls.Config.InsecureSkipVerify")
	}
	nSkipLoads := 0
	for _, a := range w.fieldAccesses(fSkip, lib) {
		switch a.Kind {
		case "load":
			nSkipLoads++
		case "store":
			if b, ok := boolConst(a.Val); ok && !b {
				continue
			}
			r.Fail("O5", w.funcKey(a.Fn)+"#store:InsecureSkipVerify", w.ipos(a.Instr), "library code disables certificate verification")
		case "addr":
			r.Undecided("O5", w.funcKey(a.Fn)+"#addr:InsecureSkipVerify", w.ipos(a.Instr), "address of InsecureSkipVerify escapes")
		}
	}
	r.Check(nSkipLoads >= 1, "O5", "crypto/tls.Config.InsecureSkipVerify#library-stores", "-", "InsecureSkipVerify is never consulted", fmt.Sprintf("%d loads, no library store of true", nSkipLoads))
	// the tls.Config handed to tls.Client is the application's clone or a zero value
	st := w.Func("xmpp.(*XMPPTransport).StartTLS")
	fTLS := w.Field("xmpp.XMPPTransport.TLSConfig")
	for _, a := range w.fieldAccesses(fTLS, lib) {
		if a.Kind != "store" {
			continue
		}
		cons := w.funcKey(a.Fn) + "#store:TLSConfig"
		var okTLS func(v ssa.Value, d int) bool
		okTLS = func(v ssa.Value, d int) bool {
			if d > 4 {
				return false
			}
			switch x := origin(v).(type) {
			case *ssa.Alloc:
				fields, _ := complitFields(x)
				for name := range fields {
					if name == "InsecureSkipVerify" {
						return false
					}
				}
				return true
			case *ssa.Call:
				if w.callKey(x) == "crypto/tls.Config.Clone" && len(x.Call.Args) == 1 {
					return fieldNames(fieldPath(x.Call.Args[0])) == "Config.TLSConfig"
				}
			case *ssa.Phi:
				for _, e := range x.Edges {
					if !okTLS(e, d+1) {
						return false
					}
				}
				return len(x.Edges) > 0
			}
			return false
		}
		okv := okTLS(a.Val, 0)
		r.Check(okv, "O5", cons, w.ipos(a.Instr), "the TLS configuration used for the handshake is neither the application's clone nor a fresh zero value", "application clone or zero value")
	}
	_ = st

	// ---- O6 websocket
	wsSecure := w.Func("xmpp.(WebsocketTransport).IsSecure")
	okSec := false
	allInstrs(wsSecure, func(in ssa.Instruction) {
		if ret, ok := in.(*ssa.Return); ok && len(ret.Results) == 1 {
			if c, ok := ret.Results[0].(*ssa.Call); ok && w.callKey(c) == "strings.HasPrefix" {
				s, isS := stringConst(c.Call.Args[1])
				if isS && s == "wss:" && fieldNames(fieldPath(c.Call.Args[0])) == "Config.Address" {
					okSec = true
				}
			}
		}
	})
	nret := 0
	allInstrs(wsSecure, func(in ssa.Instruction) {
		if isReturn(in) {
			nret++
		}
	})
	r.Check(okSec && nret == 1, "O6", "xmpp.(WebsocketTransport).IsSecure", w.pos(wsSecure.Pos()), "websocket IsSecure is not exactly HasPrefix(Config.Address, \"wss:\")", "returns strings.HasPrefix(t.Config.Address, \"wss:\")")
	wsTLS := w.Func("xmpp.(WebsocketTransport).DoesStartTLS")
	okF := true
	allInstrs(wsTLS, func(in ssa.Instruction) {
		if ret, ok := in.(*ssa.Return); ok {
			if b, isC := boolConst(ret.Results[0]); !isC || b {
				okF = false
			}
		}
	})
	r.Check(okF, "O6", "xmpp.(WebsocketTransport).DoesStartTLS", w.pos(wsTLS.Pos()), "websocket transport claims STARTTLS support", "constant false")
	wsConn := w.Func("xmpp.(*WebsocketTransport).Connect")
	nDial := 0
	for _, c := range w.callsInH(wsConn, "nhooyr.io/websocket.Dial") {
		nDial++
		args := c.Common().Args
		okD := false
		detail := "DialOptions is not a local literal"
		if len(args) == 3 {
			if fields, al := complitFields(args[2]); al != nil {
				okD = true
				var names []string
				for n := range fields {
					names = append(names, n)
					if n == "HTTPClient" {
						okD = false
						detail = "a custom HTTPClient is supplied: certificate verification is no longer the default"
					}
				}
				sort.Strings(names)
				if okD {
					detail = "DialOptions sets only " + strings.Join(names, ",")
				}
			} else if isNilConst(args[2]) {
				okD = true
			}
		}
		r.Check(okD, "O6", "xmpp.(*WebsocketTransport).Connect→websocket.Dial", w.ipos(c), detail, detail)
	}
	if nDial == 0 {
		r.Undecided("O6", "xmpp.(*WebsocketTransport).Connect→websocket.Dial", w.pos(wsConn.Pos()), "no websocket.Dial call found")
	}
	// the address dialled is Config.Address (the one IsSecure inspects)
	for _, c := range w.callsInH(wsConn, "nhooyr.io/websocket.Dial") {
		args := c.Common().Args
		r.Check(len(args) >= 2 && fieldNames(fieldPath(args[1])) == "Config.Address", "O6", "xmpp.(*WebsocketTransport).Connect→websocket.Dial#url", w.ipos(c), "the dialled URL is not Config.Address, the field IsSecure() inspects", "dials t.Config.Address")
	}
}

func fieldNames(fp []*types.Var) string {
	var s []string
	for _, f := range fp {
		s = append(s, f.Name())
	}
	return strings.Join(s, ".")
}

func isFreshAllocAddr(v ssa.Value) bool {
	for {
		switch x := v.(type) {
		case *ssa.Alloc:
			return true
		case *ssa.FieldAddr:
			v = x.X
		default:
			return false
		}
	}
}

func valStr(v ssa.Value) string {
	if v == nil {
		return "?"
	}
	if c, ok := v.(*ssa.Const); ok {
		if c.Value == nil {
			return "nil"
		}
		return c.Value.ExactString()
	}
	return "expr"
}

func describe(w *World, v ssa.Value) string {
	if s, ok := stringConst(v); ok {
		return fmt.Sprintf("%q", s)
	}
	if fp := fieldPath(v); len(fp) > 0 {
		return fieldNames(fp)
	}
	return v.String()
}

// c04PreGateWrites — O2.
// c04GatedPathForm: set by runC04 (the path form of the gate, see O1)
var c04GatedPathForm func(ssa.Instruction) bool

func c04PreGateWrites(w *World, r *Report, ns *ssa.Function, gate EdgeSet) {
	connect := w.Func("xmpp.(*Client).connect")
	r.Anchor("xmpp.(*Client).connect")
	// calls of connect before NewSession
	var roots []ssa.CallInstruction
	nsCalls := w.callsInH(connect, "xmpp.NewSession")
	if len(nsCalls) != 1 {
		r.Undecided("O2", "xmpp.(*Client).connect→NewSession", w.pos(connect.Pos()), fmt.Sprintf("expected exactly one NewSession call, found %d", len(nsCalls)))
		return
	}
	allInstrs(connect, func(in ssa.Instruction) {
		if c := asCall(in); c != nil && c != nsCalls[0] {
			if reachable(after(in), func(x ssa.Instruction) bool { return x == nsCalls[0].(ssa.Instruction) }, nil, nil) {
				roots = append(roots, c)
			}
		}
	})
	// ungated calls in NewSession
	allInstrs(ns, func(in ssa.Instruction) {
		if c := asCall(in); c != nil {
			if reachable(entryLoc(ns), func(x ssa.Instruction) bool { return x == in }, nil, gate) && !(c04GatedPathForm != nil && c04GatedPathForm(in)) {
				roots = append(roots, c)
			}
		}
	})
	cl := w.closureFrom(roots, nil)
	r.Tables["O2.pre_gate_closure"] = w.sortedKeys(cl)
	// the direct pre-gate calls in NewSession / connect are write sites too
	type site struct {
		fn   *ssa.Function
		call ssa.CallInstruction
	}
	var sites []site
	// module functions that write one of their own parameters (pass-through wrappers, found to a fixpoint below):
	// a call of one is a write of the corresponding argument
	writerFuncs := map[*ssa.Function]int{}
	isWrite := func(c ssa.CallInstruction) (dataArg ssa.Value, kind string) {
		k := w.callKey(c)
		args := c.Common().Args
		if callee := c.Common().StaticCallee(); callee != nil {
			if idx, ok := writerFuncs[callee]; ok && idx < len(args) {
				return args[idx], "write"
			}
		}
		switch {
		case strings.HasSuffix(k, ".Write") && !c.Common().IsInvoke() && len(args) == 2: // method: recv, p
			if sl, ok := args[1].Type().Underlying().(*types.Slice); ok && types.Identical(sl.Elem(), types.Typ[types.Byte]) {
				return args[1], "write"
			}
		case strings.HasSuffix(k, ".Write") && c.Common().IsInvoke() && len(args) == 1:
			return args[0], "write"
		case k == "fmt.Fprintf" || k == "fmt.Fprint" || k == "fmt.Fprintln":
			return nil, "fprintf"
		case k == "io.WriteString":
			return args[1], "write"
		case strings.HasSuffix(k, ".sendWithWriter"):
			return args[len(args)-1], "write"
		case k == "nhooyr.io/websocket.Conn.Write":
			return args[len(args)-1], "write"
		}
		return nil, ""
	}
	collect := func(fn *ssa.Function, only func(ssa.Instruction) bool) {
		allInstrs(fn, func(in ssa.Instruction) {
			if c := asCall(in); c != nil && (only == nil || only(in)) {
				if _, kind := isWrite(c); kind != "" {
					sites = append(sites, site{fn, c})
				}
			}
		})
	}
	for round := 0; round < 4; round++ {
		grew := false
		for fn := range cl {
			if w.TestSupport[fn] {
				continue
			}
			allInstrs(fn, func(in ssa.Instruction) {
				if c := asCall(in); c != nil {
					if data, kind := isWrite(c); kind == "write" && data != nil {
						if p, ok := data.(*ssa.Parameter); ok && p.Parent() == fn {
							for i, q := range fn.Params {
								if q == p {
									if _, done := writerFuncs[fn]; !done {
										writerFuncs[fn] = i
										grew = true
									}
								}
							}
						}
					}
				}
			})
		}
		if !grew {
			break
		}
	}
	for fn := range cl {
		if w.TestSupport[fn] {
			continue
		}
		collect(fn, nil)
	}
	collect(ns, func(in ssa.Instruction) bool {
		return reachable(entryLoc(ns), func(x ssa.Instruction) bool { return x == in }, nil, gate)
	})
	sort.Slice(sites, func(i, j int) bool { return w.ipos(sites[i].call) < w.ipos(sites[j].call) })
	n := 0
	perFn := map[string]int{}
	for _, s := range sites {
		fk := w.funcKey(s.fn)
		perFn[fk]++
		cons := fmt.Sprintf("%s→%s#%d", fk, w.callKey(s.call), perFn[fk])
		data, kind := isWrite(s.call)
		n++
		switch kind {
		case "write":
			if c04ConstBytes(data) {
				r.Ok("O2", cons, "constant bytes: "+describeBytes(data))
			} else if _, isWrapper := writerFuncs[s.fn]; isWrapper && isParamOf(data, s.fn) {
				r.Ok("O2", cons, "pass-through wrapper: writes its own parameter; every call of it is checked as a write of the argument")
			} else if isLogWrite(w, s.call) {
				r.Ok("O2", cons, "write to the traffic log file, not to the connection")
			} else {
				r.Fail("O2", cons, w.ipos(s.call), "non-constant data is written before the TLS gate: "+describe(w, data))
			}
		case "fprintf":
			args := s.call.Common().Args
			if isLogWrite(w, s.call) {
				r.Ok("O2", cons, "formatted write to the traffic log file")
				continue
			}
			// args: writer, format, varargs slice
			okF := false
			detail := ""
			if len(args) >= 2 {
				if _, isC := stringConst(args[1]); isC {
					okF = true
				} else if fieldNames(fieldPath(args[1])) == "openStatement" {
					okF = true
				} else {
					detail = "format is neither a constant nor the stream-open statement"
				}
				// varargs: every element must be Config.Domain
				if okF && len(args) == 3 {
					for _, el := range varargElems(args[2]) {
						if fieldNames(fieldPath(el)) != "Config.Domain" {
							okF = false
							detail = "stream header argument is not Config.Domain: " + describe(w, el)
						}
					}
				}
			}
			r.Check(okF, "O2", cons, w.ipos(s.call), "pre-gate formatted write: "+detail, "constant format / stream header with Config.Domain only")
		}
	}
	r.Floor("O2", 6)
	// openStatement provenance: stored only from package-level constants-built vars
	fOpen := w.Field("xmpp.XMPPTransport.openStatement")
	for _, a := range w.fieldAccesses(fOpen, w.LibFuncs()) {
		if a.Kind != "store" {
			continue
		}
		// (through the parameter of a constructor shared by both roles: every caller's argument)
		srcs := originsAll(a.Val)
		okp := len(srcs) > 0
		for _, sv := range srcs {
			isTpl := false
			if u, ok := sv.(*ssa.UnOp); ok {
				if g, ok := u.X.(*ssa.Global); ok && (g.Name() == "clientStreamOpen" || g.Name() == "componentStreamOpen") {
					isTpl = true
				}
			}
			if !isTpl {
				okp = false
			}
		}
		r.Check(okp, "O2", w.funcKey(a.Fn)+"#store:openStatement", w.ipos(a.Instr), "stream-open statement does not come from the package-level header templates", "header template global")
	}
}

func c04ConstBytes(v ssa.Value) bool {
	if v == nil {
		return false
	}
	_, ok := stringConst(v)
	if ok {
		return true
	}
	if c, ok := v.(*ssa.Convert); ok {
		_, ok2 := stringConst(c.X)
		return ok2
	}
	// slice literal of constant bytes: []byte("...") lowers to Convert; other forms undecided
	return false
}

func describeBytes(v ssa.Value) string {
	if c, ok := v.(*ssa.Convert); ok {
		v = c.X
	}
	if s, ok := stringConst(v); ok {
		return fmt.Sprintf("%q", s)
	}
	return "?"
}

func isParamOf(v ssa.Value, fn *ssa.Function) bool {
	p, ok := origin(v).(*ssa.Parameter)
	return ok && p.Parent() == fn
}

// isLogWrite: the receiver/writer of the call is (a load of) a field named logFile.
func isLogWrite(w *World, c ssa.CallInstruction) bool {
	cc := c.Common()
	var wr ssa.Value
	if cc.IsInvoke() {
		wr = cc.Value
	} else if len(cc.Args) > 0 {
		wr = cc.Args[0]
	}
	if wr == nil {
		return false
	}
	for i := 0; i < 4; i++ {
		wr = rvCur(wr)
		if ci, ok := wr.(*ssa.ChangeInterface); ok {
			wr = ci.X
		} else if mi, ok := wr.(*ssa.MakeInterface); ok {
			wr = mi.X
		} else {
			break
		}
	}
	fp := fieldPath(wr)
	return len(fp) > 0 && fp[len(fp)-1].Name() == "logFile"
}

// varargElems: the values stored into the varargs backing array of a call.
func varargElems(v ssa.Value) []ssa.Value {
	sl, ok := v.(*ssa.Slice)
	if !ok {
		return nil
	}
	al, ok := sl.X.(*ssa.Alloc)
	if !ok {
		return nil
	}
	var out []ssa.Value
	for _, r := range *al.Referrers() {
		ia, ok := r.(*ssa.IndexAddr)
		if !ok {
			continue
		}
		for _, r2 := range *ia.Referrers() {
			if st, ok := r2.(*ssa.Store); ok {
				val := st.Val
				if mi, ok := val.(*ssa.MakeInterface); ok {
					val = mi.X
				}
				if ci, ok := val.(*ssa.ChangeInterface); ok {
					val = ci.X
				}
				out = append(out, val)
			}
		}
	}
	return out
}
