package main

import (
	"bufio"
	"encoding/json"
	"fmt"
	"os"
	"path/filepath"
	"regexp"
	"sort"
	"strings"
	"time"
)

// An obligation is a rule instantiated at a construct. Its key is
// <property>.<rule>@<construct>; constructs are symbolic, never line numbers.
type Obl struct {
	Rule      string   `json:"rule"`
	Construct string   `json:"construct"`
	Status    string   `json:"status"` // discharged | violated | undecided | known
	Pos       string   `json:"pos,omitempty"`
	Detail    string   `json:"detail,omitempty"`
	Facts     []string `json:"facts,omitempty"`
}

type Report struct {
	Prop    string
	Level   string
	Obls    []Obl
	Notes   []string
	floors  map[string]int // rule -> minimum number of instances confirmed by hand
	counts  map[string]int
	Anchors []string
	Rules   map[string]string // rule id -> statement
	Tables  map[string]interface{}
}

func newReport(prop, level string) *Report {
	return &Report{Prop: prop, Level: level, floors: map[string]int{}, counts: map[string]int{}, Rules: map[string]string{}, Tables: map[string]interface{}{}}
}

func (r *Report) Rule(id, text string) { r.Rules[id] = text }

// local variable and parameter names are not part of a construct's identity (a rename must not move a known finding)
var localNameRE = regexp.MustCompile(`\b(alloc|param):[A-Za-z_0-9]+`)

func stableCons(c string) string { return localNameRE.ReplaceAllString(c, "$1:_") }

func (r *Report) Ok(rule, construct string, facts ...string) {
	construct = stableCons(construct)
	r.Obls = append(r.Obls, Obl{Rule: rule, Construct: construct, Status: "discharged", Facts: facts})
	r.counts[rule]++
}

func (r *Report) Fail(rule, construct, pos, detail string, facts ...string) {
	construct = stableCons(construct)
	r.Obls = append(r.Obls, Obl{Rule: rule, Construct: construct, Status: "violated", Pos: pos, Detail: detail, Facts: facts})
	r.counts[rule]++
}

func (r *Report) Undecided(rule, construct, pos, detail string) {
	construct = stableCons(construct)
	r.Obls = append(r.Obls, Obl{Rule: rule, Construct: construct, Status: "undecided", Pos: pos, Detail: detail})
	r.counts[rule]++
}

// Check is a convenience: discharged when ok, violated otherwise.
func (r *Report) Check(ok bool, rule, construct, pos, detail string, facts ...string) bool {
	if ok {
		r.Ok(rule, construct, facts...)
	} else {
		r.Fail(rule, construct, pos, detail)
	}
	return ok
}

// Floor: vacuity guard. Fewer instances than confirmed by hand is a failure.
func (r *Report) Floor(rule string, n int) { r.floors[rule] = n }

func (r *Report) Note(format string, a ...interface{}) {
	r.Notes = append(r.Notes, fmt.Sprintf(format, a...))
}

func (r *Report) Anchor(a string) { r.Anchors = append(r.Anchors, a) }

// ---------------------------------------------------------------------------
// known findings

type KnownFinding struct {
	Property  string `json:"property"`
	Rule      string `json:"rule"`
	Construct string `json:"construct"`
	Status    string `json:"status"` // known | fixed
	Commit    string `json:"commit,omitempty"`
	What      string `json:"what"`
	Witness   string `json:"witness,omitempty"`
}

func loadKnown(path string) []KnownFinding {
	f, err := os.Open(path)
	if err != nil {
		if os.IsNotExist(err) {
			return nil
		}
		die("known findings: %v", err)
	}
	defer f.Close()
	var out []KnownFinding
	sc := bufio.NewScanner(f)
	sc.Buffer(make([]byte, 1<<20), 1<<20)
	for sc.Scan() {
		line := strings.TrimSpace(sc.Text())
		if line == "" || strings.HasPrefix(line, "#") {
			continue
		}
		var k KnownFinding
		if err := json.Unmarshal([]byte(line), &k); err != nil {
			die("known findings: bad line %q: %v", line, err)
		}
		out = append(out, k)
	}
	return out
}

// ---------------------------------------------------------------------------
// finishing: evidence, replay files, exit code

type finishOpts struct {
	verifDir string
	tier     string
	seed     int
	start    time.Time
	w        *World
	known    []KnownFinding
	cmd      string
	trusted  []string
	explain  string
	assume   []string
	extra    map[string]interface{}
	noWrite  bool // variant runs: do not touch evidence
}

// finish applies floors and known findings, writes the evidence and returns the exit code.
func (r *Report) finish(o finishOpts) int {
	// vacuity floors
	var floorRules []string
	for rule := range r.floors {
		floorRules = append(floorRules, rule)
	}
	sort.Strings(floorRules)
	for _, rule := range floorRules {
		if r.counts[rule] < r.floors[rule] {
			r.Obls = append(r.Obls, Obl{Rule: rule, Construct: "#instances", Status: "undecided",
				Detail: fmt.Sprintf("rule %s matched %d instances, fewer than the %d confirmed by hand: the rule would pass vacuously", rule, r.counts[rule], r.floors[rule])})
		}
	}
	// known findings
	knownHit := map[int]bool{}
	for i := range r.Obls {
		ob := &r.Obls[i]
		if ob.Status != "violated" {
			continue
		}
		for ki, k := range o.known {
			if k.Status == "known" && k.Property == r.Prop && k.Rule == ob.Rule && k.Construct == ob.Construct {
				ob.Status = "known"
				knownHit[ki] = true
				fmt.Printf("KNOWN-FINDING: property=%s %s.%s@%s %s\n", r.Prop, r.Prop, ob.Rule, ob.Construct, k.What)
			}
		}
	}
	if verbose {
		for _, ob := range r.Obls {
			fmt.Printf("  %-10s %s.%s@%s %s %v\n", ob.Status, r.Prop, ob.Rule, ob.Construct, ob.Pos, ob.Facts)
		}
	}
	nViol, nUndec, nKnown, nDis := 0, 0, 0, 0
	var bad []Obl
	for _, ob := range r.Obls {
		switch ob.Status {
		case "violated":
			nViol++
			bad = append(bad, ob)
		case "undecided":
			nUndec++
			bad = append(bad, ob)
		case "known":
			nKnown++
		default:
			nDis++
		}
	}
	for ki, k := range o.known {
		if k.Status == "known" && k.Property == r.Prop && !knownHit[ki] {
			r.Note("known finding %s.%s@%s no longer reported by the rules (repaired or moved); entry is stale", k.Property, k.Rule, k.Construct)
		}
	}

	exit := 0
	replayDir := filepath.Join(o.verifDir, "evidence", "replay")
	if len(bad) > 0 {
		exit = 1
		if !o.noWrite {
			os.MkdirAll(replayDir, 0o755)
		}
		for k, ob := range bad {
			path := filepath.Join(replayDir, fmt.Sprintf("%s-%d.json", r.Prop, k))
			if !o.noWrite {
				b, _ := json.MarshalIndent(map[string]interface{}{
					"property": r.Prop, "rule": ob.Rule, "rule_text": r.Rules[ob.Rule], "construct": ob.Construct,
					"verdict": ob.Status, "pos": ob.Pos, "detail": ob.Detail, "facts": ob.Facts,
					"obligation": fmt.Sprintf("%s.%s@%s", r.Prop, ob.Rule, ob.Construct),
				}, "", " ")
				os.WriteFile(path, b, 0o644)
			}
			fmt.Printf("%s %s.%s@%s at %s: %s\n", strings.ToUpper(ob.Status), r.Prop, ob.Rule, ob.Construct, ob.Pos, ob.Detail)
			fmt.Printf("VIOLATION property=%s replay=%s\n", r.Prop, path)
		}
	} else if !o.noWrite {
		// stale replay files of this property are removed so that they cannot mislead
		old, _ := filepath.Glob(filepath.Join(replayDir, r.Prop+"-*.json"))
		for _, f := range old {
			os.Remove(f)
		}
	}

	if o.noWrite {
		return exit
	}

	// evidence
	samples := []interface{}{}
	perRule := map[string]map[string]int{}
	distinct := map[string]bool{}
	for _, ob := range r.Obls {
		m := perRule[ob.Rule]
		if m == nil {
			m = map[string]int{}
			perRule[ob.Rule] = m
		}
		m[ob.Status]++
		distinct[ob.Rule+"@"+ob.Construct] = true
	}
	// samples: every non-discharged obligation, plus up to 6 discharged per rule
	shown := map[string]int{}
	for _, ob := range r.Obls {
		if ob.Status == "discharged" {
			if shown[ob.Rule] >= 6 {
				continue
			}
			shown[ob.Rule]++
		}
		samples = append(samples, ob)
	}
	var fnKeys []string
	nfn := 0
	if o.w != nil {
		nfn = o.w.nfuncs
		fnKeys = o.w.Files
	}
	cov := map[string]interface{}{
		"obligations":         len(r.Obls) - nKnown,
		"discharged":          nDis,
		"violated":            nViol,
		"undecided":           nUndec,
		"known_findings":      nKnown,
		"evaluations":         len(r.Obls),
		"distinct_nontrivial": len(distinct),
		"rule":                "one obligation per (rule, construct); constructs are symbolic program entities (function, call site, field, table row, CFG path class) found in /repo's current source by the rule's own search; distinct = distinct (rule, construct) pairs",
		"samples":             samples,
		"checker_cmd":         o.cmd,
		"trusted_base":        o.trusted,
		"explanation":         o.explain,
		"rules":               r.Rules,
		"per_rule":            perRule,
		"instance_floors":     r.floors,
		"anchors_resolved":    r.Anchors,
		"files_analysed":      fnKeys,
		"functions_analysed":  nfn,
		"notes":               r.Notes,
		"tables":              r.Tables,
		"exhaustive":          true,
		"static_only":         true,
		"nothing_executed":    "the deciding step type-checks and analyses source; no code of /repo is run",
	}
	for k, v := range o.extra {
		cov[k] = v
	}
	if o.assume == nil {
		o.assume = []string{}
	}
	o.assume = append(o.assume, "trusted base: see coverage.trusted_base")
	ev := map[string]interface{}{
		"property_id": r.Prop,
		"tier":        o.tier,
		"seed":        o.seed,
		"level":       r.Level,
		"coverage":    cov,
		"assumptions": o.assume,
		"wall_s":      time.Since(o.start).Seconds(),
		"violations":  nViol + nUndec,
	}
	b, err := json.MarshalIndent(ev, "", " ")
	if err != nil {
		die("evidence: %v", err)
	}
	os.MkdirAll(filepath.Join(o.verifDir, "evidence"), 0o755)
	if err := os.WriteFile(filepath.Join(o.verifDir, "evidence", r.Prop+".json"), b, 0o644); err != nil {
		die("evidence: %v", err)
	}
	fmt.Printf("%s tier=%s obligations=%d discharged=%d known=%d violated=%d undecided=%d\n", r.Prop, o.tier, len(r.Obls), nDis, nKnown, nViol, nUndec)
	return exit
}
