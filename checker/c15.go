package main

// C15 — JID parsing and formatting are consistent and reject malformed addresses.

import (
	"fmt"
	"go/token"
	"sort"
	"strings"

	"golang.org/x/tools/go/ssa"
)

func init() {
	register(&propDef{
		id: "C15", level: "other", run: runC15,
		trusted: []string{"strings.SplitN(s, sep, 2) splits at the first occurrence of sep", "strings.IndexFunc returns < 0 iff no rune satisfies the predicate", "unicode.IsSpace"},
		explain: "Decides the validation gates on every success path of NewJid (R1: the nil-error return is unreachable once any one of the five gates is removed), the split discipline (R2: first SplitN on \"@\" with limit 2, then SplitN of the domain part on \"/\" with limit 2, resource = everything after the first \"/\"), the validators' tables (R3: empty domain rejected; whitespace, '@' and '/' rejected in local part and domain) and, for Full() and Bare(), the rendering on every path with the emptiness of each part known from the path's conditions (R4: the rendering must be [Node \"@\"] Domain [\"/\" Resource]; a part read where it is known to be empty is a contradiction). Not decided: NewJid as a function on all strings.",
	})
}

func runC15(w *World, r *Report, tier string) {
	r.Rule("R1", "gates: `return jid, nil` is unreachable once any one gate's passing edges are deleted: sjid != \"\"; with '@' present: local part != \"\" and domain part != \"\"; isUsernameValid(jid.Node); isDomainValid(jid.Domain)")
	r.Rule("R2", "split discipline: SplitN(sjid, \"@\", 2) then SplitN(jid.Domain, \"/\", 2); Node = first[0]; Domain = first[0] when there is no '@' else first[1], then second[0]; Resource = second[1]")
	r.Rule("R3", "validators: isDomainValid is false for length 0; both validators are `IndexFunc(s, isInvalid(table)) < 0`; isInvalid's predicate is true for unicode.IsSpace and for every rune of the table; both tables contain '@' and '/'")
	r.Rule("R4", "renderings: on every path of Full()/Bare(), after dropping parts known to be empty, the result is [Node \"@\"] Domain [\"/\" Resource] with exactly the non-empty parts")

	nj := w.Func("stanza.NewJid")
	r.Anchor("stanza.NewJid")
	sjid := nj.Params[0]
	okRet := func(in ssa.Instruction) bool {
		rt, ok := in.(*ssa.Return)
		return ok && isNilConst(rt.Results[1])
	}
	splits := w.callsInH(nj, "strings.SplitN", "strings.Split")
	var first, second *ssa.Call
	for _, s := range splits {
		c := s.(*ssa.Call)
		sep, _ := stringConst(c.Call.Args[1])
		if sep == "@" && first == nil {
			first = c
		} else if sep == "/" && second == nil {
			second = c
		}
	}
	// R2
	okSplit := first != nil && second != nil && len(splits) == 2
	detail := ""
	if !okSplit {
		detail = fmt.Sprintf("expected SplitN on \"@\" and on \"/\", found %d split calls", len(splits))
	} else {
		lim := func(c *ssa.Call) int64 {
			if len(c.Call.Args) < 3 {
				return -1
			}
			n, _ := intConst(c.Call.Args[2])
			return n
		}
		if first.Call.Args[0] != ssa.Value(sjid) || lim(first) != 2 {
			okSplit, detail = false, "the first split is not SplitN(sjid, \"@\", 2): a '@' inside the resource would be taken for the separator"
		}
		if f, _ := loadedField(second.Call.Args[0]); f == nil || f.Name() != "Domain" || lim(second) != 2 {
			okSplit, detail = false, "the second split is not SplitN(<domain part>, \"/\", 2): the resource would not be everything after the first '/'"
		}
		if okSplit && !reachable(after(first), func(in ssa.Instruction) bool { return in == ssa.Instruction(second) }, nil, nil) {
			okSplit, detail = false, "the '/' split happens before the '@' split"
		}
	}
	r.Check(okSplit, "R2", "stanza.NewJid#splits", w.pos(nj.Pos()), detail, "SplitN(sjid,\"@\",2) ≺ SplitN(jid.Domain,\"/\",2)")
	if okSplit {
		// assignments
		elemOf := func(v ssa.Value) (*ssa.Call, int64) {
			u, ok := v.(*ssa.UnOp)
			if !ok {
				return nil, -1
			}
			ia, ok := u.X.(*ssa.IndexAddr)
			if !ok {
				return nil, -1
			}
			c, ok := ia.X.(*ssa.Call)
			if !ok {
				return nil, -1
			}
			i, _ := intConst(ia.Index)
			return c, i
		}
		var got []string
		allInstrs(nj, func(in ssa.Instruction) {
			st, ok := in.(*ssa.Store)
			if !ok {
				return
			}
			fa, ok := st.Addr.(*ssa.FieldAddr)
			if !ok {
				return
			}
			c, i := elemOf(st.Val)
			which := "?"
			if c == first {
				which = "first"
			} else if c == second {
				which = "second"
			}
			got = append(got, fmt.Sprintf("%s=%s[%d]", fieldOfAddr(fa).Name(), which, i))
		})
		sort.Strings(got)
		want := []string{"Domain=first[0]", "Domain=first[1]", "Domain=second[0]", "Node=first[0]", "Resource=second[1]"}
		r.Check(strings.Join(got, ",") == strings.Join(want, ","), "R2", "stanza.NewJid#assignments", w.pos(nj.Pos()), "the parts are not taken from the split results as specified: "+strings.Join(got, ","), strings.Join(got, ","))
		// Domain=first[0] only when len(first)==1; Node only otherwise; second used only when len==2
	}

	// R1 gates
	type gate struct {
		name string
		cut  EdgeSet
	}
	lenIs := func(c *ssa.Call, n int64) func(cv ssa.Value, truth bool) bool {
		return func(cv ssa.Value, truth bool) bool {
			bo, ok := cv.(*ssa.BinOp)
			if !ok || (bo.Op != token.EQL && bo.Op != token.NEQ) {
				return false
			}
			lc, ok := bo.X.(*ssa.Call)
			if !ok || w.callKey(lc) != "builtin.len" || lc.Call.Args[0] != ssa.Value(c) {
				return false
			}
			k, isK := intConst(bo.Y)
			return isK && k == n && ((bo.Op == token.EQL) == truth)
		}
	}
	nonEmptyElem := func(c *ssa.Call, idx int64) func(cv ssa.Value, truth bool) bool {
		return func(cv ssa.Value, truth bool) bool {
			bo, ok := cv.(*ssa.BinOp)
			if !ok || (bo.Op != token.EQL && bo.Op != token.NEQ) {
				return false
			}
			s, isS := stringConst(bo.Y)
			if !isS || s != "" {
				return false
			}
			u, ok := bo.X.(*ssa.UnOp)
			if !ok {
				return false
			}
			ia, ok := u.X.(*ssa.IndexAddr)
			if !ok || ia.X != ssa.Value(c) {
				return false
			}
			i, _ := intConst(ia.Index)
			return i == idx && ((bo.Op == token.NEQ) == truth)
		}
	}
	var gates []gate
	gates = append(gates, gate{"sjid != \"\"", edgesAsserting(nj, func(cv ssa.Value, truth bool) bool {
		bo, ok := cv.(*ssa.BinOp)
		if !ok || bo.X != ssa.Value(sjid) {
			return false
		}
		s, isS := stringConst(bo.Y)
		return isS && s == "" && ((bo.Op == token.NEQ) == truth)
	})})
	if first != nil {
		noAt := edgesAsserting(nj, lenIs(first, 1))
		gates = append(gates, gate{"local part != \"\" (when '@' present)", edgesAsserting(nj, nonEmptyElem(first, 0)).union(noAt)})
		gates = append(gates, gate{"domain part != \"\" (when '@' present)", edgesAsserting(nj, nonEmptyElem(first, 1)).union(noAt)})
	}
	validGate := func(key, field string) EdgeSet {
		return edgesAsserting(nj, func(cv ssa.Value, truth bool) bool {
			c, _ := callResult(cv)
			if c == nil || !truth || w.callKey(c) != key {
				return false
			}
			f, _ := loadedField(c.Call.Args[0])
			return f != nil && f.Name() == field
		})
	}
	gates = append(gates, gate{"isUsernameValid(jid.Node)", validGate("stanza.isUsernameValid", "Node")})
	gates = append(gates, gate{"isDomainValid(jid.Domain)", validGate("stanza.isDomainValid", "Domain")})
	for _, g := range gates {
		ok := len(g.cut) > 0 && !reachable(entryLoc(nj), okRet, nil, g.cut)
		r.Check(ok, "R1", "stanza.NewJid#gate:"+g.name, w.pos(nj.Pos()), "a JID can be accepted without passing the check "+g.name, "nil-error return unreachable without it")
	}
	// the validators run on the final parts (after the '/' split)
	if second != nil {
		for _, k := range []string{"stanza.isUsernameValid", "stanza.isDomainValid"} {
			for _, c := range w.callsInH(nj, k) {
				ok, _ := mustPass(entryLoc(nj), func(in ssa.Instruction) bool { return in == c.(ssa.Instruction) }, func(in ssa.Instruction) bool { return in == ssa.Instruction(second) }, nil)
				r.Check(ok, "R1", "stanza.NewJid#"+strings.TrimPrefix(k, "stanza.")+"-after-split", w.ipos(c), "a part is validated before the resource has been split off: a '/' in the resource makes a valid JID invalid, or an invalid domain is accepted", "validated after the '/' split")
			}
		}
	}

	// R3 validators
	for _, spec := range []struct {
		key      string
		needLen0 bool
	}{{"stanza.isUsernameValid", false}, {"stanza.isDomainValid", true}} {
		fn := w.Func(spec.key)
		p := fn.Params[0]
		// every `return X` : const false, or IndexFunc(p, isInvalid(table)) < 0
		okForm := true
		var table []int64
		allInstrs(fn, func(in ssa.Instruction) {
			rt, ok := in.(*ssa.Return)
			if !ok {
				return
			}
			if b, isC := boolConst(rt.Results[0]); isC {
				if b {
					okForm = false
				}
				return
			}
			bo, ok := rt.Results[0].(*ssa.BinOp)
			if !ok || bo.Op != token.LSS {
				okForm = false
				return
			}
			z, isZ := intConst(bo.Y)
			c, isCall := bo.X.(*ssa.Call)
			if !isZ || z != 0 || !isCall || w.callKey(c) != "strings.IndexFunc" || c.Call.Args[0] != ssa.Value(p) {
				okForm = false
				return
			}
			mk, isMk := c.Call.Args[1].(*ssa.Call)
			if !isMk || w.callKey(mk) != "stanza.isInvalid" {
				okForm = false
				return
			}
			for _, e := range sliceLitElems(mk.Call.Args[0]) {
				v, _ := intConst(e)
				table = append(table, v)
			}
		})
		has := func(r rune) bool {
			for _, v := range table {
				if v == int64(r) {
					return true
				}
			}
			return false
		}
		r.Check(okForm && has('@') && has('/'), "R3", spec.key+"#table", w.pos(fn.Pos()), fmt.Sprintf("the validator is not `IndexFunc(s, isInvalid(table)) < 0` with '@' and '/' in its table (table %v)", table), fmt.Sprintf("IndexFunc(s, isInvalid(%d runes incl. '@','/')) < 0", len(table)))
		if spec.needLen0 {
			cut := edgesAsserting(fn, func(cv ssa.Value, truth bool) bool {
				bo, ok := cv.(*ssa.BinOp)
				if !ok {
					return false
				}
				z, isZ := intConst(bo.Y)
				if lc, ok := bo.X.(*ssa.Call); ok && w.callKey(lc) == "builtin.len" && lc.Call.Args[0] == ssa.Value(p) && isZ && z == 0 {
					return (bo.Op == token.NEQ) == truth || (bo.Op == token.GTR && truth)
				}
				if s, isS := stringConst(bo.Y); isS && s == "" && bo.X == ssa.Value(p) {
					return (bo.Op == token.NEQ) == truth
				}
				return false
			})
			notFalse := func(in ssa.Instruction) bool {
				rt, ok := in.(*ssa.Return)
				if !ok {
					return false
				}
				b, isC := boolConst(rt.Results[0])
				return !isC || b
			}
			r.Check(len(cut) > 0 && !reachable(entryLoc(fn), notFalse, nil, cut), "R3", spec.key+"#empty", w.pos(fn.Pos()), "an empty domain is not rejected", "false for length 0")
		}
	}
	// isInvalid's predicate
	pred := w.FuncOpt("stanza.isInvalid$1")
	if pred == nil {
		r.Undecided("R3", "stanza.isInvalid$1", "-", "the rune predicate is not a closure of isInvalid")
	} else {
		c := pred.Params[0]
		spaceEdges := edgesAsserting(pred, func(cv ssa.Value, truth bool) bool {
			call, _ := callResult(cv)
			return call != nil && !truth && w.callKey(call) == "unicode.IsSpace" && call.Call.Args[0] == ssa.Value(c)
		})
		retFalse := func(in ssa.Instruction) bool {
			rt, ok := in.(*ssa.Return)
			if !ok {
				return false
			}
			b, isC := boolConst(rt.Results[0])
			return !isC || !b
		}
		r.Check(len(spaceEdges) > 0 && !reachable(entryLoc(pred), retFalse, nil, spaceEdges), "R3", "stanza.isInvalid$1#space", w.pos(pred.Pos()), "whitespace is not rejected", "unicode.IsSpace(c) ⇒ true")
		neqEdges := edgesAsserting(pred, func(cv ssa.Value, truth bool) bool {
			bo, ok := cv.(*ssa.BinOp)
			if !ok || (bo.Op != token.EQL && bo.Op != token.NEQ) || bo.X != ssa.Value(c) {
				return false
			}
			u, ok := bo.Y.(*ssa.UnOp)
			if !ok {
				return false
			}
			_, isIdx := u.X.(*ssa.IndexAddr)
			return isIdx && ((bo.Op == token.NEQ) == truth)
		})
		// with the "c != table[i]" edges cut, the loop cannot continue, so `return false` is unreachable from inside the loop body
		loops := findRangeLoops(pred)
		okLoop := len(loops) == 1 && len(neqEdges) > 0
		if okLoop {
			okLoop = !reachable(Loc{loops[0].body, 0}, retFalse, nil, neqEdges)
			// the loop ranges over the captured table
			if u, ok := loops[0].slice.(*ssa.UnOp); !ok || func() bool { _, isFV := u.X.(*ssa.FreeVar); return !isFV }() {
				okLoop = false
			}
		}
		r.Check(okLoop, "R3", "stanza.isInvalid$1#table-membership", w.pos(pred.Pos()), "a rune of the forbidden table is not rejected", "c == table[i] ⇒ true, for every i")
	}

	// R4 renderings
	bare := w.Func("stanza.(*Jid).Bare")
	full := w.Func("stanza.(*Jid).Full")
	type rendering struct {
		conds []string
		atoms []atom
		at    string
	}
	renderingsOf := func(fn *ssa.Function) []rendering {
		var out []rendering
		walkPaths(entryLoc(fn), nil, nil, 2000, func(path []ssa.Instruction, end pathEnd) {
			rt, ok := path[len(path)-1].(*ssa.Return)
			if !ok {
				return
			}
			out = append(out, rendering{w.pathConds(path), strAtoms(rres(path, rt)[0]), w.ipos(rt)})
		})
		return out
	}
	bareR := renderingsOf(bare)
	check := func(name string, rs []rendering, wantResource bool) {
		n := 0
		for _, rd := range rs {
			// inline Bare()
			var expanded []rendering
			inl := false
			for _, a := range rd.atoms {
				if c, ok := a.Val.(*ssa.Call); ok && !a.IsC && w.callKey(c) == "stanza.Jid.Bare" {
					inl = true
				}
			}
			if inl && len(rd.atoms) == 1 {
				for _, b := range bareR {
					expanded = append(expanded, rendering{append(append([]string{}, rd.conds...), b.conds...), b.atoms, rd.at})
				}
			} else {
				expanded = []rendering{rd}
			}
			for _, e := range expanded {
				n++
				empty := map[string]int{} // 1 known empty, 2 known non-empty
				for _, c := range e.conds {
					for _, f := range []string{"Node", "Domain", "Resource"} {
						if strings.HasPrefix(c, `eq("",field:param:j.`+f+`)=`) {
							if strings.HasSuffix(c, "=true") {
								empty[f] = 1
							} else {
								empty[f] = 2
							}
						}
					}
				}
				var parts []string
				contradiction := ""
				for _, a := range e.atoms {
					if a.IsC {
						parts = append(parts, a.Const)
						continue
					}
					f, _ := loadedField(a.Val)
					if f == nil {
						parts = append(parts, "?")
						continue
					}
					if empty[f.Name()] == 1 {
						contradiction = f.Name()
						continue
					}
					parts = append(parts, "<"+f.Name()+">")
				}
				got := strings.Join(parts, "")
				want := ""
				undecided := false
				switch empty["Node"] {
				case 2:
					want += "<Node>@"
				case 0:
					undecided = true
				}
				want += "<Domain>"
				if wantResource {
					switch empty["Resource"] {
					case 2:
						want += "/<Resource>"
					case 0:
						undecided = true
					}
				}
				cons := fmt.Sprintf("stanza.(*Jid).%s#path:%s", name, condKey(empty))
				if undecided {
					r.Undecided("R4", cons, e.at, "the emptiness of a part is not known on this path: cannot decide the rendering "+got)
					continue
				}
				msg := fmt.Sprintf("renders %q where %q is required", got, want)
				if contradiction != "" {
					msg += fmt.Sprintf(" — %s is read on a path where it is known to be empty (for a domain JID with a resource, Full() loses the domain: NewJid(\"domain.com/res\").Full() == \"/res\")", contradiction)
				}
				r.Check(got == want, "R4", cons, e.at, msg, fmt.Sprintf("renders %s", got))
			}
		}
		if n == 0 {
			r.Undecided("R4", "stanza.(*Jid)."+name, "-", "no rendering path found")
		}
	}
	check("Bare", bareR, false)
	check("Full", renderingsOf(full), true)
	r.Floor("R4", 5)
}

func condKey(m map[string]int) string {
	var ks []string
	for _, f := range []string{"Node", "Resource"} {
		switch m[f] {
		case 1:
			ks = append(ks, f+"=empty")
		case 2:
			ks = append(ks, f+"≠empty")
		}
	}
	return strings.Join(ks, ",")
}
