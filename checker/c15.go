package main

// C15 — JID parsing and formatting are consistent and reject malformed addresses.

import (
	"fmt"
	"strings"

	"golang.org/x/tools/go/ssa"
)

func init() {
	register(&propDef{
		id: "C15", level: "other", run: runC15,
		trusted: []string{"strings.SplitN(s, sep, 2) splits at the first occurrence of sep", "strings.IndexFunc returns < 0 iff no rune satisfies the predicate", "unicode.IsSpace"},
		explain: "Interprets every success path of NewJid over symbolic string terms (before/after the first occurrence of a separator, recognised for SplitN(_,_,2) and for Index+slicing alike) and decides the five validation gates (R1) and the parts stored (R2: node = text before the first '@', resource = everything after the first '/' of what follows it), the validators as \"no rune satisfies a predicate that is true for whitespace and for a table containing '@' and '/'\" (R3; empty domain rejected) and, for Full() and Bare(), the rendering on every path with the emptiness of each part known from the path's conditions (R4: the rendering must be [Node \"@\"] Domain [\"/\" Resource]; a part read where it is known to be empty is a contradiction). Not decided: NewJid as a function on all strings.",
	})
}

func runC15(w *World, r *Report, tier string) {
	r.Rule("R1", "gates: every success path of NewJid has established: S != \"\"; with '@' present: before(S,'@') != \"\" and after(S,'@') != \"\"; isUsernameValid(final Node); isDomainValid(final Domain)")
	r.Rule("R2", "parts: on every success path of NewJid, with S the argument: Node = before(S,'@') if S contains '@' else \"\"; D0 = after(S,'@') resp. S; Domain = before(D0,'/') and Resource = after(D0,'/') if D0 contains '/', else Domain = D0 and Resource = \"\" — before/after meaning the first occurrence, whichever idiom computes them (SplitN(_,_,2), Index + slicing)")
	r.Rule("R3", "validators: isDomainValid is false for the empty string; each validator returns true only as \"no rune of the string satisfies P\" where P(c) is true whenever unicode.IsSpace(c) and whenever c is in a table that contains '@' and '/'")
	r.Rule("R4", "renderings: on every path of Full()/Bare(), after dropping parts known to be empty, the result is [Node \"@\"] Domain [\"/\" Resource] with exactly the non-empty parts")

	nj := w.Func("stanza.NewJid")
	r.Anchor("stanza.NewJid")
	c15NewJid(w, r, nj)
	c15Validators(w, r)

	// R4 renderings
	bare := w.Func("stanza.(*Jid).Bare")
	full := w.Func("stanza.(*Jid).Full")
	type rendering struct {
		conds []string
		atoms []atom
		at    string
	}
	renderingsOf := func(fn *ssa.Function) []rendering {
		var out []rendering
		walkPaths(entryLoc(fn), nil, nil, 2000, func(path []ssa.Instruction, end pathEnd) {
			rt, ok := path[len(path)-1].(*ssa.Return)
			if !ok {
				return
			}
			out = append(out, rendering{w.pathConds(path), strAtoms(rres(path, rt)[0]), w.ipos(rt)})
		})
		return out
	}
	bareR := renderingsOf(bare)
	check := func(name string, rs []rendering, wantResource bool) {
		n := 0
		for _, rd := range rs {
			// inline Bare() wherever it occurs in the concatenation
			expanded := []rendering{{rd.conds, nil, rd.at}}
			for _, a := range rd.atoms {
				isBare := false
				if c, ok := a.Val.(*ssa.Call); ok && !a.IsC && w.callKey(c) == "stanza.Jid.Bare" {
					isBare = true
				}
				var next []rendering
				for _, e := range expanded {
					if !isBare {
						next = append(next, rendering{e.conds, append(append([]atom{}, e.atoms...), a), e.at})
						continue
					}
					for _, b := range bareR {
						next = append(next, rendering{append(append([]string{}, e.conds...), b.conds...), append(append([]atom{}, e.atoms...), b.atoms...), e.at})
					}
				}
				expanded = next
			}
			for _, e := range expanded {
				n++
				empty := map[string]int{} // 1 known empty, 2 known non-empty
				for _, c := range e.conds {
					c = stableCons(c)
					for _, f := range []string{"Node", "Domain", "Resource"} {
						if strings.HasPrefix(c, `eq("",field:param:_.`+f+`)=`) {
							if strings.HasSuffix(c, "=true") {
								empty[f] = 1
							} else {
								empty[f] = 2
							}
						}
					}
				}
				var parts []string
				contradiction := ""
				for _, a := range e.atoms {
					if a.IsC {
						parts = append(parts, a.Const)
						continue
					}
					f, _ := loadedField(a.Val)
					if f == nil {
						parts = append(parts, "?")
						continue
					}
					if empty[f.Name()] == 1 {
						contradiction = f.Name()
						continue
					}
					parts = append(parts, "<"+f.Name()+">")
				}
				got := strings.Join(parts, "")
				want := ""
				undecided := false
				switch empty["Node"] {
				case 2:
					want += "<Node>@"
				case 0:
					undecided = true
				}
				want += "<Domain>"
				if wantResource {
					switch empty["Resource"] {
					case 2:
						want += "/<Resource>"
					case 0:
						undecided = true
					}
				}
				cons := fmt.Sprintf("stanza.(*Jid).%s#path:%s", name, condKey(empty))
				if undecided {
					r.Undecided("R4", cons, e.at, "the emptiness of a part is not known on this path: cannot decide the rendering "+got)
					continue
				}
				msg := fmt.Sprintf("renders %q where %q is required", got, want)
				if contradiction != "" {
					msg += fmt.Sprintf(" — %s is read on a path where it is known to be empty (for a domain JID with a resource, Full() loses the domain: NewJid(\"domain.com/res\").Full() == \"/res\")", contradiction)
				}
				r.Check(got == want, "R4", cons, e.at, msg, fmt.Sprintf("renders %s", got))
			}
		}
		if n == 0 {
			r.Undecided("R4", "stanza.(*Jid)."+name, "-", "no rendering path found")
		}
	}
	check("Bare", bareR, false)
	check("Full", renderingsOf(full), true)
	r.Floor("R4", 5)
}

func condKey(m map[string]int) string {
	var ks []string
	for _, f := range []string{"Node", "Resource"} {
		switch m[f] {
		case 1:
			ks = append(ks, f+"=empty")
		case 2:
			ks = append(ks, f+"≠empty")
		}
	}
	return strings.Join(ks, ",")
}
