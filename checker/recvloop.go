package main

// Shared analysis of a receive loop (Client.recv, Component.recv, the drain
// goroutine): the NextPacket call, the packet/err values, the universe of
// dynamic packet types, and per-type path enumeration through one iteration.

import (
	"fmt"
	"go/token"
	"go/types"
	"sort"

	"golang.org/x/tools/go/ssa"
)

type recvLoop struct {
	w        *World
	fn       *ssa.Function
	np       *ssa.Call // stanza.NextPacket call
	pkt, err ssa.Value
	okStart  Loc // first instruction on the err == nil edge
	errStart Loc // first instruction on the err != nil edge
	brStart  Loc // the branch on NextPacket's error itself: paths that start here carry the assertion they took
	okIdx    int // successor index of the err == nil edge
	universe map[string]types.Type
	stanzas  map[string]types.Type
	unknown  []string
}

func analyseRecvLoop(w *World, fn *ssa.Function) (*recvLoop, error) {
	calls := w.callsInH(fn, "stanza.NextPacket")
	if len(calls) != 1 {
		return nil, fmt.Errorf("%s: expected exactly one stanza.NextPacket call, found %d", w.funcKey(fn), len(calls))
	}
	np, ok := calls[0].(*ssa.Call)
	if !ok {
		return nil, fmt.Errorf("%s: NextPacket is not a plain call", w.funcKey(fn))
	}
	rl := &recvLoop{w: w, fn: fn, np: np, universe: map[string]types.Type{}, stanzas: map[string]types.Type{}}
	for _, r := range *np.Referrers() {
		if ex, ok := r.(*ssa.Extract); ok {
			if ex.Index == 0 {
				rl.pkt = ex
			} else {
				rl.err = ex
			}
		}
	}
	if rl.pkt == nil || rl.err == nil {
		return nil, fmt.Errorf("%s: results of NextPacket are not both used", w.funcKey(fn))
	}
	// the err test must be in the same block, directly deciding the branch
	b := np.Block()
	c, truth0, okc := edgeAssertion(b, 0)
	if !okc {
		return nil, fmt.Errorf("%s: the block of NextPacket does not end in the error test", w.funcKey(fn))
	}
	x, eq, isNil := nilCompare(c)
	if !isNil || x != rl.err {
		return nil, fmt.Errorf("%s: the branch after NextPacket does not test its error", w.funcKey(fn))
	}
	// edge 0 asserts (x==nil) == truth0 if eq, else (x!=nil)==truth0
	errIsNilOnEdge0 := (eq == truth0)
	if errIsNilOnEdge0 {
		rl.okStart, rl.errStart, rl.okIdx = Loc{b.Succs[0], 0}, Loc{b.Succs[1], 0}, 0
	} else {
		rl.okStart, rl.errStart, rl.okIdx = Loc{b.Succs[1], 0}, Loc{b.Succs[0], 0}, 1
	}
	rl.brStart = Loc{b, len(b.Instrs) - 1}
	w.returnedDynTypes(w.Func("stanza.NextPacket"), 0, 0, rl.universe, &rl.unknown)
	var unk2 []string
	w.returnedDynTypes(w.Func("stanza.decodeClient"), 0, 0, rl.stanzas, &unk2)
	rl.unknown = append(rl.unknown, unk2...)
	return rl, nil
}

func (rl *recvLoop) typeNames(m map[string]types.Type) []string {
	var out []string
	for k := range m {
		out = append(out, k)
	}
	sort.Strings(out)
	return out
}

func (rl *recvLoop) isNextPacket(in ssa.Instruction) bool { return in == ssa.Instruction(rl.np) }

// pathsFor enumerates the feasible paths of one iteration for dynamic type T:
// from the err==nil edge to the next NextPacket call or a return.
func (rl *recvLoop) pathsFor(T types.Type, visit func(path []ssa.Instruction, end pathEnd)) error {
	return walkPaths(rl.brStart, rl.isNextPacket, rl.okOnly(typeEdgeFilter(rl.pkt, T)), 20000, visit)
}

// okOnly / errOnly: edge filters for paths that start at the branch on NextPacket's error (brStart): only the
// err == nil (resp. err != nil) edge of that branch is followed; elsewhere f decides.
func (rl *recvLoop) okOnly(f func(*ssa.BasicBlock, int) bool) func(*ssa.BasicBlock, int) bool {
	return func(b *ssa.BasicBlock, succ int) bool {
		if b == rl.brStart.B {
			return succ == rl.okIdx
		}
		return f == nil || f(b, succ)
	}
}

func (rl *recvLoop) errOnly(f func(*ssa.BasicBlock, int) bool) func(*ssa.BasicBlock, int) bool {
	return func(b *ssa.BasicBlock, succ int) bool {
		if b == rl.brStart.B {
			return succ != rl.okIdx
		}
		return f == nil || f(b, succ)
	}
}

// routeCalls: calls (plain/go) to (*Router).route whose packet argument is the received value.
func (rl *recvLoop) isRouteOfPkt(in ssa.Instruction) bool {
	c := asCall(in)
	if c == nil {
		return false
	}
	if rl.w.callKey(c) != "xmpp.Router.route" {
		g, isGo := in.(*ssa.Go)
		return isGo && rl.goRoutesPkt(g)
	}
	args := c.Common().Args
	return len(args) == 3 && sameIface(args[2], rl.pkt)
}

// goRoutesPkt: `go f(…, pkt, …)` or `go func() { … pkt … }()` where the started function hands the received value — its parameter,
// or a variable of this iteration it captures — to Router.route exactly once on each of its paths. The arguments of a go statement
// are evaluated when it executes, and a variable declared inside the loop body is a new one per iteration, so this is the same
// dispatch as `go route(c, pkt)`; a variable declared outside the loop is shared with the next iteration and does not count.
func (rl *recvLoop) goRoutesPkt(g *ssa.Go) bool {
	var fn *ssa.Function
	var bindings []ssa.Value
	switch v := g.Call.Value.(type) {
	case *ssa.Function:
		fn = v
	case *ssa.MakeClosure:
		fn, _ = v.Fn.(*ssa.Function)
		bindings = v.Bindings
	}
	if fn == nil || len(fn.Blocks) == 0 || g.Call.IsInvoke() {
		return false
	}
	isPkt := map[ssa.Value]bool{}
	for i, a := range g.Call.Args {
		if i < len(fn.Params) && sameIface(a, rl.pkt) {
			isPkt[fn.Params[i]] = true
		}
	}
	cells := map[ssa.Value]bool{}
	for i, b := range bindings {
		al, ok := b.(*ssa.Alloc)
		if !ok || i >= len(fn.FreeVars) || !blockReaches(al.Block(), al.Block()) {
			continue
		}
		// the cell holds the received value: every store into it in this function stores that value
		n, okAll := 0, true
		for _, rf := range *al.Referrers() {
			if st, isSt := rf.(*ssa.Store); isSt && st.Addr == ssa.Value(al) {
				n++
				if !sameIface(st.Val, rl.pkt) {
					okAll = false
				}
			}
		}
		if n > 0 && okAll {
			cells[fn.FreeVars[i]] = true
		}
	}
	if len(isPkt) == 0 && len(cells) == 0 {
		return false
	}
	routesIt := func(in ssa.Instruction) bool {
		c, ok := in.(*ssa.Call)
		if !ok || rl.w.callKey(c) != "xmpp.Router.route" || len(c.Call.Args) != 3 {
			return false
		}
		a := c.Call.Args[2]
		if ci, ok := a.(*ssa.ChangeInterface); ok {
			a = ci.X
		}
		if isPkt[a] {
			return true
		}
		if u, ok := a.(*ssa.UnOp); ok && u.Op == token.MUL && cells[u.X] {
			return true
		}
		return false
	}
	ok, any := true, false
	for _, b := range fn.Blocks {
		for _, in := range b.Instrs {
			if _, isRet := in.(*ssa.Return); isRet {
				any = true
			}
		}
	}
	if !any {
		return false
	}
	// exactly once on every path: counted per block path without cycles
	var walk func(b *ssa.BasicBlock, n int, seen map[*ssa.BasicBlock]bool)
	steps := 0
	walk = func(b *ssa.BasicBlock, n int, seen map[*ssa.BasicBlock]bool) {
		steps++
		if !ok || steps > 5000 || seen[b] {
			if seen[b] || steps > 5000 {
				ok = false // a loop around the dispatch: not this shape
			}
			return
		}
		seen[b] = true
		defer delete(seen, b)
		for _, in := range b.Instrs {
			if routesIt(in) {
				n++
			}
			if _, isRet := in.(*ssa.Return); isRet && n != 1 {
				ok = false
			}
		}
		for _, s := range b.Succs {
			walk(s, n, seen)
		}
	}
	walk(fn.Blocks[0], 0, map[*ssa.BasicBlock]bool{})
	return ok
}

// isIncrementOf: in is `*(&…f) = *(&…f) + 1`.
func isIncrementOf(in ssa.Instruction, f *types.Var) bool {
	st, ok := in.(*ssa.Store)
	if !ok {
		return false
	}
	fa, ok := st.Addr.(*ssa.FieldAddr)
	if !ok || fieldOfAddr(fa) != f {
		return false
	}
	bo, ok := st.Val.(*ssa.BinOp)
	if !ok || bo.Op != token.ADD {
		return false
	}
	one := func(v ssa.Value) bool { i, ok := intConst(v); return ok && i == 1 }
	ld := func(v ssa.Value) bool {
		lf, _ := loadedField(v)
		if lf != f {
			return false
		}
		return sameAddr(v.(*ssa.UnOp).X, fa)
	}
	return (one(bo.Y) && ld(bo.X)) || (one(bo.X) && ld(bo.Y))
}

func isStoreTo(in ssa.Instruction, f *types.Var) bool {
	st, ok := in.(*ssa.Store)
	if !ok {
		return false
	}
	fa, ok := st.Addr.(*ssa.FieldAddr)
	return ok && fieldOfAddr(fa) == f
}
