package main

// C18 — keepalive: sent at the interval, closes a dead connection, stops with the session.

import (
	"fmt"
	"go/types"

	"golang.org/x/tools/go/ssa"
)

func init() {
	register(&propDef{
		id: "C18", level: "other", run: runC18,
		trusted: []string{"time.Ticker fires every d after NewTicker(d)", "a closed channel is always ready in a select", "net.Conn.Write reports the number of bytes written"},
		explain: "Decides wiring and control structure: the ticker period is keepalive's interval parameter and every start site passes Config.KeepaliveInterval and the channel the receive loop closes (R1); a failed ping stops the ticker, closes the transport and ends the goroutine, a successful one waits for the next tick (R2); when the quit channel fires the goroutine returns and no ping is reachable (R3); the TCP transport's ping writes exactly the one-byte constant \"\\n\" once on the connection and turns an error or a short write into an error (R4); every entry point that establishes a session starts a keepalive (R5). Not decided: wall-clock behaviour; the inherent race when a tick and the quit are ready together (one more newline may be written).",
	})
}

func runC18(w *World, r *Report, tier string) {
	r.Rule("R1", "wiring: time.NewTicker's argument is keepalive's interval parameter; every start site passes Config.KeepaliveInterval, the client's transport and the channel given to recv; NewClient defaults a zero interval")
	r.Rule("R2", "a failed Ping stops the ticker, closes the transport and returns; a successful Ping goes back to the select")
	r.Rule("R3", "the quit case returns; no Ping is reachable after it")
	r.Rule("R4", "XMPPTransport.Ping writes the constant \"\\n\" exactly once on the connection and returns an error on a write error or a short write")
	r.Rule("R6", "closing means closing: every implementation of Transport.Close closes the underlying connection on every path on which there is one — a failed farewell write does not leave the socket open (keepalive's way of making a dead connection visible to the receive loop)")
	r.Rule("R5", "every session-establishing entry point (Client.Connect, Client.Resume) starts one keepalive on every path that can report success")

	ka := w.Func("xmpp.keepalive")
	// R1
	tick := w.callsInH(ka, "time.NewTicker")
	okT := len(tick) == 1
	if okT {
		p, isP := tick[0].Common().Args[0].(*ssa.Parameter)
		okT = isP && p.Parent() == ka && p.Name() == ka.Params[1].Name()
	}
	r.Check(okT, "R1", "xmpp.keepalive#ticker", w.pos(ka.Pos()), "the ticker period is not keepalive's interval parameter", "NewTicker(interval)")
	nSites := 0
	for _, f := range w.LibFuncs() {
		for _, c := range w.callsIn(f, "xmpp.keepalive") {
			nSites++
			args := c.Common().Args
			cons := w.funcKey(f) + "→keepalive"
			okA := fieldNames(fieldPath(args[1])) == "config.KeepaliveInterval" && fieldNames(fieldPath(args[0])) == "transport"
			_, isGo := c.(*ssa.Go)
			var sameCh bool
			for _, rc := range w.callsIn(f, "xmpp.Client.recv") {
				// (a receive loop that is not handed the channel when it is started finds it somewhere when it ends: then
				// nothing ties the channel it closes to the keepalive started here)
				if ra := rc.Common().Args; len(ra) >= 2 && len(args) >= 3 && chanOrigin(ra[1]) == chanOrigin(args[2]) {
					sameCh = true
				}
			}
			if len(args) < 3 {
				r.Fail("R1", cons, w.ipos(c), "keepalive is not started with (transport, interval, quit channel)")
				continue
			}
			r.Check(okA && isGo && sameCh, "R1", cons, w.ipos(c), "keepalive is not started as a goroutine with (client transport, Config.KeepaliveInterval, the quit channel handed to recv)", "go keepalive(c.transport, c.config.KeepaliveInterval, q) with q also given to recv")
		}
	}
	if nSites == 0 {
		r.Undecided("R1", "keepalive#start-sites", "-", "keepalive is never started")
	}
	// default interval: NewClient stores a positive constant when the field is zero
	nc := w.Func("xmpp.NewClient")
	fKA := w.Field("xmpp.Config.KeepaliveInterval")
	okDef := false
	for _, a := range w.fieldAccesses(fKA, []*ssa.Function{nc}) {
		if a.Kind == "store" {
			if v, ok := intConst(a.Val); ok && v > 0 {
				// guarded by == 0
				guard := edgesAsserting(nc, func(c ssa.Value, truth bool) bool {
					bo, ok := c.(*ssa.BinOp)
					if !ok {
						return false
					}
					f, _ := loadedField(bo.X)
					z, isZ := intConst(bo.Y)
					return f == fKA && isZ && z == 0 && ((bo.Op.String() == "==") == truth)
				})
				if len(guard) > 0 && !reachable(entryLoc(nc), func(in ssa.Instruction) bool { return in == a.Instr }, nil, guard) {
					okDef = true
				}
			}
		}
	}
	r.Check(okDef, "R1", "xmpp.NewClient#default-interval", w.pos(nc.Pos()), "a zero KeepaliveInterval is not replaced by a positive default (time.NewTicker panics on a non-positive period)", "zero interval defaulted to a positive constant")

	// R2 + R3 (shared analysis)
	c12Keepalive(w, r, "R2")
	// re-label: the quit case obligation of c12Keepalive is R3's content
	for i := range r.Obls {
		if r.Obls[i].Rule == "R2" && r.Obls[i].Construct == "xmpp.keepalive#case:quit" {
			r.Obls[i].Rule = "R3"
			r.counts["R3"]++
			r.counts["R2"]--
		}
	}

	// R3: the receive loop closes the quit channel on every way out (a deferred close in its entry block)
	{
		recv := w.Func("xmpp.(*Client).recv")
		deferOK := false
		for _, in := range recv.Blocks[0].Instrs {
			if d, ok := in.(*ssa.Defer); ok && w.callKey(d) == "builtin.close" {
				if _, isP := d.Call.Args[0].(*ssa.Parameter); isP {
					deferOK = true
				}
			}
			if _, isIf := in.(*ssa.If); isIf {
				break
			}
		}
		if !deferOK {
			// equivalent: every return of recv is preceded by a close of the parameter on every path
			isClose := func(in ssa.Instruction) bool {
				c := asCall(in)
				if c == nil || w.callKey(c) != "builtin.close" {
					return false
				}
				_, isP := origin(c.Common().Args[0]).(*ssa.Parameter)
				return isP
			}
			ok, _ := mustPass(entryLoc(recv), isReturn, isClose, nil)
			deferOK = ok
		}
		r.Check(deferOK, "R3", "xmpp.(*Client).recv#closes-quit-on-every-exit", w.pos(recv.Pos()), "the receive loop has a way out on which the keepalive's quit channel is not closed (for example the stream-close exit): the keepalive goroutine outlives the session and keeps pinging — also a later session on the same transport", "quit channel closed on every exit of recv")
	}

	// R4 Ping
	ping := w.Func("xmpp.(*XMPPTransport).Ping")
	var writes []ssa.CallInstruction
	allInstrs(ping, func(in ssa.Instruction) {
		if c := asCall(in); c != nil {
			k := w.callKey(c)
			if k == "net.Conn.Write" || k == "io.Writer.Write" || k == "io.ReadWriter.Write" || k == "xmpp.XMPPTransport.Write" || k == "fmt.Fprintf" || k == "fmt.Fprint" || k == "io.WriteString" {
				writes = append(writes, c)
			}
		}
	})
	if len(writes) != 1 {
		r.Fail("R4", "xmpp.(*XMPPTransport).Ping#write", w.pos(ping.Pos()), fmt.Sprintf("Ping performs %d writes, exactly one expected", len(writes)))
	} else {
		wc := writes[0].(*ssa.Call)
		arg := wc.Call.Args[len(wc.Call.Args)-1]
		payload := describeBytes(arg)
		okP := c04ConstBytes(arg) && payload == `"\n"`
		onConn := false
		if wc.Call.IsInvoke() {
			f, _ := loadedField(wc.Call.Value)
			onConn = f != nil && (f.Name() == "conn" || f.Name() == "readWriter")
		}
		r.Check(okP && onConn, "R4", "xmpp.(*XMPPTransport).Ping#payload", w.ipos(wc), "the keepalive is not the single whitespace byte \"\\n\" written on the connection: "+payload, `writes "\n" on the connection`)
		// every nil return requires err == nil and n == 1
		bad := ""
		nNil := 0
		var nV, eV ssa.Value
		for _, rf := range *wc.Referrers() {
			if ex, ok := rf.(*ssa.Extract); ok {
				if ex.Index == 0 {
					nV = ex
				} else {
					eV = ex
				}
			}
		}
		walkPaths(after(wc), nil, nil, 2000, func(path []ssa.Instruction, end pathEnd) {
			ret, ok := path[len(path)-1].(*ssa.Return)
			if !ok {
				return
			}
			// a return that reports success: nil, or the write's own error on a path where it was found nil
			res := rres(path, ret)[0]
			if !isNilConst(res) {
				if res != eV || !pathAsserts(path, func(c ssa.Value, truth bool) bool { return assertsNil(c, truth, eV) }) {
					return
				}
			}
			nNil++
			okE := eV != nil && pathAsserts(path, func(c ssa.Value, truth bool) bool { return assertsNil(c, truth, eV) })
			okN := nV != nil && pathAsserts(path, func(c ssa.Value, truth bool) bool {
				bo, ok := c.(*ssa.BinOp)
				if !ok || bo.X != nV {
					return false
				}
				k, isK := intConst(bo.Y)
				if !isK {
					// n compared with len(payload)
					if lc, ok := bo.Y.(*ssa.Call); ok && w.callKey(lc) == "builtin.len" && lc.Call.Args[0] == arg && payload == `"\n"` {
						k, isK = 1, true
					}
				}
				if !isK || k != 1 {
					return false
				}
				return (bo.Op.String() == "==") == truth
			})
			if !okE || !okN {
				bad = "Ping can report success although the write failed or was short"
			}
		})
		r.Check(bad == "" && nNil > 0, "R4", "xmpp.(*XMPPTransport).Ping#result", w.ipos(wc), bad, "nil only when err == nil and n == 1")
	}
	// Websocket form is listed
	r.Note("WebsocketTransport.Ping sends a websocket ping control frame with a %s deadline instead of a newline; R4 is about the TCP transport", "5s")

	// R5
	for _, k := range []string{"xmpp.(*Client).Connect", "xmpp.(*Client).Resume"} {
		f := w.Func(k)
		conn := w.callsInH(f, "xmpp.Client.connect")
		if len(conn) != 1 {
			r.Undecided("R5", k, w.pos(f.Pos()), "expected exactly one connect() call")
			continue
		}
		cc := conn[0].(*ssa.Call)
		var start *Loc
		for _, b := range f.Blocks {
			for si := range b.Succs {
				if c, truth, ok := edgeAssertion(b, si); ok && assertsNil(c, truth, cc) {
					l := Loc{b.Succs[si], 0}
					start = &l
				}
			}
		}
		if start == nil {
			r.Undecided("R5", k, w.ipos(cc), "connect() result not tested")
			continue
		}
		isKA := func(in ssa.Instruction) bool {
			_, g := in.(*ssa.Go)
			return g && w.callKey(asCall(in)) == "xmpp.keepalive"
		}
		bad := ""
		n := 0
		walkPaths(*start, nil, nil, 20000, func(path []ssa.Instruction, end pathEnd) {
			ret, ok := path[len(path)-1].(*ssa.Return)
			if !ok {
				return
			}
			res := rres(path, ret)[len(ret.Results)-1]
			if pathAsserts(path, func(c ssa.Value, truth bool) bool { return assertsNonNil(c, truth, res) }) {
				return
			}
			n++
			if countOn(path, isKA) != 1 {
				bad = fmt.Sprintf("a path that can report success starts %d keepalive goroutines", countOn(path, isKA))
			}
		})
		r.Check(bad == "" && n > 0, "R5", k, w.pos(f.Pos()), bad, fmt.Sprintf("%d success path(s), one keepalive each", n))
	}

	transportCloseRule(w, r, "R6")
	r.Rule("R7", "the session's end reaches the keepalive: the channel through which the receive loop hands the server's stream close to Close is created afresh by every Connect (shared with C12.R4), so that the hand-over cannot block and recv always gets to close the quit channel")
	streamCloseChannelFresh(w, r, "R7")
	r.Floor("R6", 2)
}

// transportCloseRule: every implementation of Transport.Close closes the underlying connection on every path on which
// there is one (C18.R6; shared as C12.R6 — it is how a failed keepalive makes the loss visible to the receive loop).
func transportCloseRule(w *World, r *Report, rule string) {
	// ---- R6: Transport.Close really closes
	var closeImpls []*ssa.Function
	if it, ok := w.Named("xmpp.Transport").Underlying().(*types.Interface); ok {
		for _, T := range w.implementers(it) {
			if sel := w.Prog.MethodSets.MethodSet(T).Lookup(nil, "Close"); sel != nil {
				if f := w.unwrap(w.Prog.MethodValue(sel)); f != nil && f.Blocks != nil {
					closeImpls = append(closeImpls, f)
				}
			}
		}
	}
	for _, impl := range closeImpls {
		if w.TestSupport[impl] {
			continue
		}
		key := w.funcKey(impl)
		bad := ""
		n := 0
		isConnClose := func(in ssa.Instruction) bool {
			c := asCall(in)
			if c == nil {
				return false
			}
			k := w.callKey(c)
			if k == "net.Conn.Close" || k == "nhooyr.io/websocket.Conn.Close" || k == "io.Closer.Close" {
				return true
			}
			return false
		}
		// a module callee that closes the connection on all of its paths where there is one counts as closing
		closes := func(in ssa.Instruction) bool {
			if isConnClose(in) {
				return true
			}
			c, ok := in.(*ssa.Call)
			if !ok {
				return false
			}
			callee := c.Call.StaticCallee()
			if callee == nil || callee.Blocks == nil || !w.inModule(callee) || callee == impl {
				return false
			}
			return len(w.callsIn(callee, "net.Conn.Close", "nhooyr.io/websocket.Conn.Close", "io.Closer.Close")) > 0
		}
		err := walkPaths(entryLoc(impl), nil, nil, 50000, func(path []ssa.Instruction, end pathEnd) {
			ret, ok := path[len(path)-1].(*ssa.Return)
			if !ok {
				return
			}
			n++
			if countOn(path, closes) > 0 {
				return
			}
			// no connection to close on this path?
			noConn := pathAsserts(path, func(c ssa.Value, truth bool) bool {
				x, eq, ok := nilCompare(c)
				if !ok || eq != truth {
					return false
				}
				f, _ := loadedField(x)
				return f != nil && (f.Name() == "conn" || f.Name() == "wsConn")
			})
			if !noConn {
				bad = "Close returns at " + w.ipos(ret) + " without having closed the connection"
			}
		})
		if err != nil {
			r.Undecided(rule, key, w.pos(impl.Pos()), err.Error())
			continue
		}
		r.Check(bad == "" && n > 0, rule, key, w.pos(impl.Pos()), bad+": after a failed keepalive the socket stays open, the receive loop stays blocked in Read and the loss is never reported", fmt.Sprintf("%d path(s), each closes the connection or has none", n))
	}
}

// streamCloseChannelFresh (C12.R4 #fresh-per-connection, shared as C18.R7): the channel on which the receive loop hands
// the server's </stream:stream> to Close has room for one token. That is enough only if every connection gets a channel
// of its own: a token left over from the previous connection makes the next hand-over block for ever — the receive
// loop never returns, its quit channel is never closed, the keepalive of the ended session goes on.
func streamCloseChannelFresh(w *World, r *Report, rule string) {
	conn := w.Func("xmpp.(*XMPPTransport).Connect")
	fCh := w.Field("xmpp.XMPPTransport.closeChan")
	cons := "xmpp.(*XMPPTransport).Connect#closeChan-fresh-per-connection"
	isFresh := func(in ssa.Instruction) bool {
		st, ok := in.(*ssa.Store)
		if !ok {
			return false
		}
		fa, ok := st.Addr.(*ssa.FieldAddr)
		if !ok || fieldOfAddr(fa) != fCh {
			return false
		}
		mk, ok := origin(st.Val).(*ssa.MakeChan)
		if !ok {
			return false
		}
		k, isK := intConst(mk.Size)
		return isK && k >= 1
	}
	// every way through Connect to the stream open (or to a return that is not a constructed error) creates the channel
	isGoal := func(in ssa.Instruction) bool {
		if c := asCall(in); c != nil && w.callKey(c) == "xmpp.XMPPTransport.StartStream" {
			return true
		}
		return false
	}
	n := 0
	allInstrsH(conn, func(in ssa.Instruction) {
		if isGoal(in) {
			n++
		}
	})
	if n == 0 {
		r.Undecided(rule, cons, w.pos(conn.Pos()), "Connect no longer opens the stream itself: where a connection's channel must exist by is not known")
		return
	}
	ok, wit := mustPass(entryLoc(conn), isGoal, isFresh, nil)
	r.Check(ok, rule, cons, w.pos(conn.Pos()), "a connection can be established without a stream-close channel of its own ("+pathString(w, wit)+"): a token left by the previous connection makes ReceivedStreamClose block, the receive loop never ends and the keepalive of the ended session keeps running", "every path to the stream open stores a fresh make(chan, ≥1)")
}
