package main

// C19 — reconnection back-off delays are bounded and grow exponentially up to the cap.

import (
	"fmt"
	"strings"

	"golang.org/x/tools/go/ssa"
)

func init() {
	register(&propDef{
		id: "C19", level: "other", run: runC19,
		trusted: []string{"math.Min, math.Pow, math.Trunc as documented (Pow overflow gives +Inf, Min(cap, +Inf) = cap)", "rand.Intn(d) returns a value in [0, d)", "time.Millisecond is a positive constant"},
		explain: "Decides the shape from which the bounds follow: the per-attempt query depends on its attempt argument and on no mutable state (R1); every value that can be returned is the constant time.Millisecond times either d or rand.Intn(d), where d = int(math.Trunc(math.Min(float64(Cap), ·))) — so it has passed through the cap and jitter can only shrink it (R2); the capped term is float64(Base) * math.Pow(float64(Factor), float64(attempt)) (R3); setDefault replaces exactly the zero fields by the named positive constants (R4); the stateful sequence passes its counter and then increments it by one (R1). Not decided: numeric monotonicity and Duration overflow for absurd caps (value-level facts); they follow from the decided shape by the trusted semantics of Min/Pow for positive base/factor/cap.",
	})
}

func runC19(w *World, r *Report, tier string) {
	r.Rule("R1", "dependence: durationForAttempt's result depends on its parameter and not on the field backoff.attempt; duration() passes b.attempt and then increments it by 1; wait() sleeps for duration()")
	r.Rule("R2", "bound: the returned value is time.Millisecond * d or time.Millisecond * rand.Intn(d) with d = int(Trunc(Min(float64(Cap), X)))")
	r.Rule("R3", "formula: X = float64(Base) * math.Pow(float64(Factor), float64(attempt))")
	r.Rule("R4", "defaults: setDefault stores only under field == 0, only the named constants, and they are positive; the cap default is 3 minutes")

	fn := w.Func("xmpp.(*backoff).durationForAttempt")
	r.Anchor("xmpp.(*backoff).durationForAttempt")
	var rets []*ssa.Return
	allInstrs(fn, func(in ssa.Instruction) {
		if rt, ok := in.(*ssa.Return); ok {
			rets = append(rets, rt)
		}
	})
	if len(rets) != 1 {
		r.Undecided("R2", "xmpp.(*backoff).durationForAttempt#returns", w.pos(fn.Pos()), "more than one return: cannot normalise")
		return
	}
	got := w.nf(rets[0].Results[0], 0)
	recv := "param:" + fn.Params[0].Name()
	att := "param:" + fn.Params[1].Name()
	X := func(attempt string) string {
		return fmt.Sprintf("mul(field:%s.Base,math.Pow(field:%s.Factor,%s))", recv, recv, attempt)
	}
	d := func(attempt string) string {
		return fmt.Sprintf("math.Trunc(math.Min(field:%s.Cap,%s))", recv, X(attempt))
	}
	want := func(attempt string) string {
		es := []string{d(attempt), "math/rand.Intn(" + d(attempt) + ")"}
		sortStrings(es)
		a, b := "1000000", "phi("+strings.Join(es, "|")+")"
		if a > b {
			a, b = b, a
		}
		return "mul(" + a + "," + b + ")"
	}
	r.Tables["durationForAttempt.normal_form"] = got
	// R2: shape with any attempt expression
	shapeOK := false
	attemptExpr := ""
	for _, cand := range []string{att, "field:" + recv + ".attempt"} {
		if got == want(cand) {
			shapeOK = true
			attemptExpr = cand
		}
	}
	if !shapeOK {
		// find what stands in the exponent to give a precise message
		r.Fail("R2", "xmpp.(*backoff).durationForAttempt#shape", w.ipos(rets[0]), "the returned delay is not time.Millisecond × (d | rand.Intn(d)) with d = int(Trunc(Min(Cap, Base × Factor^attempt))): normal form is "+got)
		r.Undecided("R3", "xmpp.(*backoff).durationForAttempt#formula", w.ipos(rets[0]), "shape not recognised, formula not compared")
	} else {
		r.Ok("R2", "xmpp.(*backoff).durationForAttempt#shape", "result = time.Millisecond × phi(d | rand.Intn(d)), d = int(Trunc(Min(Cap, X))) — every returned value passed the cap; jitter only shrinks")
		r.Ok("R3", "xmpp.(*backoff).durationForAttempt#formula", "X = "+X(attemptExpr))
		r.Check(attemptExpr == att, "R1", "xmpp.(*backoff).durationForAttempt#depends-on-parameter", w.ipos(rets[0]), "the attempt parameter is never read: the exponent is the receiver's mutable counter ("+attemptExpr+"), so the stateless per-attempt query returns the same delay for every n (durationForAttempt(0) == durationForAttempt(5))", "exponent is the parameter")
	}
	// jitter selection: the un-jittered value is chosen exactly on NoJitter == true
	{
		var phi *ssa.Phi
		allInstrs(fn, func(in ssa.Instruction) {
			if p, ok := in.(*ssa.Phi); ok {
				phi = p
			}
		})
		if phi != nil && len(phi.Edges) == 2 {
			okJ := true
			for i, e := range phi.Edges {
				_, isIntn := e.(*ssa.Call)
				pred := phi.Block().Preds[i]
				// edge from pred into phi block: find assertion on NoJitter
				if !isIntn {
					// reached directly from the branch block: must be the NoJitter==true edge
					for si, s := range pred.Succs {
						if s == phi.Block() {
							if c, truth, ok := edgeAssertion(pred, si); ok {
								f, _ := loadedField(c)
								if f == nil || f.Name() != "NoJitter" || !truth {
									okJ = false
								}
							}
						}
					}
				}
			}
			r.Check(okJ, "R2", "xmpp.(*backoff).durationForAttempt#jitter-switch", w.ipos(phi), "the un-jittered delay is not selected exactly when NoJitter is set", "d when NoJitter, rand.Intn(d) otherwise")
		}
	}
	// setDefault is called before the fields are read
	sd := w.callsIn(fn, "xmpp.backoff.setDefault")
	okSD := len(sd) == 1
	if okSD {
		allInstrs(fn, func(in ssa.Instruction) {
			if u, ok := in.(*ssa.UnOp); ok {
				if f, _ := loadedField(u); f != nil && (f.Name() == "Base" || f.Name() == "Cap" || f.Name() == "Factor") {
					if ok2, _ := mustPass(entryLoc(fn), func(x ssa.Instruction) bool { return x == in }, func(x ssa.Instruction) bool { return x == sd[0].(ssa.Instruction) }, nil); !ok2 {
						okSD = false
					}
				}
			}
		})
	}
	r.Check(okSD, "R4", "xmpp.(*backoff).durationForAttempt#defaults-first", w.pos(fn.Pos()), "Base/Cap/Factor are read before setDefault has replaced zero values (rand.Intn(0) panics, zero cap gives zero delay)", "setDefault dominates the reads")

	// R1: duration / wait
	du := w.Func("xmpp.(*backoff).duration")
	fAtt := w.Field("xmpp.backoff.attempt")
	dc := w.callsIn(du, "xmpp.backoff.durationForAttempt")
	okDu := len(dc) == 1
	detail := ""
	if okDu {
		f, _ := loadedField(dc[0].Common().Args[1])
		if f != fAtt {
			okDu = false
			detail = "duration() does not pass the attempt counter"
		}
		inc := 0
		var incI ssa.Instruction
		allInstrs(du, func(in ssa.Instruction) {
			if isStoreTo(in, fAtt) {
				if isIncrementOf(in, fAtt) {
					inc++
					incI = in
				} else {
					okDu = false
					detail = "the attempt counter is written other than by +1"
				}
			}
		})
		if inc != 1 {
			okDu = false
			detail = fmt.Sprintf("the attempt counter is incremented %d time(s) per duration()", inc)
		} else if !reachable(after(dc[0].(ssa.Instruction)), func(in ssa.Instruction) bool { return in == incI }, nil, nil) {
			okDu = false
			detail = "the counter is incremented before the delay is computed: the first delay is not base"
		}
		// returns the computed duration
		allInstrs(du, func(in ssa.Instruction) {
			if rt, ok := in.(*ssa.Return); ok && rt.Results[0] != ssa.Value(dc[0].(*ssa.Call)) {
				okDu = false
				detail = "duration() does not return durationForAttempt's result"
			}
		})
	}
	r.Check(okDu, "R1", "xmpp.(*backoff).duration", w.pos(du.Pos()), detail, "d := durationForAttempt(b.attempt); b.attempt++; return d")
	wt := w.Func("xmpp.(*backoff).wait")
	sl := w.callsIn(wt, "time.Sleep")
	okW := len(sl) == 1 && w.isResultOf(sl[0].Common().Args[0], 0, "xmpp.backoff.duration")
	r.Check(okW, "R1", "xmpp.(*backoff).wait", w.pos(wt.Pos()), "wait() does not sleep for duration()", "time.Sleep(b.duration())")
	// who else writes the counter
	for _, a := range w.fieldAccesses(fAtt, w.LibFuncs()) {
		if a.Kind == "store" && a.Fn != du {
			z, isC := intConst(a.Val)
			r.Check(isC && z == 0 && a.Fn.Name() == "reset", "R1", w.funcKey(a.Fn)+"#store:attempt", w.ipos(a.Instr), "the attempt counter is written outside duration()/reset()", "reset to 0")
		}
	}

	// R4 defaults
	sdf := w.Func("xmpp.(*backoff).setDefault")
	consts := map[string]string{"Base": "defaultBase", "Cap": "defaultCap", "Factor": "defaultFactor"}
	n4 := 0
	allInstrs(sdf, func(in ssa.Instruction) {
		st, ok := in.(*ssa.Store)
		if !ok {
			return
		}
		fa, ok := st.Addr.(*ssa.FieldAddr)
		if !ok {
			return
		}
		f := fieldOfAddr(fa)
		n4++
		cons := "xmpp.(*backoff).setDefault#" + f.Name()
		cname, known := consts[f.Name()]
		if !known {
			r.Fail("R4", cons, w.ipos(in), "setDefault writes a field that is not a setting")
			return
		}
		want, _ := intConstOf(w.Pkgs["xmpp"].Types.Scope().Lookup(cname))
		got, isC := intConst(st.Val)
		guard := edgesAsserting(sdf, func(c ssa.Value, truth bool) bool {
			bo, ok := c.(*ssa.BinOp)
			if !ok {
				return false
			}
			lf, _ := loadedField(bo.X)
			z, isZ := intConst(bo.Y)
			return lf == f && isZ && z == 0 && ((bo.Op.String() == "==") == truth)
		})
		guarded := len(guard) > 0 && !reachable(entryLoc(sdf), func(x ssa.Instruction) bool { return x == in }, nil, guard)
		r.Check(isC && got == want && want > 0 && guarded, "R4", cons, w.ipos(in), fmt.Sprintf("%s is not defaulted to the positive constant %s only when zero (stores %v, guarded=%v)", f.Name(), cname, valStr(st.Val), guarded), fmt.Sprintf("%s = %s (%d) when zero", f.Name(), cname, want))
	})
	if n4 != 3 {
		r.Fail("R4", "xmpp.(*backoff).setDefault#coverage", w.pos(sdf.Pos()), fmt.Sprintf("setDefault stores %d fields, 3 expected", n4))
	}
	capDef, _ := intConstOf(w.Pkgs["xmpp"].Types.Scope().Lookup("defaultCap"))
	r.Check(capDef == 180000, "R4", "xmpp.defaultCap", "-", fmt.Sprintf("the default cap is %d ms, the statement says three minutes (180000 ms)", capDef), "180000 ms")
}
