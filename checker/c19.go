package main

// C19 — reconnection back-off delays are bounded and grow exponentially up to the cap.

import (
	"fmt"
	"go/types"

	"golang.org/x/tools/go/ssa"
)

func init() {
	register(&propDef{
		id: "C19", level: "other", run: runC19,
		trusted: []string{"math.Min, math.Pow, math.Trunc as documented (Pow overflow gives +Inf, Min(cap, +Inf) = cap)", "rand.Intn(d) returns a value in [0, d)", "time.Millisecond is a positive constant"},
		explain: "Decides the shape from which the bounds follow: the per-attempt query depends on its attempt argument and on no mutable state (R1); every value that can be returned is the constant time.Millisecond times either d or rand.Intn(d), where d = int(math.Trunc(math.Min(float64(Cap), ·))) — so it has passed through the cap and jitter can only shrink it (R2); the capped term is float64(Base) * math.Pow(float64(Factor), float64(attempt)) (R3); setDefault replaces exactly the zero fields by the named positive constants (R4); the stateful sequence passes its counter and then increments it by one (R1). Not decided: numeric monotonicity and Duration overflow for absurd caps (value-level facts); they follow from the decided shape by the trusted semantics of Min/Pow for positive base/factor/cap.",
	})
}

func runC19(w *World, r *Report, tier string) {
	r.Rule("R1", "dependence: durationForAttempt's result depends on its parameter and not on the field backoff.attempt; duration() passes b.attempt and then increments it by 1; wait() sleeps for duration()")
	r.Rule("R2", "bound: the returned value is time.Millisecond * d or time.Millisecond * rand.Intn(d) with d = int(Trunc(Min(float64(Cap), X)))")
	r.Rule("R3", "formula: X = float64(Base) * math.Pow(float64(Factor), float64(attempt))")
	r.Rule("R4", "defaults: setDefault stores only under field == 0, only the named constants, and they are positive; the cap default is 3 minutes")

	fn := w.Func("xmpp.(*backoff).durationForAttempt")
	r.Anchor("xmpp.(*backoff).durationForAttempt")
	// the attempt counter is the field duration() increments (found by role, not by name)
	du := w.Func("xmpp.(*backoff).duration")
	var fAtt *types.Var
	allInstrsH(du, func(in ssa.Instruction) {
		if st, ok := in.(*ssa.Store); ok {
			if fa, ok := st.Addr.(*ssa.FieldAddr); ok && isIncrementOf(in, fieldOfAddr(fa)) {
				fAtt = fieldOfAddr(fa)
			}
		}
	})
	recv := "param:" + fn.Params[0].Name()
	att := "param:" + fn.Params[1].Name()
	attField := "?"
	if fAtt != nil {
		attField = "field:" + recv + "." + fAtt.Name()
	}
	X := func(attempt string) string {
		return fmt.Sprintf("mul(field:%s.Base,math.Pow(field:%s.Factor,%s))", recv, recv, attempt)
	}
	d := func(attempt string) string {
		return fmt.Sprintf("math.Trunc(math.Min(field:%s.Cap,%s))", recv, X(attempt))
	}
	mulMs := func(x string) string {
		a, b := "1000000", x
		if a > b {
			a, b = b, a
		}
		return "mul(" + a + "," + b + ")"
	}
	var forms []string
	badShape, attemptExpr := "", ""
	nPaths, nJit, nNoJit := 0, 0, 0
	errW := walkPaths(entryLoc(fn), nil, nil, 5000, func(path []ssa.Instruction, end pathEnd) {
		ret, ok := path[len(path)-1].(*ssa.Return)
		if !ok || end == endCycle {
			badShape = "durationForAttempt has a loop or panics"
			return
		}
		nPaths++
		got := w.nfOn(rres(path, ret)[0], path)
		forms = append(forms, got)
		jitOff := pathAsserts(path, func(c ssa.Value, truth bool) bool {
			f, _ := loadedField(c)
			return f != nil && f.Name() == "NoJitter" && truth
		})
		jitOn := pathAsserts(path, func(c ssa.Value, truth bool) bool {
			f, _ := loadedField(c)
			return f != nil && f.Name() == "NoJitter" && !truth
		})
		matched := false
		for _, cand := range []string{att, attField} {
			want := ""
			switch {
			case jitOff && !jitOn:
				want = mulMs(d(cand))
			case jitOn && !jitOff:
				want = mulMs("math/rand.Intn(" + d(cand) + ")")
			}
			if want != "" && got == want {
				matched = true
				if attemptExpr == "" || attemptExpr == cand {
					attemptExpr = cand
				} else {
					attemptExpr = "mixed"
				}
			}
		}
		if jitOff {
			nNoJit++
		}
		if jitOn {
			nJit++
		}
		if !matched {
			which := "jitter"
			if jitOff {
				which = "no-jitter"
			}
			if !jitOn && !jitOff {
				which = "unconditional"
			}
			badShape = fmt.Sprintf("on the %s path the returned delay is %s, not time.Millisecond × %s with d = int(Trunc(Min(Cap, Base × Factor^attempt)))", which, got, map[string]string{"jitter": "rand.Intn(d)", "no-jitter": "d", "unconditional": "(d | rand.Intn(d) selected by NoJitter)"}[which])
		}
	})
	r.Tables["durationForAttempt.normal_forms"] = forms
	var rets []*ssa.Return
	allInstrs(fn, func(in ssa.Instruction) {
		if rt, ok := in.(*ssa.Return); ok {
			rets = append(rets, rt)
		}
	})
	if errW != nil {
		r.Undecided("R2", "xmpp.(*backoff).durationForAttempt#shape", w.pos(fn.Pos()), errW.Error())
	} else if badShape != "" || nJit == 0 || nNoJit == 0 {
		if badShape == "" {
			badShape = fmt.Sprintf("the jitter switch is missing (%d jitter path(s), %d no-jitter path(s))", nJit, nNoJit)
		}
		r.Fail("R2", "xmpp.(*backoff).durationForAttempt#shape", w.pos(fn.Pos()), badShape)
		r.Undecided("R3", "xmpp.(*backoff).durationForAttempt#formula", w.pos(fn.Pos()), "shape not recognised, formula not compared")
	} else {
		r.Ok("R2", "xmpp.(*backoff).durationForAttempt#shape", fmt.Sprintf("%d path(s): result = time.Millisecond × d when NoJitter, × rand.Intn(d) otherwise, d = int(Trunc(Min(Cap, X))) — every returned value passed the cap; jitter only shrinks", nPaths))
		r.Ok("R3", "xmpp.(*backoff).durationForAttempt#formula", "X = "+X(attemptExpr))
		r.Ok("R2", "xmpp.(*backoff).durationForAttempt#jitter-switch", "d when NoJitter, rand.Intn(d) otherwise")
		r.Check(attemptExpr == att, "R1", "xmpp.(*backoff).durationForAttempt#depends-on-parameter", w.pos(fn.Pos()), "the attempt parameter is never read: the exponent is the receiver's mutable counter ("+attemptExpr+"), so the stateless per-attempt query returns the same delay for every n (durationForAttempt(0) == durationForAttempt(5))", "exponent is the parameter")
	}
	// setDefault is called before the fields are read
	sd := w.callsInH(fn, "xmpp.backoff.setDefault")
	okSD := len(sd) == 1
	if okSD {
		allInstrs(fn, func(in ssa.Instruction) {
			if u, ok := in.(*ssa.UnOp); ok {
				if f, _ := loadedField(u); f != nil && (f.Name() == "Base" || f.Name() == "Cap" || f.Name() == "Factor") {
					if ok2, _ := mustPass(entryLoc(fn), func(x ssa.Instruction) bool { return x == in }, func(x ssa.Instruction) bool { return x == sd[0].(ssa.Instruction) }, nil); !ok2 {
						okSD = false
					}
				}
			}
		})
	}
	r.Check(okSD, "R4", "xmpp.(*backoff).durationForAttempt#defaults-first", w.pos(fn.Pos()), "Base/Cap/Factor are read before setDefault has replaced zero values (rand.Intn(0) panics, zero cap gives zero delay)", "setDefault dominates the reads")

	// R1: duration / wait
	dc := w.callsInH(du, "xmpp.backoff.durationForAttempt")
	if fAtt == nil {
		r.Fail("R1", "xmpp.(*backoff).duration#counter", w.pos(du.Pos()), "duration() does not increment an attempt counter: every wait uses the same attempt number")
		return
	}
	okDu := len(dc) == 1
	detail := ""
	if okDu {
		f, _ := loadedField(dc[0].Common().Args[1])
		if f != fAtt {
			okDu = false
			detail = "duration() does not pass the attempt counter"
		}
		inc := 0
		var incI ssa.Instruction
		allInstrsH(du, func(in ssa.Instruction) {
			if isStoreTo(in, fAtt) {
				if isIncrementOf(in, fAtt) {
					inc++
					incI = in
				} else {
					okDu = false
					detail = "the attempt counter is written other than by +1"
				}
			}
		})
		if inc != 1 {
			okDu = false
			detail = fmt.Sprintf("the attempt counter is incremented %d time(s) per duration()", inc)
		} else if !reachable(after(dc[0].(ssa.Instruction)), func(in ssa.Instruction) bool { return in == incI }, nil, nil) {
			okDu = false
			detail = "the counter is incremented before the delay is computed: the first delay is not base"
		}
		// returns the computed duration
		allInstrs(du, func(in ssa.Instruction) {
			if rt, ok := in.(*ssa.Return); ok && rt.Results[0] != ssa.Value(dc[0].(*ssa.Call)) {
				okDu = false
				detail = "duration() does not return durationForAttempt's result"
			}
		})
	}
	r.Check(okDu, "R1", "xmpp.(*backoff).duration", w.pos(du.Pos()), detail, "d := durationForAttempt(b.attempt); b.attempt++; return d")
	wt := w.Func("xmpp.(*backoff).wait")
	sl := w.callsInH(wt, "time.Sleep")
	okW := len(sl) == 1 && w.isResultOf(sl[0].Common().Args[0], 0, "xmpp.backoff.duration")
	r.Check(okW, "R1", "xmpp.(*backoff).wait", w.pos(wt.Pos()), "wait() does not sleep for duration()", "time.Sleep(b.duration())")
	// who else writes the counter
	for _, a := range w.fieldAccesses(fAtt, w.LibFuncs()) {
		if a.Kind == "store" && a.Fn != du {
			z, isC := intConst(a.Val)
			r.Check(isC && z == 0 && a.Fn.Name() == "reset", "R1", w.funcKey(a.Fn)+"#store:attempt", w.ipos(a.Instr), "the attempt counter is written outside duration()/reset()", "reset to 0")
		}
	}

	// R4 defaults (per path, through helpers)
	sdf := w.Func("xmpp.(*backoff).setDefault")
	consts := map[string]string{"Base": "defaultBase", "Cap": "defaultCap", "Factor": "defaultFactor"}
	stored := map[string]bool{}
	bad4 := map[string]string{}
	fieldAt := func(addr ssa.Value, i int) *types.Var {
		if fa, ok := rvI(addr, i).(*ssa.FieldAddr); ok {
			return fieldOfAddr(fa)
		}
		return nil
	}
	walkPaths(entryLoc(sdf), nil, nil, 5000, func(path []ssa.Instruction, end pathEnd) {
		// fields asserted zero on this path
		zero := map[*types.Var]bool{}
		pathEdges(path, func(b *ssa.BasicBlock, succ int) {
			c, truth, ok := edgeAssertion(b, succ)
			if !ok {
				return
			}
			bo, isB := c.(*ssa.BinOp)
			if !isB {
				return
			}
			z, isZ := intConst(bo.Y)
			u, isU := bo.X.(*ssa.UnOp)
			if !isZ || z != 0 || !isU {
				return
			}
			if f := fieldAt(u.X, curEdgeIdx); f != nil && ((bo.Op.String() == "==") == truth) {
				zero[f] = true
			}
		})
		for i, in := range path {
			st, ok := in.(*ssa.Store)
			if !ok {
				continue
			}
			f := fieldAt(st.Addr, i)
			if f == nil {
				continue
			}
			cname, known := consts[f.Name()]
			if !known {
				bad4[f.Name()] = "setDefault writes a field that is not a setting"
				continue
			}
			stored[f.Name()] = true
			want, _ := intConstOf(w.Pkgs["xmpp"].Types.Scope().Lookup(cname))
			got, isC := intConst(rvI(st.Val, i))
			if !isC || got != want || want <= 0 {
				bad4[f.Name()] = fmt.Sprintf("%s is defaulted to %s, not to the positive constant %s", f.Name(), valStr(rvI(st.Val, i)), cname)
			}
			if !zero[f] {
				bad4[f.Name()] = fmt.Sprintf("%s is overwritten although it is not zero: an application setting is lost", f.Name())
			}
		}
	})
	for _, n := range []string{"Base", "Cap", "Factor"} {
		cons := "xmpp.(*backoff).setDefault#" + n
		if !stored[n] {
			r.Fail("R4", cons, w.pos(sdf.Pos()), n+" is never defaulted: a zero value gives a zero delay or makes rand.Intn panic")
			continue
		}
		r.Check(bad4[n] == "", "R4", cons, w.pos(sdf.Pos()), bad4[n], n+" = "+consts[n]+" only when zero")
	}
	for k, v := range bad4 {
		if _, known := consts[k]; !known {
			r.Fail("R4", "xmpp.(*backoff).setDefault#"+k, w.pos(sdf.Pos()), v)
		}
	}
	capDef, _ := intConstOf(w.Pkgs["xmpp"].Types.Scope().Lookup("defaultCap"))
	r.Check(capDef == 180000, "R4", "xmpp.defaultCap", "-", fmt.Sprintf("the default cap is %d ms, the statement says three minutes (180000 ms)", capDef), "180000 ms")
}
