package main

import (
	"go/types"
	"reflect"
	"strings"
)

// xmlNameTag: the (space, local) a struct type's XMLName tag announces; ok=false if no XMLName field/tag.
func xmlNameTag(t types.Type) (space, local string, has bool) {
	if p, ok := t.Underlying().(*types.Pointer); ok {
		t = p.Elem()
	}
	st, ok := t.Underlying().(*types.Struct)
	if !ok {
		return "", "", false
	}
	for i := 0; i < st.NumFields(); i++ {
		if st.Field(i).Name() == "XMLName" {
			tag := reflect.StructTag(st.Tag(i)).Get("xml")
			if tag == "" {
				return "", "", false
			}
			name := strings.Split(tag, ",")[0]
			if j := strings.LastIndex(name, " "); j >= 0 {
				return name[:j], name[j+1:], true
			}
			return "", name, true
		}
	}
	return "", "", false
}

type tagInfo struct {
	Field    *types.Var
	Name     string // element/attr local name ("" = default: field name)
	Space    string
	Attr     bool
	Omit     bool
	InnerXML bool
	CharData bool
	CData    bool
	Any      bool
	Comment  bool
	Skip     bool
	Embedded bool
	HasTag   bool
	Path     []string // a>b>c
}

func parseXMLTag(f *types.Var, raw string) tagInfo {
	ti := tagInfo{Field: f, Embedded: f.Embedded()}
	tag, ok := reflect.StructTag(raw).Lookup("xml")
	ti.HasTag = ok
	if tag == "-" {
		ti.Skip = true
		return ti
	}
	parts := strings.Split(tag, ",")
	name := parts[0]
	for _, fl := range parts[1:] {
		switch fl {
		case "attr":
			ti.Attr = true
		case "omitempty":
			ti.Omit = true
		case "innerxml":
			ti.InnerXML = true
		case "chardata":
			ti.CharData = true
		case "cdata":
			ti.CData = true
		case "any":
			ti.Any = true
		case "comment":
			ti.Comment = true
		}
	}
	if j := strings.LastIndex(name, " "); j >= 0 {
		ti.Space, name = name[:j], name[j+1:]
	}
	if strings.Contains(name, ">") {
		ti.Path = strings.Split(name, ">")
		name = ti.Path[len(ti.Path)-1]
	}
	ti.Name = name
	return ti
}

// structTags lists the xml tag info of every field of struct type t (not flattened).
func structTags(t types.Type) []tagInfo {
	if p, ok := t.Underlying().(*types.Pointer); ok {
		t = p.Elem()
	}
	st, ok := t.Underlying().(*types.Struct)
	if !ok {
		return nil
	}
	var out []tagInfo
	for i := 0; i < st.NumFields(); i++ {
		out = append(out, parseXMLTag(st.Field(i), st.Tag(i)))
	}
	return out
}

// flatAttrs: attribute name -> field path, flattening embedded structs without
// an xml name the way encoding/xml does.
func flatAttrs(t types.Type, prefix string, depth int) map[string]string {
	out := map[string]string{}
	if depth > 4 {
		return out
	}
	for _, ti := range structTags(t) {
		if ti.Skip || !ti.Field.Exported() && !ti.Embedded {
			continue
		}
		if ti.Embedded && ti.Name == "" && !ti.Attr {
			ft := ti.Field.Type()
			if p, ok := ft.(*types.Pointer); ok {
				ft = p.Elem()
			}
			if _, isStruct := ft.Underlying().(*types.Struct); isStruct {
				for k, v := range flatAttrs(ft, prefix+ti.Field.Name()+".", depth+1) {
					out[k] = v
				}
			}
			continue
		}
		if ti.Attr {
			n := ti.Name
			if n == "" {
				n = ti.Field.Name()
			}
			out[n] = prefix + ti.Field.Name()
		}
	}
	return out
}
