package main

// Path-insensitive value resolution through helper functions the reference tree
// does not have (extracted helpers): a parameter of such a helper with a unique
// call site is the argument passed there; the result of a call to such a helper
// with a unique return statement is the value returned there.

import (
	"go/token"

	"golang.org/x/tools/go/ssa"
)

var callSiteCache map[*ssa.Function][]*ssa.Call

func (w *World) callSitesOf(fn *ssa.Function) []*ssa.Call {
	if callSiteCache == nil {
		callSiteCache = map[*ssa.Function][]*ssa.Call{}
		for _, f := range w.LibFuncs() {
			allInstrs(f, func(in ssa.Instruction) {
				if c, ok := in.(*ssa.Call); ok {
					if callee := c.Call.StaticCallee(); callee != nil && w.inModule(callee) {
						callSiteCache[callee] = append(callSiteCache[callee], c)
					}
				}
			})
		}
	}
	if len(callSiteCache[fn]) == 0 {
		// a function literal handed to a helper that only calls it: that call
		if _, _, ic := passedVia(fn); ic != nil {
			return []*ssa.Call{ic}
		}
	}
	return callSiteCache[fn]
}

func isHelper(fn *ssa.Function) bool {
	return inlineOK != nil && fn != nil && (inlineOK(fn) || calledLiteral(fn))
}

// originsAll: like origin, but a parameter of a helper (or of a function literal that is only called) with several call
// sites resolves to the argument of every one of them.
func originsAll(v ssa.Value) []ssa.Value {
	w := theWorld
	v = origin(v)
	p, ok := v.(*ssa.Parameter)
	if !ok || w == nil || !isHelper(p.Parent()) {
		return []ssa.Value{v}
	}
	fn := p.Parent()
	idx := -1
	for k, q := range fn.Params {
		if q == p {
			idx = k
		}
	}
	sites := w.callSitesOf(fn)
	if idx < 0 || len(sites) == 0 {
		return []ssa.Value{v}
	}
	var out []ssa.Value
	for _, cs := range sites {
		if idx >= len(cs.Call.Args) {
			return []ssa.Value{v}
		}
		out = append(out, originsAll(cs.Call.Args[idx])...)
	}
	return out
}

// origin resolves v through helpers (see above). It never fails: an unresolvable value is returned as is.
func origin(v ssa.Value) ssa.Value { return originIn(nil, v) }

// originIn is origin with the call sites of shared helpers restricted to those inside scope and the helpers it walks
// through: a helper used by three decoders resolves, for each decoder, to that decoder's call.
func originIn(scope *ssa.Function, v ssa.Value) ssa.Value {
	w := theWorld
	if w == nil {
		return v
	}
	var inScope map[*ssa.Function]bool
	if scope != nil {
		inScope = map[*ssa.Function]bool{}
		for _, g := range withHelpers(scope) {
			inScope[g] = true
		}
	}
	sitesOf := func(fn *ssa.Function) []*ssa.Call {
		all := w.callSitesOf(fn)
		if inScope == nil || len(all) <= 1 {
			return all
		}
		var out []*ssa.Call
		for _, c := range all {
			if inScope[c.Parent()] {
				out = append(out, c)
			}
		}
		return out
	}
	for i := 0; i < 16 && v != nil; i++ {
		switch x := v.(type) {
		case *ssa.Parameter:
			fn := x.Parent()
			if !isHelper(fn) {
				return v
			}
			sites := sitesOf(fn)
			if len(sites) != 1 {
				return v
			}
			idx := -1
			for k, p := range fn.Params {
				if p == x {
					idx = k
				}
			}
			if idx < 0 || idx >= len(sites[0].Call.Args) {
				return v
			}
			v = sites[0].Call.Args[idx]
			continue
		case *ssa.Call:
			callee := x.Call.StaticCallee()
			if !isHelper(callee) {
				return v
			}
			if r := uniqueReturn(callee); r != nil && len(r.Results) == 1 {
				v = r.Results[0]
				continue
			}
			return v
		case *ssa.Extract:
			if c, ok := x.Tuple.(*ssa.Call); ok {
				callee := c.Call.StaticCallee()
				if isHelper(callee) {
					if r := uniqueReturn(callee); r != nil && x.Index < len(r.Results) {
						v = r.Results[x.Index]
						continue
					}
				}
			}
			return v
		case *ssa.ChangeInterface:
			v = x.X
			continue
		case *ssa.UnOp:
			// a local variable that lives in memory because a function literal captures it, assigned exactly once
			// (typically a parameter): reading it gives that value
			if sv := finalCellValue(x); sv != nil {
				v = sv
				continue
			}
			return v
		default:
			return v
		}
	}
	return v
}

// finalCellValue: u loads a local variable kept in memory (an Alloc, or the captured variable of a function literal
// bound to one) that is assigned exactly once in the function and in all the literals that capture it, by a store that
// comes before every read in the function itself; the value assigned, else nil.
func finalCellValue(u *ssa.UnOp) ssa.Value {
	if u.Op != token.MUL {
		return nil
	}
	var cell *ssa.Alloc
	switch a := u.X.(type) {
	case *ssa.Alloc:
		cell = a
	case *ssa.FreeVar:
		cell = allocOfFreeVar(a, 0)
	}
	if cell == nil || cell.Referrers() == nil {
		return nil
	}
	var stores []*ssa.Store
	okUse := true
	var scan func(addr ssa.Value, depth int)
	scan = func(addr ssa.Value, depth int) {
		if addr.Referrers() == nil || depth > 3 {
			okUse = false
			return
		}
		for _, rf := range *addr.Referrers() {
			switch y := rf.(type) {
			case *ssa.Store:
				if y.Addr == addr {
					stores = append(stores, y)
				} else {
					okUse = false // the address itself is stored somewhere
				}
			case *ssa.UnOp, *ssa.DebugRef:
			case *ssa.MakeClosure:
				fn, _ := y.Fn.(*ssa.Function)
				if fn == nil {
					okUse = false
					continue
				}
				for i, b := range y.Bindings {
					if b == addr && i < len(fn.FreeVars) {
						scan(fn.FreeVars[i], depth+1)
					}
				}
			default:
				okUse = false
			}
		}
	}
	scan(cell, 0)
	if !okUse || len(stores) != 1 {
		return nil
	}
	st := stores[0]
	if st.Parent() != cell.Parent() {
		return nil
	}
	// the store precedes the reads of the defining function (literals are created after it or read later)
	for _, rf := range *cell.Referrers() {
		ld, isLoad := rf.(*ssa.UnOp)
		if !isLoad {
			if mc, isMC := rf.(*ssa.MakeClosure); isMC && !precedes(st, mc) {
				return nil
			}
			continue
		}
		if !precedes(st, ld) {
			return nil
		}
	}
	return st.Val
}

// precedes: a comes before b on every path to b (same function).
func precedes(a, b ssa.Instruction) bool {
	if a.Block() == b.Block() {
		ia, ib := -1, -1
		for i, in := range a.Block().Instrs {
			if in == a {
				ia = i
			}
			if in == b {
				ib = i
			}
		}
		return ia < ib
	}
	return a.Block().Dominates(b.Block())
}

// allocOfFreeVar: the local variable of the enclosing function a captured variable is bound to, when the literal is
// created at exactly one place.
func allocOfFreeVar(fv *ssa.FreeVar, depth int) *ssa.Alloc {
	fn := fv.Parent()
	if fn == nil || fn.Parent() == nil || depth > 3 {
		return nil
	}
	idx := -1
	for i, f := range fn.FreeVars {
		if f == fv {
			idx = i
		}
	}
	var found ssa.Value
	n := 0
	allInstrs(fn.Parent(), func(in ssa.Instruction) {
		if mc, ok := in.(*ssa.MakeClosure); ok && mc.Fn == ssa.Value(fn) && idx >= 0 && idx < len(mc.Bindings) {
			found = mc.Bindings[idx]
			n++
		}
	})
	if n != 1 {
		return nil
	}
	switch b := found.(type) {
	case *ssa.Alloc:
		return b
	case *ssa.FreeVar:
		return allocOfFreeVar(b, depth+1)
	}
	return nil
}

// originNN is origin for uses where a nil/zero alternative is irrelevant (the value is only used where it has been
// tested): a helper with several returns resolves to its only non-constant result.
func originNN(v ssa.Value) ssa.Value {
	for i := 0; i < 8; i++ {
		v = origin(v)
		var callee *ssa.Function
		idx := 0
		switch x := v.(type) {
		case *ssa.Call:
			callee = x.Call.StaticCallee()
		case *ssa.Extract:
			if c, ok := x.Tuple.(*ssa.Call); ok {
				callee, idx = c.Call.StaticCallee(), x.Index
			}
		}
		if !isHelper(callee) {
			return v
		}
		var only ssa.Value
		n := 0
		allInstrs(callee, func(in ssa.Instruction) {
			rt, ok := in.(*ssa.Return)
			if !ok || idx >= len(rt.Results) {
				return
			}
			if _, isC := rt.Results[idx].(*ssa.Const); isC {
				return
			}
			if only != rt.Results[idx] {
				only = rt.Results[idx]
				n++
			}
		})
		if n != 1 {
			return v
		}
		v = only
	}
	return v
}

func uniqueReturn(fn *ssa.Function) *ssa.Return {
	var rets []*ssa.Return
	allInstrs(fn, func(in ssa.Instruction) {
		if r, ok := in.(*ssa.Return); ok {
			rets = append(rets, r)
		}
	})
	if len(rets) == 1 {
		return rets[0]
	}
	return nil
}

// callsInH: like callsIn, but also finds the calls inside helpers that fn walks through.
func (w *World) callsInH(fn *ssa.Function, keys ...string) []ssa.CallInstruction {
	pred := w.isCallTo(keys...)
	var out []ssa.CallInstruction
	for _, f := range withHelpers(fn) {
		for _, b := range f.Blocks {
			for _, in := range b.Instrs {
				if pred(in) {
					out = append(out, asCall(in))
				}
			}
		}
	}
	return out
}

// allInstrsH: instructions of fn and of the helpers it walks through.
func allInstrsH(fn *ssa.Function, f func(ssa.Instruction)) {
	for _, g := range withHelpers(fn) {
		allInstrs(g, f)
	}
}

// isParamOfH: v is (after resolution through helpers) a parameter of fn.
func isParamOfH(v ssa.Value, fn *ssa.Function) bool {
	p, ok := origin(v).(*ssa.Parameter)
	return ok && p.Parent() == fn
}

// ownerKey: the symbolic key of fn, or — for a helper the reference tree does not have — of the
// known function that (uniquely, possibly through further helpers) calls it.
func (w *World) ownerKey(f *ssa.Function) string { return w.funcKey(w.ownerFn(f)) }

// calledLiteral: f is a function literal that its enclosing function only calls (never starts as a goroutine, defers
// or stores): it runs on behalf of that function.
func calledLiteral(f *ssa.Function) bool {
	if f == nil || f.Parent() == nil {
		return false
	}
	if oc, _, _ := passedVia(f); oc != nil {
		return true
	}
	used := false
	ok := true
	allInstrs(f.Parent(), func(in ssa.Instruction) {
		mc, isMC := in.(*ssa.MakeClosure)
		if !isMC || mc.Fn != ssa.Value(f) {
			return
		}
		for _, rf := range *mc.Referrers() {
			switch x := rf.(type) {
			case *ssa.Call:
				if x.Call.Value == ssa.Value(mc) {
					used = true
					continue
				}
				ok = false
			case *ssa.Defer:
				// deferred by the function that defines it: runs on its behalf when it returns
				if x.Call.Value == ssa.Value(mc) {
					used = true
					continue
				}
				ok = false
			case *ssa.DebugRef:
			default:
				ok = false
			}
		}
	})
	return used && ok
}

// passedVia: f is a function literal whose only use is to be handed, where it is written, to a helper of the module that
// does nothing with that parameter but call it (`r.withLock(func() { … })`): the literal runs, synchronously, on behalf
// of the function that contains it. Returns the call that hands it over, the helper, and the helper's call of it.
var passedViaCache = map[*ssa.Function]*[3]interface{}{}

func passedVia(f *ssa.Function) (*ssa.Call, *ssa.Function, *ssa.Call) {
	if f == nil || f.Parent() == nil || inlineOK == nil {
		return nil, nil, nil
	}
	if c, ok := passedViaCache[f]; ok {
		if c == nil {
			return nil, nil, nil
		}
		return c[0].(*ssa.Call), c[1].(*ssa.Function), c[2].(*ssa.Call)
	}
	passedViaCache[f] = nil
	var outer *ssa.Call
	argIdx := -1
	n, ok := 0, true
	allInstrs(f.Parent(), func(in ssa.Instruction) {
		mc, isMC := in.(*ssa.MakeClosure)
		if !isMC || mc.Fn != ssa.Value(f) {
			return
		}
		n++
		for _, rf := range *mc.Referrers() {
			switch x := rf.(type) {
			case *ssa.DebugRef:
			case *ssa.Call:
				if x.Call.Value == ssa.Value(mc) || outer != nil {
					ok = false
					continue
				}
				for i, a := range x.Call.Args {
					if a == ssa.Value(mc) {
						outer, argIdx = x, i
					}
				}
			default:
				ok = false
			}
		}
	})
	if !ok || n != 1 || outer == nil {
		return nil, nil, nil
	}
	h := outer.Call.StaticCallee()
	if h == nil || h.Blocks == nil || !inlineOK(h) || argIdx >= len(h.Params) {
		return nil, nil, nil
	}
	var inner *ssa.Call
	for _, rf := range *h.Params[argIdx].Referrers() {
		switch x := rf.(type) {
		case *ssa.DebugRef:
		case *ssa.Call:
			if x.Call.Value != ssa.Value(h.Params[argIdx]) || inner != nil {
				return nil, nil, nil
			}
			inner = x
		default:
			return nil, nil, nil
		}
	}
	if inner == nil {
		return nil, nil, nil
	}
	passedViaCache[f] = &[3]interface{}{outer, h, inner}
	return outer, h, inner
}

func (w *World) ownerFn(f *ssa.Function) *ssa.Function {
	for i := 0; i < 6; i++ {
		if calledLiteral(f) {
			f = f.Parent()
			continue
		}
		if !isHelper(f) {
			break
		}
		sites := w.callSitesOf(f)
		if len(sites) != 1 {
			break
		}
		f = sites[0].Parent()
	}
	return f
}

// allPathsPass: every feasible path from the entry of fn to target contains an instruction of via before it.
func allPathsPass(fn *ssa.Function, target ssa.Instruction, via func(ssa.Instruction) bool) (bool, string) {
	ok, n := true, 0
	isT := func(in ssa.Instruction) bool { return in == target }
	err := walkPaths(entryLoc(fn), isT, nil, 100000, func(path []ssa.Instruction, end pathEnd) {
		if !isT(path[len(path)-1]) {
			return
		}
		n++
		if countOn(path[:len(path)-1], via) == 0 {
			ok = false
		}
	})
	if err != nil {
		return false, err.Error()
	}
	if n == 0 {
		return false, "the instruction is not reachable from the entry"
	}
	return ok, ""
}

// owners: the functions of the reference tree on whose behalf f runs — f itself, or, for a helper, every known
// function that reaches it through helper-only call chains.
func (w *World) owners(f *ssa.Function) []*ssa.Function {
	seen := map[*ssa.Function]bool{}
	var out []*ssa.Function
	var visit func(g *ssa.Function, depth int)
	visit = func(g *ssa.Function, depth int) {
		if seen[g] {
			return
		}
		seen[g] = true
		if calledLiteral(g) {
			visit(g.Parent(), depth+1)
			return
		}
		if !isHelper(g) || depth > 4 {
			out = append(out, g)
			return
		}
		sites := w.callSitesOf(g)
		if len(sites) == 0 {
			out = append(out, g)
			return
		}
		for _, c := range sites {
			visit(c.Parent(), depth+1)
		}
	}
	visit(f, 0)
	return out
}

// ownedOnlyBy: every owner of f has one of the given keys.
func (w *World) ownedOnlyBy(f *ssa.Function, keys ...string) bool {
	for _, o := range w.owners(f) {
		ok := false
		for _, k := range keys {
			if w.funcKey(o) == k {
				ok = true
			}
		}
		if !ok {
			return false
		}
	}
	return true
}

// liftTo: the instruction of fn through which `in` runs — in itself, or, when in lies in a helper fn walks through,
// the call in fn that (through helper-only calls) leads to it. Returns in unchanged if no such call is found.
func (w *World) liftTo(fn *ssa.Function, in ssa.Instruction) ssa.Instruction {
	cur := in
	for i := 0; i < 4 && cur.Parent() != fn; i++ {
		f := cur.Parent()
		if !isHelper(f) {
			return in
		}
		var next ssa.Instruction
		for _, cs := range w.callSitesOf(f) {
			for _, g := range withHelpers(fn) {
				if cs.Parent() == g {
					next = cs
				}
			}
		}
		if next == nil {
			return in
		}
		cur = next
	}
	return cur
}

// ---------------------------------------------------------------------------
// effectively constant package-level tables (dispatch through a map of functions)

type tableEntry struct {
	Key string // constant key (string constants only)
	Val ssa.Value
}

// constMapTable: if g is a package-level map that is built once by the package initialiser from constant keys and never
// updated anywhere else, its entries; otherwise nil.
func (w *World) constMapTable(g *ssa.Global) []tableEntry {
	if w.tables == nil {
		w.tables = map[*ssa.Global][]tableEntry{}
		w.tablesDone = map[*ssa.Global]bool{}
	}
	if w.tablesDone[g] {
		return w.tables[g]
	}
	w.tablesDone[g] = true
	var mk *ssa.MakeMap
	nStores := 0
	ok := true
	for _, f := range w.Funcs {
		allInstrs(f, func(in ssa.Instruction) {
			switch x := in.(type) {
			case *ssa.Store:
				if x.Addr == ssa.Value(g) {
					nStores++
					m, isMk := x.Val.(*ssa.MakeMap)
					if f.Name() != "init" || !isMk {
						ok = false
					}
					mk = m
				}
			case *ssa.MapUpdate:
				if u, isLoad := x.Map.(*ssa.UnOp); isLoad && u.X == ssa.Value(g) {
					ok = false // updated through the variable after initialisation
				}
			case *ssa.Call:
				if b, isB := x.Call.Value.(*ssa.Builtin); isB && b.Name() == "delete" {
					if u, isLoad := x.Call.Args[0].(*ssa.UnOp); isLoad && u.X == ssa.Value(g) {
						ok = false
					}
				}
			}
		})
	}
	if !ok || nStores != 1 || mk == nil {
		return nil
	}
	var out []tableEntry
	for _, rf := range *mk.Referrers() {
		mu, isMU := rf.(*ssa.MapUpdate)
		if !isMU {
			continue
		}
		k, isS := stringConst(mu.Key)
		if !isS {
			return nil
		}
		out = append(out, tableEntry{k, mu.Value})
	}
	w.tables[g] = out
	return out
}

// tableLookup: v is (an element of) a lookup in an effectively constant map table → the table and the key value.
func (w *World) tableLookup(v ssa.Value) ([]tableEntry, *ssa.Lookup) {
	if ex, ok := v.(*ssa.Extract); ok && ex.Index == 0 {
		v = ex.Tuple
	}
	lk, ok := v.(*ssa.Lookup)
	if !ok {
		return nil, nil
	}
	u, ok := lk.X.(*ssa.UnOp)
	if !ok {
		return nil, nil
	}
	g, ok := u.X.(*ssa.Global)
	if !ok {
		return nil, nil
	}
	t := w.constMapTable(g)
	if t == nil {
		return nil, nil
	}
	return t, lk
}

// funcOfValue: the function a function value denotes (top-level function, closure literal, bound method).
func funcOfValue(v ssa.Value) *ssa.Function {
	switch x := v.(type) {
	case *ssa.Function:
		return x
	case *ssa.MakeClosure:
		f, _ := x.Fn.(*ssa.Function)
		return f
	case *ssa.ChangeType:
		return funcOfValue(x.X)
	}
	return nil
}

// constGlobalInit: the value a package-level variable is initialised with, if the package initialiser stores it exactly
// once, nothing else stores to it or takes its address, and (for slices) no element is assigned through it; nil otherwise.
func (w *World) constGlobalInit(g *ssa.Global) ssa.Value {
	var val ssa.Value
	nStores := 0
	ok := true
	for _, f := range w.Funcs {
		allInstrs(f, func(in ssa.Instruction) {
			for _, op := range in.Operands(nil) {
				if op == nil || *op != ssa.Value(g) {
					continue
				}
				switch x := in.(type) {
				case *ssa.Store:
					if x.Addr == ssa.Value(g) && f.Name() == "init" {
						nStores++
						val = x.Val
					} else {
						ok = false
					}
				case *ssa.UnOp:
					// a load: no element may be assigned through it
					if x.Referrers() != nil {
						for _, rf := range *x.Referrers() {
							if ia, isIA := rf.(*ssa.IndexAddr); isIA && ia.Referrers() != nil {
								for _, r2 := range *ia.Referrers() {
									if st, isSt := r2.(*ssa.Store); isSt && st.Addr == ssa.Value(ia) {
										ok = false
									}
								}
							}
						}
					}
				case *ssa.DebugRef:
				default:
					ok = false // address escapes
				}
			}
		})
	}
	if !ok || nStores != 1 {
		return nil
	}
	return val
}
