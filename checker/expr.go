package main

// E7 — expression normal forms for the small pure functions whose template is
// the specification (SASL payload, handshake digest, back-off formula, address
// normalisation).

import (
	"go/types"
	"fmt"
	"go/token"
	"strings"

	"golang.org/x/tools/go/ssa"
)

// atom of a string concatenation
type atom struct {
	Const string
	IsC   bool
	Val   ssa.Value
	Dec   bool // the decimal rendering of the integer Val (fmt's %d of an int: what strconv.Itoa gives)
}

func (a atom) String(w *World) string {
	if a.IsC {
		return fmt.Sprintf("%q", a.Const)
	}
	return describe(w, a.Val)
}

// strAtoms flattens a string-typed value built with + (and single-assignment
// locals) into its sequence of atoms.
func strAtoms(v ssa.Value) []atom {
	v = origin(v)
	switch x := v.(type) {
	case *ssa.BinOp:
		if x.Op == token.ADD {
			return append(strAtoms(x.X), strAtoms(x.Y)...)
		}
	case *ssa.Const:
		if s, ok := stringConst(x); ok {
			return []atom{{Const: s, IsC: true}}
		}
	case *ssa.Convert:
		// string(x) of a string / named string
		if _, ok := stringConst(x); ok {
			s, _ := stringConst(x)
			return []atom{{Const: s, IsC: true}}
		}
	case *ssa.Call:
		// strings.Join([]string{...}, "") is not used in this code base; fmt.Sprintf with only %s
		if c := x.Common(); c.StaticCallee() != nil && c.StaticCallee().String() == "fmt.Sprintf" {
			if f, ok := stringConst(c.Args[0]); ok {
				// verbs %s (a string) and %d (an int, rendered as strconv.Itoa does); anything else is left opaque
				var lits []string
				var verbs []byte
				cur, okF := "", true
				for i := 0; i < len(f); i++ {
					if f[i] != '%' {
						cur += string(f[i])
						continue
					}
					if i+1 >= len(f) || (f[i+1] != 's' && f[i+1] != 'd') {
						okF = false
						break
					}
					lits, verbs, cur = append(lits, cur), append(verbs, f[i+1]), ""
					i++
				}
				lits = append(lits, cur)
				elems := varargElems(c.Args[1])
				if okF && len(verbs) == len(elems) {
					for i, vb := range verbs {
						e := elems[i]
						if mi, isMI := e.(*ssa.MakeInterface); isMI {
							e = mi.X
						}
						bt, isB := e.Type().Underlying().(*types.Basic)
						if vb == 's' && !(isB && bt.Info()&types.IsString != 0) {
							okF = false
						}
						if vb == 'd' && !(isB && bt.Kind() == types.Int) {
							okF = false
						}
					}
				}
				if okF && len(verbs) == len(elems) {
					var out []atom
					for i, p := range lits {
						if p != "" {
							out = append(out, atom{Const: p, IsC: true})
						}
						if i < len(elems) {
							if verbs[i] == 'd' {
								e := elems[i]
								if mi, isMI := e.(*ssa.MakeInterface); isMI {
									e = mi.X
								}
								out = append(out, atom{Val: e, Dec: true})
							} else {
								out = append(out, strAtoms(elems[i])...)
							}
						}
					}
					return out
				}
			}
		}
	}
	return []atom{{Val: v}}
}

// mergeConstAtoms joins adjacent constant atoms.
func mergeConstAtoms(as []atom) []atom {
	var out []atom
	for _, a := range as {
		if a.IsC && len(out) > 0 && out[len(out)-1].IsC {
			out[len(out)-1].Const += a.Const
			continue
		}
		if a.IsC && a.Const == "" {
			continue
		}
		out = append(out, a)
	}
	return out
}

func atomsString(w *World, as []atom) string {
	var s []string
	for _, a := range as {
		s = append(s, a.String(w))
	}
	return "[" + strings.Join(s, ", ") + "]"
}

// encodedBy: v is a string produced by an encoder of the standard library applied
// to a byte source. Recognised idioms:
//
//	string(dst) where enc.Encode(dst, src) and dst = make([]byte, enc.EncodedLen(len(x)))
//	enc.EncodeToString(src)
//	hex.EncodeToString(src)
//
// Returns the encoder name ("base64.StdEncoding", "hex") and the source value.
func encodedBy(w *World, fn *ssa.Function, v ssa.Value) (string, ssa.Value, string) {
	v = origin(v)
	if cv, ok := v.(*ssa.Convert); ok {
		// string(dst)
		if mk, ok := cv.X.(*ssa.MakeSlice); ok {
			var enc *ssa.Call
			n := 0
			for _, r := range *mk.Referrers() {
				if c, ok := r.(*ssa.Call); ok {
					k := w.callKey(c)
					if k == "encoding/base64.Encoding.Encode" && c.Call.Args[1] == ssa.Value(mk) {
						enc = c
						n++
					} else if k == "encoding/hex.Encode" && c.Call.Args[0] == ssa.Value(mk) {
						enc = c
						n++
					}
				}
			}
			if n != 1 {
				return "", nil, "the buffer is not filled by exactly one Encode call"
			}
			// the conversion must come after the encode
			if !reachable(after(enc), func(in ssa.Instruction) bool { return in == ssa.Instruction(cv) }, nil, nil) {
				return "", nil, "the buffer is converted before it is encoded"
			}
			if w.callKey(enc) == "encoding/hex.Encode" {
				return "hex", enc.Call.Args[1], ""
			}
			name := encodingName(enc.Call.Args[0])
			// size: EncodedLen(len(src string))
			return name, enc.Call.Args[2], ""
		}
	}
	if c, ok := v.(*ssa.Call); ok {
		switch w.callKey(c) {
		case "encoding/base64.Encoding.EncodeToString":
			return encodingName(c.Call.Args[0]), c.Call.Args[1], ""
		case "encoding/hex.EncodeToString":
			return "hex", c.Call.Args[0], ""
		}
	}
	return "", nil, "not a recognised encoding idiom: " + v.String()
}

func encodingName(v ssa.Value) string {
	if u, ok := v.(*ssa.UnOp); ok && u.Op == token.MUL {
		if g, ok := u.X.(*ssa.Global); ok {
			return g.Pkg.Pkg.Name() + "." + g.Name()
		}
	}
	return "?" + v.String()
}

// bytesOfString: v is []byte(s); returns s.
func bytesOfString(v ssa.Value) (ssa.Value, bool) {
	v = origin(v)
	if cv, ok := v.(*ssa.Convert); ok {
		return cv.X, true
	}
	return nil, false
}

// nfAt: normal form of a value inside the callee of call site `at`, with the callee's parameters bound to
// the arguments of that call (used when a helper has several call sites).
func (w *World) nfAt(v ssa.Value, at *ssa.Call, depth int) string {
	callee := at.Call.StaticCallee()
	saved := nfBind
	nb := map[*ssa.Parameter]ssa.Value{}
	for k, val := range saved {
		nb[k] = val
	}
	for i, p := range callee.Params {
		if i < len(at.Call.Args) {
			nb[p] = at.Call.Args[i]
		}
	}
	nfBind = nb
	defer func() { nfBind = saved }()
	return w.nf(v, depth)
}

var nfBind map[*ssa.Parameter]ssa.Value

// nfPath: when set, phis are resolved along this path and walked-through calls by what they returned on it.
var nfPath []ssa.Instruction

// nfOn: normal form of v as it is on the given path (must be called inside a visit callback).
func (w *World) nfOn(v ssa.Value, path []ssa.Instruction) string {
	saved := nfPath
	nfPath = path
	defer func() { nfPath = saved }()
	return w.nf(v, 0)
}

// nf: canonical string of a value's defining expression. Conversions and
// single-assignment locals are transparent; + and * on numbers are sorted;
// comparisons are reduced to le/eq with a polarity handled by the caller.
func (w *World) nf(v ssa.Value, depth int) string {
	if depth > 24 {
		return "…"
	}
	switch x := v.(type) {
	case *ssa.Const:
		if x.Value == nil {
			return "nil"
		}
		if s, ok := stringConst(x); ok {
			return fmt.Sprintf("%q", s)
		}
		return x.Value.ExactString()
	case *ssa.Parameter:
		if nfPath != nil && curPath != nil {
			if r := rvAny(x); r != ssa.Value(x) {
				return w.nf(r, depth+1)
			}
		}
		if b, ok := nfBind[x]; ok {
			saved := nfBind
			nfBind = nil // the argument lives in the caller
			defer func() { nfBind = saved }()
			return w.nf(b, depth+1)
		}
		if o := origin(x); o != ssa.Value(x) {
			return w.nf(o, depth+1)
		}
		return "param:" + x.Name()
	case *ssa.Convert:
		return w.nf(x.X, depth+1)
	case *ssa.ChangeType:
		return w.nf(x.X, depth+1)
	case *ssa.MakeInterface:
		return w.nf(x.X, depth+1)
	case *ssa.ChangeInterface:
		return w.nf(x.X, depth+1)
	case *ssa.UnOp:
		if x.Op == token.MUL {
			if g, ok := x.X.(*ssa.Global); ok {
				return "global:" + g.Name()
			}
			// a local variable kept in memory: assigned once (a captured parameter), or as this path last assigned it
			if sv := finalCellValue(x); sv != nil {
				return w.nf(sv, depth+1)
			}
			if nfPath != nil && curPath != nil {
				if sv, _ := cellLoadOnPath(x, len(nfPath)-1, nfPath); sv != nil {
					return w.nf(sv, depth+1)
				}
			}
			if fp := fieldPath(x); len(fp) > 0 {
				root := rootOf(x)
				// a local that is a one-time copy of a struct (name := elt.XMLName): read through the copy
				if al, ok := root.(*ssa.Alloc); ok && depth < 8 {
					var src *ssa.UnOp
					n := 0
					for _, rf := range *al.Referrers() {
						if st, ok := rf.(*ssa.Store); ok && st.Addr == ssa.Value(al) {
							n++
							if u, ok := st.Val.(*ssa.UnOp); ok && u.Op == token.MUL {
								src = u
							}
						}
					}
					if n == 1 && src != nil {
						if sfp := fieldPath(src); len(sfp) > 0 {
							return "field:" + w.nf(rootOf(src), depth+1) + "." + fieldNames(sfp) + "." + fieldNames(fp)
						}
					}
				}
				return "field:" + w.nf(root, depth+1) + "." + fieldNames(fp)
			}
			if ia, ok := x.X.(*ssa.IndexAddr); ok {
				return "index(" + w.nf(ia.X, depth+1) + "," + w.nf(ia.Index, depth+1) + ")"
			}
			return "load(" + w.nf(x.X, depth+1) + ")"
		}
		return x.Op.String() + "(" + w.nf(x.X, depth+1) + ")"
	case *ssa.BinOp:
		a, b := w.nf(x.X, depth+1), w.nf(x.Y, depth+1)
		switch x.Op {
		case token.ADD:
			if isStringType(x.Type()) {
				return "cat(" + a + "," + b + ")"
			}
			if a > b {
				a, b = b, a
			}
			return "add(" + a + "," + b + ")"
		case token.MUL:
			if a > b {
				a, b = b, a
			}
			return "mul(" + a + "," + b + ")"
		}
		return x.Op.String() + "(" + a + "," + b + ")"
	case *ssa.Call:
		if nfPath != nil && curPath != nil {
			if in, ok := ssa.Value(x).(ssa.Instruction); ok {
				if fr := curPath.frameOf(in); fr != nil {
					if r, _ := curPath.res(x, fr); r != ssa.Value(x) {
						return w.nf(r, depth+1)
					}
				}
			}
		}
		if callee := x.Call.StaticCallee(); isHelper(callee) {
			// a helper the reference tree does not have: its result is what it returns
			var rets []string
			allInstrs(callee, func(in ssa.Instruction) {
				if r, ok := in.(*ssa.Return); ok && len(r.Results) == 1 {
					rets = append(rets, w.nfAt(r.Results[0], x, depth+1))
				}
			})
			if len(rets) == 1 {
				return rets[0]
			}
			if len(rets) > 1 {
				sortStrings(rets)
				return "phi(" + strings.Join(rets, "|") + ")"
			}
		}
		var args []string
		for _, a := range x.Call.Args {
			args = append(args, w.nf(a, depth+1))
		}
		if x.Call.IsInvoke() {
			args = append([]string{w.nf(x.Call.Value, depth+1)}, args...)
		}
		key := w.callKey(x)
		// equivalent standard-library idioms
		switch key {
		case "strings.LastIndexByte", "strings.IndexByte":
			if len(x.Call.Args) == 2 {
				if k, ok := intConst(x.Call.Args[1]); ok {
					key = strings.TrimSuffix(key, "Byte")
					args[1] = fmt.Sprintf("%q", string(rune(k)))
				}
			}
		}
		return key + "(" + strings.Join(args, ",") + ")"
	case *ssa.Extract:
		if nfPath != nil && curPath != nil {
			if fr := curPath.frameOf(x); fr != nil {
				if r, _ := curPath.res(x, fr); r != ssa.Value(x) {
					return w.nf(r, depth+1)
				}
			}
		}
		return fmt.Sprintf("%s#%d", w.nf(x.Tuple, depth+1), x.Index)
	case *ssa.Phi:
		if op, a, b, ok := minMaxPhi(x); ok {
			// `if a < b { v = a }` written out: the smaller (larger) of the two, whichever path is taken
			sa, sb := w.nf(a, depth+1), w.nf(b, depth+1)
			if sa > sb {
				sa, sb = sb, sa
			}
			return op + "(" + sa + "," + sb + ")"
		}
		if nfPath != nil {
			if r := valueOnPath(x, nfPath); r != ssa.Value(x) {
				return w.nf(r, depth+1)
			}
		}
		var es []string
		for _, e := range x.Edges {
			es = append(es, w.nf(e, depth+1))
		}
		sortStrings(es)
		return "phi(" + strings.Join(es, "|") + ")"
	case *ssa.Slice:
		s := "slice(" + w.nf(x.X, depth+1)
		for _, b := range []ssa.Value{x.Low, x.High, x.Max} {
			if b == nil {
				s += ",_"
			} else {
				s += "," + w.nf(b, depth+1)
			}
		}
		return s + ")"
	case *ssa.FieldAddr:
		return "&field:" + w.nf(rootOf(x), depth+1) + "." + fieldNames(fieldPath(x))
	case *ssa.Field:
		return "field:" + w.nf(rootOf(x), depth+1) + "." + fieldNames(fieldPath(x))
	case *ssa.Alloc:
		return "alloc:" + x.Comment
	case *ssa.TypeAssert:
		return "assert(" + w.nf(x.X, depth+1) + "," + w.typeStr(x.AssertedType) + ")"
	case *ssa.Lookup:
		return "lookup(" + w.nf(x.X, depth+1) + "," + w.nf(x.Index, depth+1) + ")"
	case *ssa.IndexAddr:
		return "&index(" + w.nf(x.X, depth+1) + "," + w.nf(x.Index, depth+1) + ")"
	case *ssa.Index:
		return "index(" + w.nf(x.X, depth+1) + "," + w.nf(x.Index, depth+1) + ")"
	case *ssa.MakeClosure:
		return "closure(" + w.nf(x.Fn, depth+1) + ")"
	case *ssa.Builtin:
		return "builtin." + x.Name()
	case *ssa.FreeVar:
		return "free:" + x.Name()
	case *ssa.MakeSlice:
		return "makeslice"
	case *ssa.Global:
		return "&global:" + x.Name()
	case *ssa.Function:
		return "func:" + w.funcKey(x)
	}
	return fmt.Sprintf("?%T", v)
}

func isStringType(t interface{ String() string }) bool {
	s := t.String()
	return s == "string" || strings.HasSuffix(s, "StanzaType")
}

func sortStrings(s []string) {
	for i := 1; i < len(s); i++ {
		for j := i; j > 0 && s[j] < s[j-1]; j-- {
			s[j], s[j-1] = s[j-1], s[j]
		}
	}
}

// condNF: canonical form of a branch assertion (cond, truth): comparisons are
// reduced to "le(a,b)" / "eq(a,b)" with the truth value adjusted.
func (w *World) condNF(c ssa.Value, truth bool) string {
	if bo, ok := c.(*ssa.BinOp); ok {
		a, b := w.nf(bo.X, 0), w.nf(bo.Y, 0)
		switch bo.Op {
		case token.LEQ:
			return fmt.Sprintf("le(%s,%s)=%v", a, b, truth)
		case token.GTR:
			return fmt.Sprintf("le(%s,%s)=%v", a, b, !truth)
		case token.GEQ:
			return fmt.Sprintf("le(%s,%s)=%v", b, a, truth)
		case token.LSS:
			return fmt.Sprintf("le(%s,%s)=%v", b, a, !truth)
		case token.EQL, token.NEQ:
			if a > b {
				a, b = b, a
			}
			if bo.Op == token.NEQ {
				truth = !truth
			}
			return fmt.Sprintf("eq(%s,%s)=%v", a, b, truth)
		}
	}
	return fmt.Sprintf("%s=%v", w.nf(c, 0), truth)
}

// pathConds: the canonical assertions along a path, in order, without duplicates.
func (w *World) pathConds(path []ssa.Instruction) []string {
	var out []string
	seen := map[string]bool{}
	saved := nfPath
	nfPath = path
	defer func() { nfPath = saved }()
	pathEdges(path, func(b *ssa.BasicBlock, succ int) {
		if c, t, ok := edgeAssertion(b, succ); ok {
			s := w.condNF(c, t)
			if s == "true=true" || s == "false=false" {
				return // a constant the path selected (e.g. the value of a || b returned by a helper)
			}
			if !seen[s] {
				seen[s] = true
				out = append(out, s)
			}
		}
	})
	return out
}

// byteAtoms: the content of a []byte value as a sequence of atoms — []byte(string expression), or a buffer grown by
// appends of constant bytes and strings from an empty start (raw = append(raw, 0); raw = append(raw, user...)).
func byteAtoms(v ssa.Value) ([]atom, bool) {
	v = origin(v)
	if s, ok := bytesOfString(v); ok {
		return strAtoms(s), true
	}
	switch x := v.(type) {
	case *ssa.MakeSlice:
		if n, ok := intConst(x.Len); ok && n == 0 {
			return nil, true
		}
	case *ssa.Call:
		if b, ok := x.Call.Value.(*ssa.Builtin); ok && b.Name() == "append" && len(x.Call.Args) == 2 {
			head, ok := byteAtoms(x.Call.Args[0])
			if !ok {
				return nil, false
			}
			arg := x.Call.Args[1]
			if isStringType(arg.Type()) {
				return append(head, strAtoms(arg)...), true
			}
			if elems := sliceLitElems(arg); len(elems) > 0 {
				for _, e := range elems {
					k, isK := intConst(e)
					if !isK || k < 0 || k > 255 {
						return nil, false
					}
					head = append(head, atom{IsC: true, Const: string([]byte{byte(k)})})
				}
				return head, true
			}
			if tail, ok := byteAtoms(arg); ok {
				return append(head, tail...), true
			}
		}
	}
	return nil, false
}

// pathDecides: v is a comparison over values that cannot change along the path (no loads: parameters, constants, loop
// indices, lengths of parameters) and the path has already taken an edge asserting the same comparison → its value.
func (w *World) pathDecides(path []ssa.Instruction, v ssa.Value) (bool, bool) {
	bo, ok := v.(*ssa.BinOp)
	if !ok {
		return false, false
	}
	var pure func(x ssa.Value, d int) bool
	pure = func(x ssa.Value, d int) bool {
		if d > 6 {
			return false
		}
		switch y := x.(type) {
		case *ssa.Const, *ssa.Parameter:
			return true
		case *ssa.Phi:
			return true
		case *ssa.BinOp:
			return pure(y.X, d+1) && pure(y.Y, d+1)
		case *ssa.Convert:
			return pure(y.X, d+1)
		case *ssa.Call:
			if b, isB := y.Call.Value.(*ssa.Builtin); isB && b.Name() == "len" {
				return pure(y.Call.Args[0], d+1)
			}
		}
		return false
	}
	if !pure(bo.X, 0) || !pure(bo.Y, 0) {
		return false, false
	}
	saved := nfPath
	nfPath = path
	defer func() { nfPath = saved }()
	wantT, wantF := w.condNF(v, true), w.condNF(v, false)
	res, known := false, false
	pathEdges(path, func(b *ssa.BasicBlock, succ int) {
		c, truth, ok := edgeAssertion(b, succ)
		if !ok {
			return
		}
		if cb, isB := c.(*ssa.BinOp); !isB || !pure(cb.X, 0) || !pure(cb.Y, 0) {
			return
		}
		switch w.condNF(c, truth) {
		case wantT:
			res, known = true, true
		case wantF:
			res, known = false, true
		}
	})
	return res, known
}

// minMaxPhi: phi is the result of `v := y; if x < y { v = x }` (or one of its mirror images): math.Min / math.Max of
// the two values.
func minMaxPhi(phi *ssa.Phi) (string, ssa.Value, ssa.Value, bool) {
	if len(phi.Edges) != 2 {
		return "", nil, nil, false
	}
	b := phi.Block()
	if len(b.Preds) != 2 {
		return "", nil, nil, false
	}
	for i := 0; i < 2; i++ {
		then, head := b.Preds[i], b.Preds[1-i]
		// head ends in the comparison and branches to `then` (which only assigns) or straight to the join
		if len(then.Preds) != 1 || then.Preds[0] != head || len(then.Succs) != 1 {
			continue
		}
		iff, ok := head.Instrs[len(head.Instrs)-1].(*ssa.If)
		if !ok {
			continue
		}
		cmp, ok := iff.Cond.(*ssa.BinOp)
		if !ok {
			continue
		}
		// then-branch must be pure (no calls, no stores)
		pure := true
		for _, in := range then.Instrs {
			switch in.(type) {
			case *ssa.Call, *ssa.Store, *ssa.Go, *ssa.Defer, *ssa.Send, *ssa.MapUpdate:
				pure = false
			}
		}
		if !pure {
			continue
		}
		thenIsTrue := head.Succs[0] == then
		if !thenIsTrue && head.Succs[1] != then {
			continue
		}
		vt, vf := phi.Edges[i], phi.Edges[1-i]
		x, y := cmp.X, cmp.Y
		strip := func(v ssa.Value) ssa.Value {
			for {
				if c, ok := v.(*ssa.Convert); ok {
					v = c.X
					continue
				}
				return v
			}
		}
		same := func(p, q ssa.Value) bool { return p == q || strip(p) == strip(q) }
		less := false // does the comparison (on the edge into `then`) say x < y ?
		switch cmp.Op {
		case token.LSS, token.LEQ:
			less = thenIsTrue
		case token.GTR, token.GEQ:
			less = !thenIsTrue
		default:
			continue
		}
		// on the then-edge: x<y (less) or x>y (!less); the result is vt there and vf otherwise
		switch {
		case same(vt, x) && same(vf, y):
			if less {
				return "math.Min", x, y, true
			}
			return "math.Max", x, y, true
		case same(vt, y) && same(vf, x):
			if less {
				return "math.Max", x, y, true
			}
			return "math.Min", x, y, true
		}
	}
	return "", nil, nil, false
}
