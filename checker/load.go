package main

// E1 — loading. Every run type-checks /repo's current working tree afresh and
// builds SSA for the two module packages. Nothing in /repo is executed.

import (
	"fmt"
	"go/ast"
	"go/token"
	"go/types"
	"os"
	"path/filepath"
	"sort"
	"strings"

	"golang.org/x/tools/go/packages"
	"golang.org/x/tools/go/ssa"
	"golang.org/x/tools/go/ssa/ssautil"
)

const (
	pkgXMPP   = "gosrc.io/xmpp"
	pkgStanza = "gosrc.io/xmpp/stanza"
)

// World is the resolved program the rules query.
type World struct {
	tables     map[*ssa.Global][]tableEntry
	tablesDone map[*ssa.Global]bool
	Repo       string
	Fset       *token.FileSet
	Pkgs       map[string]*packages.Package // short name -> package ("xmpp", "stanza")
	SPkgs      map[string]*ssa.Package
	Prog       *ssa.Program
	Funcs      []*ssa.Function          // every module function, method and closure
	ByKey      map[string]*ssa.Function // symbolic key -> function
	Files      []string
	nfuncs     int
	// functions whose file imports "testing" (test support shipped as non-test file)
	TestSupport map[*ssa.Function]bool
	// Normalised: what normalize.go rewrote (in the overlay) before loading
	Normalised []string
}

// hardFail: the checker could not do its job (exit 2, never "property holds").
type hardFail struct{ msg string }

func die(format string, a ...interface{}) {
	panic(hardFail{fmt.Sprintf(format, a...)})
}

type loadOpts struct {
	repo    string
	tests   bool
	env     []string          // extra env (GOARCH=..., GOOS=...)
	overlay map[string][]byte // path -> contents (variants; positive controls)
}

func load(o loadOpts) *World {
	env := append(os.Environ(), "GOWORK=off", "GOFLAGS=-mod=mod", "GOPROXY=off", "GOSUMDB=off", "GOTOOLCHAIN=local")
	env = append(env, o.env...)
	// loops over literal tables of functions and go/defer trampolines are analysed in normalised form (normalize.go,
	// normalize2.go); in memory only. If the normalised program does not type-check (an import used only by a removed
	// literal, say), the program is loaded as written and the note says so.
	var normNotes []string
	orig := o.overlay
	if abs, err := filepath.Abs(o.repo); err == nil {
		o.overlay, normNotes = normalizeRepo(abs, o.overlay)
		if d := os.Getenv("XNORMDUMP"); d != "" {
			for k, v := range o.overlay {
				os.WriteFile(filepath.Join(d, strings.ReplaceAll(strings.TrimPrefix(k, abs+"/"), "/", "_")), v, 0o644)
			}
		}
	}
	loadWith := func(ov map[string][]byte) ([]*packages.Package, string) {
		cfg := &packages.Config{
			Mode:    packages.LoadAllSyntax,
			Dir:     o.repo,
			Env:     env,
			Tests:   o.tests,
			Overlay: ov,
		}
		pkgs, err := packages.Load(cfg, "./...")
		if err != nil {
			return nil, fmt.Sprintf("load: %v", err)
		}
		if len(pkgs) == 0 {
			return nil, "load: zero packages"
		}
		for _, p := range pkgs {
			for _, e := range p.Errors {
				return nil, fmt.Sprintf("load: %s: %v", p.PkgPath, e)
			}
			if p.IllTyped {
				return nil, fmt.Sprintf("load: %s is ill-typed", p.PkgPath)
			}
		}
		return pkgs, ""
	}
	pkgs, msg := loadWith(o.overlay)
	if msg != "" && len(normNotes) > 0 {
		first := msg
		if pkgs, msg = loadWith(orig); msg == "" {
			normNotes = []string{"normalisation abandoned, program analysed as written: the normalised form does not type-check (" + first + ")"}
		}
	}
	if msg != "" {
		die("%s", msg)
	}
	w := &World{Normalised: normNotes, Repo: o.repo, Pkgs: map[string]*packages.Package{}, SPkgs: map[string]*ssa.Package{}, ByKey: map[string]*ssa.Function{}, TestSupport: map[*ssa.Function]bool{}}
	var roots []*packages.Package
	for _, p := range pkgs {
		for _, e := range p.Errors {
			die("load: %s: %v", p.PkgPath, e)
		}
		if p.IllTyped {
			die("load: %s is ill-typed", p.PkgPath)
		}
		// with Tests=true, the package variants "p [p.test]" carry the
		// in-package test files; prefer those so helpers are inventoried.
		switch p.PkgPath {
		case pkgXMPP, pkgStanza:
			short := "xmpp"
			if p.PkgPath == pkgStanza {
				short = "stanza"
			}
			if old, ok := w.Pkgs[short]; ok && len(old.Syntax) >= len(p.Syntax) {
				continue
			}
			w.Pkgs[short] = p
		}
		roots = append(roots, p)
	}
	// one consistent type universe: stanza is the package xmpp imports
	if x := w.Pkgs["xmpp"]; x != nil && x.Imports[pkgStanza] != nil {
		w.Pkgs["stanza"] = x.Imports[pkgStanza]
	}
	for _, n := range []string{"xmpp", "stanza"} {
		if w.Pkgs[n] == nil {
			die("load: package %s missing", n)
		}
	}
	w.Fset = w.Pkgs["xmpp"].Fset
	prog, _ := ssautil.AllPackages(roots, ssa.InstantiateGenerics)
	prog.Build()
	w.Prog = prog
	for n, p := range w.Pkgs {
		sp := prog.Package(p.Types)
		if sp == nil {
			die("load: no SSA for %s", n)
		}
		w.SPkgs[n] = sp
		for _, f := range p.Syntax {
			fn := w.Fset.Position(f.Pos()).Filename
			rel, _ := filepath.Rel(o.repo, fn)
			w.Files = append(w.Files, rel)
		}
	}
	sort.Strings(w.Files)
	w.assertNoUnsafe()
	w.indexFuncs()
	return w
}

// assertNoUnsafe: part of the trusted base is that the module has no unsafe,
// cgo or assembly; asserted on every run.
func (w *World) assertNoUnsafe() {
	for n, p := range w.Pkgs {
		for _, imp := range p.Types.Imports() {
			if imp.Path() == "unsafe" || imp.Path() == "C" {
				die("package %s imports %s: outside the trusted base", n, imp.Path())
			}
		}
		for _, f := range p.OtherFiles {
			if strings.HasSuffix(f, ".s") || strings.HasSuffix(f, ".c") {
				die("package %s has non-Go source %s", n, f)
			}
		}
	}
}

func (w *World) shortPkg(p *types.Package) string {
	if p == nil {
		return ""
	}
	switch p.Path() {
	case pkgXMPP:
		return "xmpp"
	case pkgStanza:
		return "stanza"
	}
	return p.Path()
}

// funcKey gives the stable symbolic name of a function: never a position.
func (w *World) funcKey(f *ssa.Function) string {
	if f.Parent() != nil {
		// closures: parent key + index among the parent's AnonFuncs
		for i, a := range f.Parent().AnonFuncs {
			if a == f {
				return fmt.Sprintf("%s$%d", w.funcKey(f.Parent()), i+1)
			}
		}
		return w.funcKey(f.Parent()) + "$?"
	}
	pkg := ""
	if f.Pkg != nil {
		pkg = w.shortPkg(f.Pkg.Pkg)
	} else if f.Object() != nil && f.Object().Pkg() != nil {
		pkg = w.shortPkg(f.Object().Pkg())
	}
	if recv := f.Signature.Recv(); recv != nil {
		t := recv.Type()
		if p, ok := t.(*types.Pointer); ok {
			if n, ok := p.Elem().(*types.Named); ok {
				return fmt.Sprintf("%s.(*%s).%s", pkg, n.Obj().Name(), f.Name())
			}
		}
		if n, ok := t.(*types.Named); ok {
			return fmt.Sprintf("%s.(%s).%s", pkg, n.Obj().Name(), f.Name())
		}
	}
	return pkg + "." + f.Name()
}

func (w *World) indexFuncs() {
	seen := map[*ssa.Function]bool{}
	var add func(f *ssa.Function)
	add = func(f *ssa.Function) {
		if f == nil || seen[f] {
			return
		}
		seen[f] = true
		if f.Blocks == nil && f.Synthetic == "" {
			// external / no body
		}
		w.Funcs = append(w.Funcs, f)
		for _, a := range f.AnonFuncs {
			add(a)
		}
	}
	for _, sp := range w.SPkgs {
		for _, m := range sp.Members {
			switch m := m.(type) {
			case *ssa.Function:
				add(m)
			case *ssa.Type:
				for _, t := range []types.Type{m.Type(), types.NewPointer(m.Type())} {
					ms := w.Prog.MethodSets.MethodSet(t)
					for i := 0; i < ms.Len(); i++ {
						fn := w.Prog.MethodValue(ms.At(i))
						if fn == nil || fn.Synthetic != "" {
							continue // wrappers/promoted: the declared method is indexed at its own type
						}
						if fn.Pkg != sp {
							continue
						}
						add(fn)
					}
				}
			}
		}
	}
	sort.Slice(w.Funcs, func(i, j int) bool { return w.funcKey(w.Funcs[i]) < w.funcKey(w.Funcs[j]) })
	for _, f := range w.Funcs {
		k := w.funcKey(f)
		w.ByKey[k] = f
		if f.Blocks != nil {
			w.nfuncs++
		}
	}
	// test-support files: non-test files importing "testing"
	support := map[string]bool{}
	for _, p := range w.Pkgs {
		for _, f := range p.Syntax {
			name := w.Fset.Position(f.Pos()).Filename
			if strings.HasSuffix(name, "_test.go") {
				support[name] = true
				continue
			}
			for _, imp := range f.Imports {
				if imp.Path.Value == `"testing"` {
					support[name] = true
				}
			}
		}
	}
	for _, f := range w.Funcs {
		if f.Pos().IsValid() && support[w.Fset.Position(f.Pos()).Filename] {
			w.TestSupport[f] = true
		} else if f.Parent() != nil && w.TestSupport[f.Parent()] {
			w.TestSupport[f] = true
		}
	}
}

// Func resolves an anchor; an unresolved anchor is a hard failure.
func (w *World) Func(key string) *ssa.Function {
	f := w.ByKey[key]
	if f == nil || f.Blocks == nil {
		die("unresolved anchor: function %s", key)
	}
	return f
}

func (w *World) FuncOpt(key string) *ssa.Function {
	f := w.ByKey[key]
	if f == nil || f.Blocks == nil {
		return nil
	}
	return f
}

// LibFuncs: module functions with bodies, excluding test support.
func (w *World) LibFuncs() []*ssa.Function {
	var out []*ssa.Function
	for _, f := range w.Funcs {
		if f.Blocks != nil && !w.TestSupport[f] {
			out = append(out, f)
		}
	}
	return out
}

// Named resolves "xmpp.Client" / "stanza.Message" to its named type.
func (w *World) Named(key string) *types.Named {
	i := strings.Index(key, ".")
	p := w.Pkgs[key[:i]]
	if p == nil {
		die("unresolved anchor: type %s", key)
	}
	obj := p.Types.Scope().Lookup(key[i+1:])
	tn, ok := obj.(*types.TypeName)
	if !ok {
		die("unresolved anchor: type %s", key)
	}
	n, ok := tn.Type().(*types.Named)
	if !ok {
		// alias
		if n2, ok2 := types.Unalias(tn.Type()).(*types.Named); ok2 {
			return n2
		}
		die("unresolved anchor: type %s is not named", key)
	}
	return n
}

// Field resolves "xmpp.XMPPTransport.isSecure" to the field object.
func (w *World) Field(key string) *types.Var {
	i := strings.LastIndex(key, ".")
	n := w.Named(key[:i])
	st, ok := n.Underlying().(*types.Struct)
	if !ok {
		die("unresolved anchor: %s is not a struct", key[:i])
	}
	for j := 0; j < st.NumFields(); j++ {
		if st.Field(j).Name() == key[i+1:] {
			return st.Field(j)
		}
	}
	die("unresolved anchor: field %s", key)
	return nil
}

// Method resolves a (possibly interface) method object: "xmpp.Transport.IsSecure".
func (w *World) Method(key string) *types.Func {
	i := strings.LastIndex(key, ".")
	n := w.Named(key[:i])
	obj, _, _ := types.LookupFieldOrMethod(n, true, n.Obj().Pkg(), key[i+1:])
	f, ok := obj.(*types.Func)
	if !ok {
		die("unresolved anchor: method %s", key)
	}
	return f
}

// Const resolves a package-level constant's string value.
func (w *World) ConstString(key string) string {
	i := strings.Index(key, ".")
	p := w.Pkgs[key[:i]]
	if p == nil {
		die("unresolved anchor: const %s", key)
	}
	c, ok := p.Types.Scope().Lookup(key[i+1:]).(*types.Const)
	if !ok {
		die("unresolved anchor: const %s", key)
	}
	return constString(c.Val())
}

func (w *World) pos(p token.Pos) string {
	if !p.IsValid() {
		return "-"
	}
	ps := w.Fset.Position(p)
	rel, err := filepath.Rel(w.Repo, ps.Filename)
	if err != nil {
		rel = ps.Filename
	}
	return fmt.Sprintf("%s:%d", rel, ps.Line)
}

func (w *World) ipos(i ssa.Instruction) string {
	p := i.Pos()
	if !p.IsValid() {
		// fall back to operands' positions
		for _, op := range i.Operands(nil) {
			if *op != nil && (*op).Pos().IsValid() {
				p = (*op).Pos()
				break
			}
		}
	}
	if !p.IsValid() && i.Parent() != nil {
		return w.pos(i.Parent().Pos()) + "(fn)"
	}
	return w.pos(p)
}

// declOf returns the syntax of a module function (for AST-level rules).
func (w *World) declOf(f *ssa.Function) *ast.FuncDecl {
	if d, ok := f.Syntax().(*ast.FuncDecl); ok {
		return d
	}
	return nil
}
