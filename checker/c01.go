package main

// C01 — stanza encode/decode round trip preserves every field; text never injects XML.

import (
	"fmt"
	"go/types"
	"os"
	"regexp"
	"sort"
	"strconv"
	"strings"

	"golang.org/x/tools/go/ssa"
)

func init() {
	register(&propDef{
		id: "C01", level: "other", run: runC01,
		trusted: []string{"encoding/xml reads and writes tag-driven struct types symmetrically (same tags on both sides) and escapes CharData, attribute values and tag-driven string fields", "reflect.New(T).Interface() in the registry yields *T"},
		explain: "Decides that the encode and the decode *tables* agree and that the unescaped output sinks are a closed, justified set — necessary conditions of the round trip: a registry row must name exactly the element its type's XMLName tag writes (R1), no two types may share a key (R2), an IQ row's type must be an IQPayload (R3); for every type with a hand-written decoder the attribute names written (struct tags, or the xml.Attr literals of a hand-written MarshalXML) equal the attribute names read, field by field (R4), every child element written has a decode case that stores into the same field and every decode case names the element its target type writes (R5); a serialised interface-typed field is assigned by a hand-written decoder of its parent (R6); strings reach the output unescaped only through the frozen list of raw sinks (R7); a MarshalXML that omits the whole element does so only when every serialised field is empty (R8), and what it writes depends on its fields only through plain emptiness tests (R9). Not decided: equality of values, byte-identical re-serialisation, encoding/xml's own behaviour on tag-driven types (trusted), mixed content order in Node.",
	})
}

// scope: types whose codec tables matter for the property (stanzas, SM/SASL/handshake elements, registered extensions, and what they contain)
func c01Scope(w *World, rows []regRow) map[string]types.Type {
	out := map[string]types.Type{}
	var add func(t types.Type, depth int)
	add = func(t types.Type, depth int) {
		if depth > 6 {
			return
		}
		for {
			switch x := t.(type) {
			case *types.Pointer:
				t = x.Elem()
				continue
			case *types.Slice:
				t = x.Elem()
				continue
			}
			break
		}
		n, ok := t.(*types.Named)
		if !ok || n.Obj().Pkg() == nil || n.Obj().Pkg().Path() != pkgStanza {
			return
		}
		k := w.typeStr(n)
		if _, seen := out[k]; seen {
			return
		}
		st, ok := n.Underlying().(*types.Struct)
		if !ok {
			return
		}
		out[k] = n
		for i := 0; i < st.NumFields(); i++ {
			add(st.Field(i).Type(), depth+1)
		}
	}
	for _, k := range []string{"stanza.Message", "stanza.Presence", "stanza.IQ", "stanza.SMEnable", "stanza.SMEnabled", "stanza.SMRequest", "stanza.SMAnswer", "stanza.SMResume", "stanza.SMResumed", "stanza.SMFailed", "stanza.SASLAuth", "stanza.Handshake", "stanza.Node", "stanza.Err"} {
		add(w.Named(k), 0)
	}
	for _, rw := range rows {
		add(rw.T, 0)
	}
	// concrete types decoded into interface fields by hand-written decoders
	for _, fn := range w.LibFuncs() {
		if fn.Pkg != nil && fn.Pkg.Pkg.Path() == pkgStanza && fn.Name() == "UnmarshalXML" {
			if _, in := out[strings.TrimPrefix(w.typeStr(fn.Params[0].Type()), "*")]; in {
				allInstrs(fn, func(in ssa.Instruction) {
					if al, ok := in.(*ssa.Alloc); ok {
						add(al.Type(), 0)
					}
				})
			}
		}
	}
	return out
}

func runC01(w *World, r *Report, tier string) {
	r.Rule("R1", "registry ↔ tag: for every MapExtension(kind, xml.Name{S, L}, T{}) the XMLName tag of T is exactly \"S L\"")
	r.Rule("R2", "registry key uniqueness: no two rows share (kind, S, L) with different types")
	r.Rule("R3", "registry conformance: for kind PKTIQ, *T implements IQPayload")
	r.Rule("R4", "attribute tables: for every in-scope type with a hand-written UnmarshalXML the attributes written (tags, or xml.Attr literals of a hand-written MarshalXML) are exactly the attributes read, into the same fields")
	r.Rule("R5", "child tables: every element-valued field written has a decode case storing into that field; every decode case `T{}; DecodeElement(&x)` is selected by the local name in T's XMLName tag")
	r.Rule("R6", "interface-typed serialised fields are assigned by a hand-written UnmarshalXML of their parent type")
	r.Rule("R7", "raw sinks: string fields reach the output unescaped only through the frozen table (innerxml/comment tags; element or attribute names built from a field in a hand-written MarshalXML)")
	r.Rule("R8", "a hand-written MarshalXML returns nil without emitting a token only under conditions that read every serialised field")
	r.Rule("R10", "independent emission: in a hand-written MarshalXML the tokens written for a field remain reachable when every edge asserting the non-emptiness of a different field is deleted — no field is written only when another one is set")
	r.Rule("R9", "emission guards: in a hand-written MarshalXML every branch condition that depends on a field of the value is a plain emptiness test of that field (== \"\", == 0, len == 0, IsZero, is-set flag) — a guard on a derived value drops some non-empty values")

	c01Decoders(w, r)
	rows, problems := w.registryRows()
	for i, p := range problems {
		r.Undecided("R1", fmt.Sprintf("registry#unreadable-row#%d", i+1), p, p)
	}
	iqPayload := w.Named("stanza.IQPayload").Underlying().(*types.Interface)
	// ---- R1 / R3
	for _, rw := range rows {
		cons := fmt.Sprintf("row(%s %s %s)→%s", rw.Kind, rw.Space, rw.Local, w.typeStr(rw.T))
		sp, lo, has := xmlNameTag(rw.T)
		r.Check(has && sp == rw.Space && lo == rw.Local, "R1", cons, rw.Pos, fmt.Sprintf("the type is registered for <%s xmlns='%s'> but its XMLName tag writes <%s xmlns='%s'>: what it serialises is decoded as something else (or not at all), and what the registry hands it fails encoding/xml's name check", rw.Local, rw.Space, lo, sp), "tag = registered name")
		if rw.Kind == "PKTIQ" {
			r.Check(types.Implements(types.NewPointer(rw.T), iqPayload), "R3", cons, rw.Pos, "the registered IQ type is not an IQPayload: GetIQExtension's assertion fails and the payload silently becomes a generic Node", "*T implements IQPayload")
		}
	}
	r.Floor("R1", 30)
	// ---- R2
	byKey := map[string][]regRow{}
	for _, rw := range rows {
		k := rw.Kind + " " + rw.Space + " " + rw.Local
		byKey[k] = append(byKey[k], rw)
	}
	var keysS []string
	for k := range byKey {
		keysS = append(keysS, k)
	}
	sort.Strings(keysS)
	for _, k := range keysS {
		rs := byKey[k]
		tset := map[string]bool{}
		for _, rw := range rs {
			tset[w.typeStr(rw.T)] = true
		}
		if len(tset) > 1 {
			var ts []string
			for t := range tset {
				ts = append(ts, t)
			}
			sort.Strings(ts)
			r.Fail("R2", "key("+k+")", rs[0].Pos, "two types are registered under one key ("+strings.Join(ts, ", ")+"): the later registration replaces the earlier one, so the earlier type can never be decoded — it comes back as the other type")
		}
	}
	r.Ok("R2", "registry#keys", fmt.Sprintf("%d rows, %d distinct keys", len(rows), len(byKey)))

	scope := c01Scope(w, rows)
	r.Tables["scope_types"] = len(scope)
	// ---- R4 / R5 per type with hand-written decoder
	marshalOf := map[string]*ssa.Function{}
	for _, fn := range w.LibFuncs() {
		if fn.Pkg != nil && fn.Pkg.Pkg.Path() == pkgStanza && fn.Name() == "MarshalXML" {
			marshalOf[strings.TrimPrefix(w.typeStr(fn.Params[0].Type()), "*")] = fn
		}
	}
	unmarshalOf := map[string]*ssa.Function{}
	for _, fn := range w.LibFuncs() {
		if fn.Pkg != nil && fn.Pkg.Pkg.Path() == pkgStanza && fn.Name() == "UnmarshalXML" {
			unmarshalOf[strings.TrimPrefix(w.typeStr(fn.Params[0].Type()), "*")] = fn
		}
	}
	var tnames []string
	for k := range unmarshalOf {
		tnames = append(tnames, k)
	}
	sort.Strings(tnames)
	nTypes := 0
	for _, tn := range tnames {
		if _, in := scope[tn]; !in {
			continue
		}
		fn := unmarshalOf[tn]
		T := scope[tn]
		nTypes++
		if tn == "stanza.Node" {
			c01Node(w, r, fn, marshalOf[tn])
			continue
		}
		dt := w.decodeTablesOf(fn)
		et := w.encodeTablesOf(T)
		encAttrs := map[string]string{}
		for k, v := range et.Attrs {
			encAttrs[k] = v
		}
		src := "struct tags"
		if mf := marshalOf[tn]; mf != nil {
			src = "MarshalXML literals"
			encAttrs = map[string]string{}
			for name, val := range w.marshalAttrs(mf) {
				// value nf mentions the field: field:alloc:x.Code → Code
				fld := ""
				if i := strings.LastIndex(val, "field:"); i >= 0 {
					rest := val[i:]
					if j := strings.Index(rest, "."); j >= 0 {
						fld = strings.TrimRight(rest[j+1:], ")#0123456789")
						if k := strings.IndexAny(fld, ",)"); k >= 0 {
							fld = fld[:k]
						}
					}
				}
				encAttrs[name] = fld
			}
		}
		var names []string
		seen := map[string]bool{}
		for k := range encAttrs {
			if !seen[k] {
				names = append(names, k)
				seen[k] = true
			}
		}
		for k := range dt.Attrs {
			if !seen[k] {
				names = append(names, k)
				seen[k] = true
			}
		}
		sort.Strings(names)
		for _, a := range names {
			cons := fmt.Sprintf("%s#attr:%s", tn, a)
			ef, inEnc := encAttrs[a]
			dfs, inDec := dt.Attrs[a]
			switch {
			case inEnc && !inDec:
				r.Fail("R4", cons, w.pos(fn.Pos()), fmt.Sprintf("attribute %q is written (%s, field %s) but the hand-written UnmarshalXML never reads it: it is lost on a round trip", a, src, ef))
			case !inEnc && inDec:
				r.Fail("R4", cons, w.pos(fn.Pos()), fmt.Sprintf("attribute %q is read into %v but never written", a, dfs))
			default:
				same := false
				for _, df := range dfs {
					if df == ef || strings.HasSuffix(df, "."+ef) || strings.HasSuffix(ef, "."+df) {
						same = true
					}
				}
				r.Check(same, "R4", cons, w.pos(fn.Pos()), fmt.Sprintf("attribute %q is written from field %s but read into %v", a, ef, dfs), fmt.Sprintf("written from and read into %s", ef))
			}
		}
		// R5 children
		if tn == "stanza.Err" {
			c01Err(w, r, fn, marshalOf[tn])
			continue
		}
		if mf := marshalOf[tn]; mf != nil {
			continue // History: attributes only
		}
		var cnames []string
		for k := range et.Children {
			cnames = append(cnames, k)
		}
		sort.Strings(cnames)
		for _, cn := range cnames {
			path := et.Children[cn]
			cons := fmt.Sprintf("%s#child:%s", tn, cn)
			if sp := et.Special[path]; sp == "interface" || sp == "interface-slice" {
				continue // R6
			}
			dcs, ok := dt.Children[cn]
			if !ok {
				r.Fail("R5", cons, w.pos(fn.Pos()), fmt.Sprintf("child element <%s> (field %s) is written but the hand-written UnmarshalXML has no case for it: it is skipped or decoded into a generic node, and the field is empty after a round trip", cn, path))
				continue
			}
			okField := false
			for _, d := range dcs {
				if d == "field:"+path || strings.HasSuffix(d, "→"+path) {
					okField = true
				}
			}
			r.Check(okField, "R5", cons, w.pos(fn.Pos()), fmt.Sprintf("child element <%s> is written from field %s but decoded into %v", cn, path, dcs), "decoded into "+path)
		}
		// decode cases with typed targets: constant equals the target's XMLName local
		var dnames []string
		for k := range dt.Children {
			dnames = append(dnames, k)
		}
		sort.Strings(dnames)
		for _, dn := range dnames {
			for _, d := range dt.Children[dn] {
				if !strings.HasPrefix(d, "type:") {
					continue
				}
				tname := strings.SplitN(strings.TrimPrefix(d, "type:"), "→", 2)[0]
				if !strings.HasPrefix(tname, "stanza.") {
					continue
				}
				cons := fmt.Sprintf("%s#case:%s→%s", tn, dn, tname)
				nt := w.Pkgs["stanza"].Types.Scope().Lookup(strings.TrimPrefix(tname, "stanza."))
				if nt == nil {
					continue
				}
				_, lo, has := xmlNameTag(nt.Type())
				if !has {
					r.Fail("R5", cons, w.pos(fn.Pos()), fmt.Sprintf("<%s> is decoded into %s, which has no XMLName: it is written under its Go type name, so what is written is not what is read", dn, tname))
					continue
				}
				r.Check(lo == dn, "R5", cons, w.pos(fn.Pos()), fmt.Sprintf("<%s> is decoded into %s, whose XMLName tag writes <%s>: the case can never decode what the type serialises (encoding/xml: 'expected element type <%s>')", dn, tname, lo, lo), "case name = target's element name")
			}
		}
	}
	if nTypes < 9 {
		r.Undecided("R4", "stanza#hand-written-decoders", "-", fmt.Sprintf("%d in-scope types with a hand-written decoder, 9 confirmed by hand", nTypes))
	}
	r.Floor("R4", 20)
	r.Floor("R5", 40)

	// ---- R6 interface fields
	var sn []string
	for k := range scope {
		sn = append(sn, k)
	}
	sort.Strings(sn)
	for _, tn := range sn {
		T := scope[tn]
		et := w.encodeTablesOf(T)
		var paths []string
		for p, fl := range et.Special {
			if fl == "interface" || fl == "interface-slice" {
				paths = append(paths, p)
			}
		}
		sort.Strings(paths)
		for _, p := range paths {
			cons := fmt.Sprintf("%s.%s", tn, p)
			fn := unmarshalOf[tn]
			if fn == nil {
				r.Fail("R6", cons, w.pos(T.(*types.Named).Obj().Pos()), "an interface-typed field is serialised, but the type has no hand-written UnmarshalXML: encoding/xml cannot decode into an interface, the field is always nil after parsing")
				continue
			}
			// assigned somewhere in the decoder
			assigned := false
			allInstrsH(fn, func(in ssa.Instruction) {
				if st, ok := in.(*ssa.Store); ok {
					if sp, ok := w.recvPathIn(fn, st.Addr); ok && sp == p {
						assigned = true
					}
				}
			})
			r.Check(assigned, "R6", cons, w.pos(fn.Pos()), "the hand-written decoder never assigns this interface-typed field", "assigned by UnmarshalXML")
			// a decoder that tells the implementations apart by element name has a case for every one of them: what
			// can be written into the field can be read back
			if st, ok := T.Underlying().(*types.Struct); ok && assigned && !strings.Contains(p, ".") {
				var ft types.Type
				for i := 0; i < st.NumFields(); i++ {
					if st.Field(i).Name() == p {
						ft = st.Field(i).Type()
					}
				}
				if sl, isSl := ft.(*types.Slice); isSl {
					ft = sl.Elem()
				}
				nt, _ := ft.(*types.Named)
				if nt == nil {
					continue
				}
				it, isI := nt.Underlying().(*types.Interface)
				if !isI || it.NumMethods() == 0 {
					continue
				}
				dt := w.decodeTablesOf(fn)
				typed := map[string]string{} // implementation → case name
				for dn, ds := range dt.Children {
					toField := false
					for _, d := range ds {
						if d == "field:"+p {
							toField = true
						}
					}
					for _, d := range ds {
						if !strings.HasPrefix(d, "type:") {
							continue
						}
						parts := strings.SplitN(strings.TrimPrefix(d, "type:"), "→", 2)
						if len(parts) == 2 && (parts[1] == p || parts[1] == p+"[]" || (parts[1] == "" && toField)) {
							typed[parts[0]] = dn
						}
					}
				}
				if os.Getenv("XDEBUG") == "5" {
					fmt.Fprintf(os.Stderr, "R6 %s.%s children=%v\n", tn, p, dt.Children)
				}
				if len(typed) == 0 {
					// resolved through the extension registry or the packet dispatcher, not by named cases — or through
					// some private table, about which nothing is known
					viaRegistry := false
					allInstrsH(fn, func(in ssa.Instruction) {
						if c := asCall(in); c != nil {
							k := w.callKey(c)
							if strings.HasPrefix(k, "stanza.registry.Get") || k == "stanza.decodeClient" || k == "stanza.NextPacket" || strings.HasPrefix(k, "stanza.decode") {
								viaRegistry = true
							}
						}
					})
					if !viaRegistry {
						r.Undecided("R6", cons+"#every-implementation", w.pos(fn.Pos()), "the decoder assigns this interface-typed field neither by named cases nor through the extension registry: it cannot be established that every implementation that can be written can be read back")
					}
					continue
				}
				// the implementations in question: those declared next to the ones the decoder does handle (Go's
				// structural typing makes unrelated types implement small interfaces by accident — every packet has a
				// Name() — so the candidates are the siblings, file by file, of the handled types)
				handledFiles := map[string]bool{}
				for tnm := range typed {
					if o := w.Pkgs["stanza"].Types.Scope().Lookup(strings.TrimPrefix(tnm, "stanza.")); o != nil {
						handledFiles[w.Fset.Position(o.Pos()).Filename] = true
					}
				}
				var missing []string
				nImpl := 0
				for _, X := range w.implementers(it) {
					xn, ok := X.(*types.Named)
					if pt, isP := X.(*types.Pointer); isP {
						xn, ok = pt.Elem().(*types.Named)
					}
					if !ok || xn.Obj().Pkg() == nil || xn.Obj().Pkg().Path() != pkgStanza {
						continue
					}
					if _, isStruct := xn.Underlying().(*types.Struct); !isStruct {
						continue
					}
					_, lo, has := xmlNameTag(xn)
					if !has {
						continue // (types without an element name of their own are R5's business)
					}
					if !handledFiles[w.Fset.Position(xn.Obj().Pos()).Filename] {
						continue
					}
					nImpl++
					key := "stanza." + xn.Obj().Name()
					if _, ok := typed[key]; !ok {
						missing = append(missing, fmt.Sprintf("%s (<%s>)", key, lo))
					}
				}
				sort.Strings(missing)
				r.Check(len(missing) == 0, "R6", cons+"#every-implementation", w.pos(fn.Pos()), fmt.Sprintf("the field can hold %d element types but the decoder has no case for %v: such a value is serialised and then fails to parse (or is dropped)", nImpl, missing), fmt.Sprintf("%d implementations, one decode case each", nImpl))
			}
		}
	}

	// ---- R7 raw sinks
	rawTable := map[string]string{
		"stanza.SASLAuth.Value":    "only producer is authPlain's base64 text (C14.O4): alphabet cannot inject",
		"stanza.Handshake.Value":   "hex digest (C16.O1); the library itself writes the handshake with Sprintf, not through this type",
		"stanza.HTMLBody.InnerXML": "documented raw XHTML-IM body: the application supplies markup on purpose",
	}
	seenRaw := map[string]bool{}
	for _, nt := range w.moduleNamedTypes() {
		if nt.Obj().Pkg().Path() != pkgStanza {
			continue
		}
		for _, ti := range structTags(nt) {
			if !(ti.InnerXML || ti.Comment) {
				continue
			}
			k := w.typeStr(nt) + "." + ti.Field.Name()
			seenRaw[k] = true
			why, ok := rawTable[k]
			r.Check(ok, "R7", "tag:"+k, w.pos(ti.Field.Pos()), "a field is written to the output verbatim (innerxml/comment tag) and is not in the justified list of raw sinks: text in it can change the element structure", why)
		}
	}
	// names built from string fields in hand-written MarshalXML
	var mnames []string
	for k := range marshalOf {
		mnames = append(mnames, k)
	}
	sort.Strings(mnames)
	for _, tn := range mnames {
		mf := marshalOf[tn]
		allInstrs(mf, func(in ssa.Instruction) {
			al, ok := in.(*ssa.Alloc)
			if !ok || !strings.HasSuffix(al.Type().String(), "encoding/xml.Name") {
				return
			}
			fields, _ := complitFields(al)
			for _, part := range []string{"Local", "Space"} {
				v := fields[part]
				if v == nil {
					continue
				}
				if _, isC := stringConst(v); isC {
					continue
				}
				nfv := w.nf(v, 0)
				cons := fmt.Sprintf("name:%s.MarshalXML#%s=%s", tn, part, nfv)
				r.Fail("R7", cons, w.ipos(al), "an element/attribute name is built from a string field ("+nfv+"): names are written verbatim, so text in that field can inject markup (Err{Reason: \"a/><b\"} serialises as <a/><b …>)")
			}
		})
	}
	r.Floor("R7", 3)

	// ---- R8 skip guards / R9 emission guards
	for _, tn := range mnames {
		mf := marshalOf[tn]
		T, in := scope[tn]
		if !in {
			continue
		}
		c01Guards(w, r, tn, mf)
		c01IndependentEmission(w, r, tn, mf)
		isEmit := w.isCallTo("encoding/xml.Encoder.EncodeToken", "encoding/xml.Encoder.EncodeElement", "encoding/xml.Encoder.Encode")
		var serialised []string
		et := w.encodeTablesOf(T)
		for _, p := range et.Attrs {
			serialised = append(serialised, p)
		}
		for _, p := range et.Children {
			serialised = append(serialised, p)
		}
		for p := range et.Special {
			serialised = append(serialised, p)
		}
		sort.Strings(serialised)
		n := 0
		walkPaths(entryLoc(mf), nil, nil, 20000, func(path []ssa.Instruction, end pathEnd) {
			ret, ok := path[len(path)-1].(*ssa.Return)
			if !ok || !isNilConst(rres(path, ret)[0]) || countOn(path, isEmit) > 0 {
				return
			}
			n++
			conds := strings.Join(w.pathConds(path), " ∧ ")
			var missing []string
			for _, f := range serialised {
				if !strings.Contains(conds, "."+f) {
					missing = append(missing, f)
				}
			}
			cons := fmt.Sprintf("%s.MarshalXML#omit-element", tn)
			if len(missing) > 0 {
				r.Fail("R8", cons, w.ipos(ret), fmt.Sprintf("the whole element is omitted under a condition (%s) that does not look at %v: a value with those fields set is silently dropped (Message{Error: Err{Type: \"cancel\", Reason: \"item-not-found\"}} serialises without its error)", conds, missing))
			} else {
				r.Ok("R8", cons, "omitted only when every serialised field is empty: "+conds)
			}
		})
	}
}

// c01Guards — R9.
func c01Guards(w *World, r *Report, tn string, mf *ssa.Function) {
	n := 0
	for _, b := range mf.Blocks {
		if len(b.Instrs) == 0 {
			continue
		}
		iff, ok := b.Instrs[len(b.Instrs)-1].(*ssa.If)
		if !ok {
			continue
		}
		c, _ := stripNot(iff.Cond)
		if x, _, isN := nilCompare(c); isN {
			if call, _ := callResult(x); call != nil {
				continue // error test of an encoder call
			}
		}
		cn := w.condNF(c, true)
		if strings.Contains(cn, "?") {
			r.Undecided("R9", fmt.Sprintf("%s.MarshalXML#guard:%s", tn, cn), w.ipos(iff), "a branch condition the engine cannot normalise: cannot tell whether it depends on a field")
			continue
		}
		if !strings.Contains(cn, "field:") {
			continue
		}
		n++
		form := strings.TrimSuffix(strings.TrimSuffix(cn, "=true"), "=false")
		ok = false
		fieldRe := `field:[A-Za-z0-9_:]+(\.[A-Za-z0-9_]+)+`
		for _, pat := range []string{
			`^eq\("",` + fieldRe + `\)$`,
			`^eq\(0,` + fieldRe + `\)$`,
			`^le\(builtin\.len\(` + fieldRe + `\),0\)$`,
			`^le\(0,builtin\.len\(` + fieldRe + `\)\)$`,
			`^eq\(0,builtin\.len\(` + fieldRe + `\)\)$`,
			`^eq\(nil,` + fieldRe + `\)$`,
			`^time\.Time\.IsZero\(` + fieldRe + `\)$`,
			`^stanza\.NullableInt\.Get\(` + fieldRe + `\)#1$`,
		} {
			if regexpMatch(pat, form) {
				ok = true
			}
		}
		cons := fmt.Sprintf("%s.MarshalXML#guard:%s", tn, form)
		r.Check(ok, "R9", cons, w.ipos(iff), "what is written depends on a condition over a derived value of a field ("+form+"), not on the field being empty: some non-empty values are silently dropped (e.g. whitespace-only text) and do not survive a round trip", "plain emptiness test")
	}
	if n == 0 {
		r.Ok("R9", tn+".MarshalXML#guards", "no field-dependent branch")
	}
}

// Node: attributes are copied generically (all but xmlns) and written back from the same field.
func c01Node(w *World, r *Report, un, ma *ssa.Function) {
	okU := false
	for _, lp := range findRangeLoops(un) {
		if lp.slice != nil && strings.HasSuffix(fieldNames(fieldPath(lp.slice)), "Attr") {
			// body appends the ranged attr to n.Attrs unless Local == "xmlns"
			appended := false
			allInstrs(un, func(in ssa.Instruction) {
				if st, ok := in.(*ssa.Store); ok && rootOf(st.Addr) == ssa.Value(un.Params[0]) && fieldNames(fieldPath(st.Addr)) == "Attrs" {
					if c, ok := st.Val.(*ssa.Call); ok && w.callKey(c) == "builtin.append" {
						appended = true
					}
				}
			})
			okU = appended
		}
	}
	r.Check(okU, "R4", "stanza.Node#attrs:decode", w.pos(un.Pos()), "Node.UnmarshalXML does not copy the element's attributes into Attrs", "copies every attribute except xmlns")
	okM := false
	if ma != nil {
		allInstrs(ma, func(in ssa.Instruction) {
			if st, ok := in.(*ssa.Store); ok {
				if fieldNames(fieldPath(st.Addr)) == "Attr" && strings.HasSuffix(w.nf(st.Val, 0), ".Attrs") {
					okM = true
				}
			}
		})
	}
	r.Check(okM, "R4", "stanza.Node#attrs:encode", w.pos(un.Pos()), "Node.MarshalXML does not write Attrs as the element's attributes", "start.Attr = n.Attrs")
	if ma != nil {
		// name, children and text are all emitted
		emits := map[string]bool{}
		allInstrs(ma, func(in ssa.Instruction) {
			c, ok := in.(*ssa.Call)
			if !ok {
				return
			}
			switch w.callKey(c) {
			case "encoding/xml.Encoder.EncodeElement":
				if strings.HasSuffix(w.nf(c.Call.Args[1], 0), ".Nodes") {
					emits["Nodes"] = true
				}
			case "encoding/xml.Encoder.EncodeToken":
				if strings.Contains(w.nf(c.Call.Args[1], 0), ".Content") {
					emits["Content"] = true
				}
			}
		})
		allInstrs(ma, func(in ssa.Instruction) {
			if st, ok := in.(*ssa.Store); ok && fieldNames(fieldPath(st.Addr)) == "Name" && strings.HasSuffix(w.nf(st.Val, 0), ".XMLName") {
				emits["XMLName"] = true
			}
		})
		r.Check(emits["Nodes"] && emits["Content"] && emits["XMLName"], "R5", "stanza.Node#encode", w.pos(ma.Pos()), fmt.Sprintf("Node.MarshalXML does not write name, child nodes and text (%v)", emits), "writes XMLName, Nodes and Content (as CharData)")
		// content goes out as CharData (escaped)
		okCD := false
		allInstrs(ma, func(in ssa.Instruction) {
			if c, ok := in.(*ssa.Call); ok && w.callKey(c) == "encoding/xml.Encoder.EncodeToken" {
				if mi, ok := c.Call.Args[1].(*ssa.MakeInterface); ok && strings.HasSuffix(mi.X.Type().String(), "xml.CharData") && strings.Contains(w.nf(mi.X, 0), ".Content") {
					okCD = true
				}
			}
		})
		r.Check(okCD, "R7", "stanza.Node#content-escaped", w.pos(ma.Pos()), "Node's text is not written as xml.CharData (which escapes it)", "Content written as xml.CharData")
	}
}

// Err: the child mapping is by xml.Name literals, not a switch.
func c01Err(w *World, r *Report, un, ma *ssa.Function) {
	// decode: text/gone in the stanzas namespace → Text; other stanzas/pubsub#errors children → Reason = local name
	nf := func(v ssa.Value) string { return w.nf(v, 0) }
	var textStores, reasonStores int
	var textVal, reasonVal string
	allInstrs(un, func(in ssa.Instruction) {
		st, ok := in.(*ssa.Store)
		if !ok || rootOf(st.Addr) != ssa.Value(un.Params[0]) {
			return
		}
		switch fieldNames(fieldPath(st.Addr)) {
		case "Text":
			textStores++
			textVal = nf(st.Val)
		case "Reason":
			reasonStores++
			reasonVal = nf(st.Val)
		}
	})
	r.Check(textStores >= 1 && strings.HasSuffix(textVal, ".Content"), "R5", "stanza.Err#child:text", w.pos(un.Pos()), "the error text is not decoded from the <text/> child's content: "+textVal, "Text = content of <text/>")
	r.Check(reasonStores >= 1 && strings.Contains(reasonVal, "XMLName.Local"), "R5", "stanza.Err#child:reason", w.pos(un.Pos()), "the error condition is not decoded from the condition element's name: "+reasonVal, "Reason = local name of the condition element")
	// the two literals compared for Text
	lits := map[string]bool{}
	allInstrs(un, func(in ssa.Instruction) {
		al, ok := in.(*ssa.Alloc)
		if !ok || !strings.HasSuffix(al.Type().String(), "encoding/xml.Name") {
			return
		}
		fields, _ := complitFields(al)
		sp, _ := stringConst(fields["Space"])
		lo, _ := stringConst(fields["Local"])
		if lo != "" {
			lits[sp+" "+lo] = true
		}
	})
	for _, g := range w.xmlNameGlobalsUsed(un) {
		lits[g[0]+" "+g[1]] = true
	}
	r.Check(lits["urn:ietf:params:xml:ns:xmpp-stanzas text"], "R5", "stanza.Err#text-name", w.pos(un.Pos()), "the decoder does not look for <text xmlns='urn:ietf:params:xml:ns:xmpp-stanzas'/>", "compares with {stanzas, text}")
	if ma == nil {
		r.Fail("R5", "stanza.Err#encode", w.pos(un.Pos()), "Err has a hand-written decoder but no hand-written encoder")
		return
	}
	// encode: Reason as element name in the stanzas namespace, Text as <text> with CharData
	var encNames []string
	okText := false
	// (the tokens may be written by a helper the encoder calls for each child: its parameters stand for every
	// caller's arguments)
	allInstrsH(ma, func(in ssa.Instruction) {
		al, ok := in.(*ssa.Alloc)
		if ok && strings.HasSuffix(al.Type().String(), "encoding/xml.Name") {
			fields, _ := complitFields(al)
			sp, _ := stringConst(origin(fields["Space"]))
			// (a name built in a helper from its parameter: one name per caller)
			for _, lv := range originsAll(fields["Local"]) {
				encNames = append(encNames, sp+" "+nf(lv))
			}
		}
		if c, ok := in.(*ssa.Call); ok && w.callKey(c) == "encoding/xml.Encoder.EncodeToken" {
			if mi, ok := c.Call.Args[1].(*ssa.MakeInterface); ok && strings.HasSuffix(mi.X.Type().String(), "xml.CharData") {
				if strings.HasSuffix(nf(mi.X), ".Text") {
					okText = true
				}
				v := mi.X
				for k := 0; k < 3; k++ {
					switch y := v.(type) {
					case *ssa.Convert:
						v = y.X
						continue
					case *ssa.ChangeType:
						v = y.X
						continue
					}
					break
				}
				for _, o := range originsAll(v) {
					if strings.HasSuffix(nf(o), ".Text") {
						okText = true
					}
				}
			}
		}
	})
	for _, g := range w.xmlNameGlobalsUsed(ma) {
		encNames = append(encNames, g[0]+" "+strconv.Quote(g[1]))
	}
	sort.Strings(encNames)
	hasReason, hasText := false, false
	for _, n := range encNames {
		if strings.HasPrefix(n, "urn:ietf:params:xml:ns:xmpp-stanzas ") && strings.HasSuffix(n, ".Reason") {
			hasReason = true
		}
		if n == `urn:ietf:params:xml:ns:xmpp-stanzas "text"` {
			hasText = true
		}
	}
	r.Check(hasReason && hasText && okText, "R5", "stanza.Err#encode", w.pos(ma.Pos()), fmt.Sprintf("the encoder does not write the condition as an element in the stanzas namespace and the text as <text> character data (%v, text as CharData: %v)", encNames, okText), "condition element + <text>CharData</text> in the stanzas namespace")
}

func regexpMatch(pat, s string) bool {
	ok, _ := regexp.MatchString(pat, s)
	return ok
}

// xmlNameGlobalsUsed: the (Space, Local) of every package-level xml.Name variable that fn reads, provided the variable is
// initialised with constants in the package initialiser and never stored to anywhere else (an effectively constant name).
func (w *World) xmlNameGlobalsUsed(fn *ssa.Function) [][2]string {
	var out [][2]string
	seen := map[*ssa.Global]bool{}
	allInstrs(fn, func(in ssa.Instruction) {
		for _, op := range in.Operands(nil) {
			if op == nil || *op == nil {
				continue
			}
			g, ok := (*op).(*ssa.Global)
			if !ok || seen[g] || !strings.HasSuffix(g.Type().String(), "encoding/xml.Name") {
				continue
			}
			seen[g] = true
			vals := map[string]string{}
			constant := true
			for _, f := range w.Funcs {
				allInstrs(f, func(x ssa.Instruction) {
					st, ok := x.(*ssa.Store)
					if !ok || rootOf(st.Addr) != ssa.Value(g) {
						return
					}
					s, isS := stringConst(st.Val)
					if f.Name() != "init" || !isS {
						constant = false
						return
					}
					vals[fieldNames(fieldPath(st.Addr))] = s
				})
			}
			if constant && vals["Local"] != "" {
				out = append(out, [2]string{vals["Space"], vals["Local"]})
			}
		}
	})
	return out
}

// recvFieldsOf: the top-level receiver fields the value v is computed from (through literals, conversions, locals).
func recvFieldsOf(v ssa.Value, recv ssa.Value, out map[string]bool, seen map[ssa.Value]bool, depth int) {
	if v == nil || seen[v] || depth > 12 {
		return
	}
	seen[v] = true
	if fp := fieldPath(v); len(fp) > 0 && rootOf(v) == recv {
		out[fp[0].Name()] = true
		return
	}
	switch x := v.(type) {
	case *ssa.Alloc:
		for _, rf := range *x.Referrers() {
			switch st := rf.(type) {
			case *ssa.Store:
				if st.Addr == ssa.Value(x) {
					recvFieldsOf(st.Val, recv, out, seen, depth+1)
				}
			case *ssa.FieldAddr, *ssa.IndexAddr:
				for _, rf2 := range *st.(ssa.Value).Referrers() {
					if s2, ok := rf2.(*ssa.Store); ok && s2.Addr == st.(ssa.Value) {
						recvFieldsOf(s2.Val, recv, out, seen, depth+1)
					}
					// nested literal: &outer.Name then fields of it
					if fa2, ok := rf2.(*ssa.FieldAddr); ok {
						for _, rf3 := range *fa2.Referrers() {
							if s3, ok := rf3.(*ssa.Store); ok && s3.Addr == ssa.Value(fa2) {
								recvFieldsOf(s3.Val, recv, out, seen, depth+1)
							}
						}
					}
				}
			}
		}
	case ssa.Instruction:
		for _, op := range x.Operands(nil) {
			if op != nil && *op != nil {
				recvFieldsOf(*op, recv, out, seen, depth+1)
			}
		}
	}
}

// c01IndependentEmission (R10): what a hand-written MarshalXML writes for one field must not depend on another field
// being non-empty: with every edge that asserts the non-emptiness of a different receiver field deleted, the emission
// must still be reachable.
func c01IndependentEmission(w *World, r *Report, tn string, mf *ssa.Function) {
	recv := ssa.Value(mf.Params[0])
	// a value receiver is spilled to a local: treat that local as the receiver
	for _, in := range mf.Blocks[0].Instrs {
		if st, ok := in.(*ssa.Store); ok && st.Val == recv {
			if al, ok := st.Addr.(*ssa.Alloc); ok {
				recv = al
			}
		}
	}
	// edges asserting that receiver field G is non-empty
	nonEmpty := map[string]EdgeSet{}
	fieldOfForm := func(form string) string {
		for _, pat := range []string{`^eq\("",field:[A-Za-z0-9_:]+\.([A-Za-z0-9_]+)`, `^eq\(0,field:[A-Za-z0-9_:]+\.([A-Za-z0-9_]+)`, `^eq\(nil,field:[A-Za-z0-9_:]+\.([A-Za-z0-9_]+)`, `^eq\(0,builtin\.len\(field:[A-Za-z0-9_:]+\.([A-Za-z0-9_]+)`, `^le\(builtin\.len\(field:[A-Za-z0-9_:]+\.([A-Za-z0-9_]+)`} {
			if m := regexp.MustCompile(pat).FindStringSubmatch(form); m != nil {
				return m[1]
			}
		}
		return ""
	}
	for _, b := range mf.Blocks {
		for si := range b.Succs {
			c, truth, isIf := edgeAssertion(b, si)
			if !isIf {
				continue
			}
			cn := w.condNF(c, truth)
			if !strings.HasSuffix(cn, "=false") {
				continue // only edges on which "is empty" is false, i.e. the field is non-empty
			}
			g := fieldOfForm(strings.TrimSuffix(cn, "=false"))
			if g == "" {
				continue
			}
			if nonEmpty[g] == nil {
				nonEmpty[g] = EdgeSet{}
			}
			nonEmpty[g][Edge{b, si}] = true
		}
	}
	if len(nonEmpty) < 2 {
		return // at most one guarded field: nothing can be entangled
	}
	n := 0
	allInstrs(mf, func(in ssa.Instruction) {
		c, ok := in.(*ssa.Call)
		if !ok {
			return
		}
		k := w.callKey(c)
		if k != "encoding/xml.Encoder.EncodeToken" && k != "encoding/xml.Encoder.EncodeElement" && k != "encoding/xml.Encoder.Encode" {
			return
		}
		fs := map[string]bool{}
		recvFieldsOf(c.Call.Args[1], recv, fs, map[ssa.Value]bool{}, 0)
		if len(fs) == 0 {
			return
		}
		var names []string
		for f := range fs {
			names = append(names, f)
		}
		sort.Strings(names)
		cut := EdgeSet{}
		var others []string
		for g, es := range nonEmpty {
			if !fs[g] {
				cut = cut.union(es)
				others = append(others, g)
			}
		}
		sort.Strings(others)
		n++
		cons := fmt.Sprintf("%s.MarshalXML#emit:%s", tn, strings.Join(names, "+"))
		ok2 := reachable(entryLoc(mf), func(x ssa.Instruction) bool { return x == in }, nil, cut)
		r.Check(ok2, "R10", cons, w.ipos(in), fmt.Sprintf("%s is written only when another field (one of %s) is non-empty: a value with %s set and those empty loses %s on a round trip", strings.Join(names, "+"), strings.Join(others, ", "), strings.Join(names, "+"), strings.Join(names, "+")), "reachable without any other field being non-empty")
	})
}
