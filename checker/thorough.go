package main

// Thorough tier: (a) the rule set is re-run on other build configurations of
// the same source (GOARCH=386, GOOS=windows, in-package tests loaded) and must
// give the same verdicts; (b) checking the checker — every seeded variant of
// this property (a small source edit that breaks the property, applied in
// memory through the go/packages overlay to the *current* /repo sources) must
// make the rule set fire and name the expected rule. Variants are analysed,
// never executed.

import (
	"encoding/json"
	"fmt"
	"os"
	"os/exec"
	"path/filepath"
	"sort"
	"strings"
	"sync"
)

type Variant struct {
	ID        string   `json:"id"`
	Property  string   `json:"property"`
	File      string   `json:"file"` // relative to repo
	Search    string   `json:"search"`
	Replace   string   `json:"replace"`
	Edits     []VEdit  `json:"edits,omitempty"` // additional edits (two cooperating sites)
	Expect    []string `json:"expect_rules"`    // at least one of these rules must fire
	Note      string   `json:"note"`
	Origin    string   `json:"origin,omitempty"` // "design" | "seeded/<id>" (sub-agent)
	TestsPass bool     `json:"tests_pass_when_authored"`
	Benign    bool     `json:"benign,omitempty"` // behaviour-preserving rewrite: the rules must stay silent
}

type VEdit struct {
	File    string `json:"file"`
	Search  string `json:"search"`
	Replace string `json:"replace"`
}

func readVariant(path string) Variant {
	b, err := os.ReadFile(path)
	if err != nil {
		die("variant: %v", err)
	}
	var v Variant
	if err := json.Unmarshal(b, &v); err != nil {
		die("variant %s: %v", path, err)
	}
	return v
}

// exit codes of a variant run: 0 fired as expected (or silent for benign),
// 1 missed (or false alarm for benign), 3 stale (anchor text gone), 2 checker error.
func runVariant(p *propDef, repo, verif, path string, known []KnownFinding) int {
	v := readVariant(path)
	overlay := map[string][]byte{}
	edits := append([]VEdit{{v.File, v.Search, v.Replace}}, v.Edits...)
	for _, e := range edits {
		abs := filepath.Join(repo, e.File)
		src, ok := overlay[abs]
		if !ok {
			b, err := os.ReadFile(abs)
			if err != nil {
				fmt.Printf("STALE %s: %v\n", v.ID, err)
				return 3
			}
			src = b
		}
		if strings.Count(string(src), e.Search) != 1 {
			fmt.Printf("STALE %s: search text occurs %d times in %s\n", v.ID, strings.Count(string(src), e.Search), e.File)
			return 3
		}
		overlay[abs] = []byte(strings.Replace(string(src), e.Search, e.Replace, 1))
	}
	w := load(loadOpts{repo: repo, overlay: overlay})
	r := newReport(p.id, p.level)
	setInlinePolicy(w)
	p.run(w, r, "quick")
	// apply floors + known findings without writing anything
	code := r.finish(finishOpts{verifDir: verif, known: known, noWrite: true})
	fired := map[string]bool{}
	for _, ob := range r.Obls {
		if ob.Status == "violated" || ob.Status == "undecided" {
			fired[ob.Rule] = true
		}
	}
	var names []string
	for k := range fired {
		names = append(names, k)
	}
	sort.Strings(names)
	if v.Benign {
		if code == 0 {
			fmt.Printf("SILENT-AS-EXPECTED %s\n", v.ID)
			return 0
		}
		fmt.Printf("FALSE-ALARM %s rules=%v\n", v.ID, names)
		return 1
	}
	if code == 0 {
		fmt.Printf("MISSED %s: no rule fired\n", v.ID)
		return 1
	}
	if len(v.Expect) > 0 {
		hit := false
		for _, e := range v.Expect {
			if fired[e] {
				hit = true
			}
		}
		if !hit {
			fmt.Printf("MISSED %s: fired %v but none of the expected %v\n", v.ID, names, v.Expect)
			return 1
		}
	}
	fmt.Printf("FIRED %s rules=%v\n", v.ID, names)
	return 0
}

func thorough(p *propDef, repo, verif string, known []KnownFinding) (int, map[string]interface{}) {
	info := map[string]interface{}{}
	var failures []string

	// (a) other configurations
	type cfgT struct {
		name  string
		env   []string
		tests bool
	}
	var cfgRes []map[string]interface{}
	base := ""
	for _, c := range []cfgT{{"default", nil, false}, {"GOARCH=386", []string{"GOARCH=386"}, false}, {"GOOS=windows", []string{"GOOS=windows"}, false}, {"tests-loaded", nil, true}} {
		w := load(loadOpts{repo: repo, env: c.env, tests: c.tests})
		r := newReport(p.id, p.level)
		setInlinePolicy(w)
		p.run(w, r, "quick")
		var sig []string
		for _, ob := range r.Obls {
			sig = append(sig, ob.Rule+"@"+ob.Construct+"="+ob.Status)
		}
		sort.Strings(sig)
		s := strings.Join(sig, "\n")
		same := true
		if c.name == "default" {
			base = s
		} else if s != base && !c.tests {
			same = false
			failures = append(failures, "verdicts differ under "+c.name)
		} else if c.tests {
			// with tests loaded, who-writes inventories may legitimately see more
			// sites; what must not happen is a discharged obligation of the
			// default configuration turning violated.
			bm := map[string]bool{}
			for _, l := range strings.Split(base, "\n") {
				bm[l] = true
			}
			for _, l := range sig {
				if (strings.HasSuffix(l, "=violated") || strings.HasSuffix(l, "=undecided")) && !bm[l] {
					same = false
					failures = append(failures, "with tests loaded: "+l)
				}
			}
		}
		cfgRes = append(cfgRes, map[string]interface{}{"config": c.name, "files": len(w.Files), "functions": w.nfuncs, "obligations": len(r.Obls), "same_verdicts": same})
	}
	info["configurations"] = cfgRes

	// (b) seeded variants, one process each
	files, _ := filepath.Glob(filepath.Join(verif, "variants", p.id, "*.json"))
	sort.Strings(files)
	type res struct {
		file string
		code int
		out  string
	}
	results := make([]res, len(files))
	sem := make(chan struct{}, 8)
	var wg sync.WaitGroup
	for i, f := range files {
		wg.Add(1)
		go func(i int, f string) {
			defer wg.Done()
			sem <- struct{}{}
			defer func() { <-sem }()
			cmd := exec.Command(os.Args[0], "-prop", p.id, "-repo", repo, "-verif", verif, "-variant", f)
			out, err := cmd.CombinedOutput()
			code := 0
			if err != nil {
				if ee, ok := err.(*exec.ExitError); ok {
					code = ee.ExitCode()
				} else {
					code = 2
				}
			}
			results[i] = res{f, code, lastLine(string(out))}
		}(i, f)
	}
	wg.Wait()
	var vres []map[string]interface{}
	nf, ns, nb := 0, 0, 0
	for _, r := range results {
		status := "fired"
		switch r.code {
		case 0:
			if strings.HasPrefix(r.out, "SILENT") {
				status = "silent-as-expected"
				nb++
			} else {
				nf++
			}
		case 3:
			status = "stale"
			ns++
		case 1:
			status = "missed"
			failures = append(failures, filepath.Base(r.file)+": "+r.out)
		default:
			status = "error"
			failures = append(failures, filepath.Base(r.file)+": "+r.out)
		}
		vres = append(vres, map[string]interface{}{"variant": filepath.Base(r.file), "status": status, "report": r.out})
	}
	// (c) whole-patch inputs written by independent agents: seeded faults of this property must fire,
	// behaviour-preserving refactorings (of any property's anchors) must leave this property silent.
	pres, pfail := patchInputs(p, repo, verif)
	info["patch_inputs"] = pres
	failures = append(failures, pfail...)
	info["variants"] = vres
	info["variants_fired"] = nf
	info["variants_stale"] = ns
	info["benign_silent"] = nb
	if failures == nil {
		failures = []string{}
	}
	info["failures"] = failures
	if len(failures) > 0 {
		return 1, info
	}
	return 0, info
}

// patchInputs applies each seeded/<P>-*/patch.diff and each benign/*/refactor*.diff to a scratch copy of the
// repository sources (outside /repo and /verif, removed afterwards) and runs this property's rules on the copy.
func patchInputs(p *propDef, repo, verif string) ([]map[string]interface{}, []string) {
	type job struct {
		patch  string
		expect string // fire | silent
		id     string
	}
	var jobs []job
	seeds, _ := filepath.Glob(filepath.Join(verif, "seeded", p.id+"-*", "patch.diff"))
	for _, s := range seeds {
		expect := "fire"
		if b, err := os.ReadFile(filepath.Join(filepath.Dir(s), "meta.json")); err == nil {
			var m struct {
				Expect string `json:"expect_verdict"`
			}
			if json.Unmarshal(b, &m) == nil && m.Expect != "" {
				expect = m.Expect
			}
		}
		jobs = append(jobs, job{s, expect, "seeded/" + filepath.Base(filepath.Dir(s))})
	}
	// refactorings on which this property's rules are known to raise a false alarm (stated limits, DESIGN.md 7.3)
	limits := map[string]bool{}
	if b, err := os.ReadFile(filepath.Join(verif, "benign", "KNOWN_LIMITS.json")); err == nil {
		var kl struct {
			Limits map[string]struct {
				Properties []string `json:"properties"`
			} `json:"limits"`
		}
		if json.Unmarshal(b, &kl) == nil {
			for id, l := range kl.Limits {
				for _, pr := range l.Properties {
					if pr == p.id {
						limits[id] = true
					}
				}
			}
		}
	}
	ben, _ := filepath.Glob(filepath.Join(verif, "benign", "*", "*.diff"))
	sort.Strings(ben)
	for _, b := range ben {
		id := "benign/" + filepath.Base(filepath.Dir(b)) + "/" + strings.TrimSuffix(filepath.Base(b), ".diff")
		expect := "silent"
		if limits[id] {
			expect = "known-limit"
		}
		jobs = append(jobs, job{b, expect, id})
	}
	out := make([]map[string]interface{}, len(jobs))
	var mu sync.Mutex
	var failures []string
	sem := make(chan struct{}, 8)
	var wg sync.WaitGroup
	for i, j := range jobs {
		wg.Add(1)
		go func(i int, j job) {
			defer wg.Done()
			sem <- struct{}{}
			defer func() { <-sem }()
			status, report := runPatch(p, repo, verif, j.patch, j.expect)
			out[i] = map[string]interface{}{"input": j.id, "expect": j.expect, "status": status, "report": report}
			if status == "missed" || status == "false-alarm" || status == "error" {
				mu.Lock()
				failures = append(failures, j.id+": "+status+" "+report)
				mu.Unlock()
			}
		}(i, j)
	}
	wg.Wait()
	sort.Strings(failures)
	return out, failures
}

func runPatch(p *propDef, repo, verif, patch, expect string) (string, string) {
	tmp, err := os.MkdirTemp("", "xcheck-patch-")
	if err != nil {
		return "error", err.Error()
	}
	defer os.RemoveAll(tmp)
	cp := exec.Command("rsync", "-a", "--exclude", ".git", repo+"/", tmp+"/src/")
	if out, err := cp.CombinedOutput(); err != nil {
		return "error", "copy: " + string(out)
	}
	ap := exec.Command("patch", "-p1", "-s", "--no-backup-if-mismatch", "-i", patch)
	ap.Dir = filepath.Join(tmp, "src")
	if out, err := ap.CombinedOutput(); err != nil {
		return "stale", "patch no longer applies: " + lastNonEmpty(string(out))
	}
	os.MkdirAll(filepath.Join(tmp, "verif"), 0o755)
	if b, err := os.ReadFile(filepath.Join(verif, "known_findings.jsonl")); err == nil {
		os.WriteFile(filepath.Join(tmp, "verif", "known_findings.jsonl"), b, 0o644)
	}
	cmd := exec.Command(os.Args[0], "-prop", p.id, "-repo", filepath.Join(tmp, "src"), "-verif", filepath.Join(tmp, "verif"))
	o, err := cmd.CombinedOutput()
	code := 0
	if err != nil {
		if ee, ok := err.(*exec.ExitError); ok {
			code = ee.ExitCode()
		} else {
			return "error", err.Error()
		}
	}
	var fired []string
	for _, l := range strings.Split(string(o), "\n") {
		if strings.HasPrefix(l, "VIOLATED ") || strings.HasPrefix(l, "UNDECIDED ") {
			f := strings.Fields(l)
			if len(f) > 1 {
				fired = append(fired, f[1])
			}
		}
	}
	rep := strings.Join(fired, " ")
	if len(rep) > 400 {
		rep = rep[:400] + "…"
	}
	switch {
	case expect == "known-limit" && code != 0:
		return "known-limit", rep
	case code == 2 || code > 3:
		return "error", lastNonEmpty(string(o))
	case expect == "fire" && code == 1:
		return "fired", rep
	case expect == "fire":
		return "missed", "no rule fired"
	case code == 1 && expect == "known-limit":
		return "known-limit", rep
	case code == 1:
		return "false-alarm", rep
	}
	return "silent-as-expected", ""
}

func lastNonEmpty(s string) string {
	lines := strings.Split(strings.TrimSpace(s), "\n")
	if len(lines) == 0 {
		return ""
	}
	return lines[len(lines)-1]
}

func lastLine(s string) string {
	lines := strings.Split(strings.TrimSpace(s), "\n")
	for i := len(lines) - 1; i >= 0; i-- {
		l := lines[i]
		if strings.HasPrefix(l, "FIRED") || strings.HasPrefix(l, "MISSED") || strings.HasPrefix(l, "STALE") || strings.HasPrefix(l, "SILENT") || strings.HasPrefix(l, "FALSE-ALARM") || strings.HasPrefix(l, "CHECKER") {
			return l
		}
	}
	if len(lines) > 0 {
		return fmt.Sprintf("%s", lines[len(lines)-1])
	}
	return ""
}
